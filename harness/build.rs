// Copies the four shipped copies of the string front-end out of /repo (unedited) into OUT_DIR,
// turning inner doc comments / inner attributes into plain comments (they are not allowed inside
// an `include!`d module body) and appending two `pub` wrappers, so that the harness can call the
// *repository's* front-end code rather than a transcription of it.
use std::{env, fs, path::PathBuf};

fn main() {
    let repo = env::var("VERIF_REPO").unwrap_or_else(|_| "/repo".to_string());
    let out = PathBuf::from(env::var("OUT_DIR").unwrap());
    let files = [
        ("fe_simple", "examples/simple.rs"),
        ("fe_fuzz", "fuzz/fuzz_targets/parse.rs"),
        ("fe_integ", "tests/integration_tests.rs"),
        ("fe_golang", "etc/correctness/test-parse-golang/main.rs"),
    ];
    for (name, rel) in files.iter() {
        let path = format!("{}/{}", repo, rel);
        println!("cargo:rerun-if-changed={}", path);
        let src = fs::read_to_string(&path).unwrap_or_else(|e| panic!("cannot read {}: {}", path, e));
        let mut dst = String::new();
        for line in src.lines() {
            let t = line.trim_start();
            if t.starts_with("//!") {
                dst.push_str("// ");
                dst.push_str(&t[3..]);
            } else if t.starts_with("#![") {
                dst.push_str("// ");
                dst.push_str(t);
            } else {
                dst.push_str(line);
            }
            dst.push('\n');
        }
        dst.push_str(
            "\n#[allow(dead_code)]\npub fn verif_fe_f32(bytes: &[u8]) -> (f32, &[u8]) { parse_float::<f32>(bytes) }\n\
             #[allow(dead_code)]\npub fn verif_fe_f64(bytes: &[u8]) -> (f64, &[u8]) { parse_float::<f64>(bytes) }\n",
        );
        fs::write(out.join(format!("{}.rs", name)), dst).unwrap();
    }
    println!("cargo:rerun-if-env-changed=VERIF_REPO");
}
