// Exhaustive sweeps over the finite f32 domains, on the REAL code (thorough tier):
//   sweep f32bits            all 2^32 bit patterns: Float helper methods vs closed forms (C17)
//   sweep f32mid [stride]    every midpoint between adjacent non-negative f32 values, written out exactly
//                            (<= 113 digits): the tie itself, tie + one deep digit, tie - epsilon (C02)
//   sweep f32rt  [stride]    every finite non-negative f32: shortest and 9-digit renderings (Rust's own
//                            formatter) and the exact expansion parse back to the same bits (C03)
// Expected answers are known by construction (even neighbour / upper / lower neighbour; the float
// itself), no model involved.  Prints a summary line and the first mismatches; exit code 1 on mismatch.
#![allow(clippy::all)]
use minimal_lexical::extended_float::{extended_to_float, ExtendedFloat};
use minimal_lexical::num::Float;
use std::sync::atomic::{AtomicU64, Ordering};
use std::sync::Mutex;

const THREADS: u64 = 16;

fn parse32(i: &[u8], f: &[u8], e: i32) -> u32 {
    minimal_lexical::parse_float::<f32, _, _>(i.iter(), f.iter(), e).to_bits()
}

// ------------------------------------------------------------------ tiny decimal bignum (base 10^9)
#[derive(Clone)]
struct Dec(Vec<u32>); // little endian, base 1e9
impl Dec {
    fn from_u64(mut x: u64) -> Dec {
        let mut v = vec![];
        while x > 0 {
            v.push((x % 1_000_000_000) as u32);
            x /= 1_000_000_000;
        }
        Dec(v)
    }
    fn mul_small(&mut self, m: u32) {
        let mut c: u64 = 0;
        for d in self.0.iter_mut() {
            let t = *d as u64 * m as u64 + c;
            *d = (t % 1_000_000_000) as u32;
            c = t / 1_000_000_000;
        }
        while c > 0 {
            self.0.push((c % 1_000_000_000) as u32);
            c /= 1_000_000_000;
        }
    }
    fn add(&mut self, o: &Dec) {
        let mut c: u64 = 0;
        let n = self.0.len().max(o.0.len());
        self.0.resize(n, 0);
        for k in 0..n {
            let t = self.0[k] as u64 + *o.0.get(k).unwrap_or(&0) as u64 + c;
            self.0[k] = (t % 1_000_000_000) as u32;
            c = t / 1_000_000_000;
        }
        if c > 0 {
            self.0.push(c as u32);
        }
    }
    fn digits(&self) -> Vec<u8> {
        let mut s = Vec::with_capacity(self.0.len() * 9);
        let mut first = true;
        for d in self.0.iter().rev() {
            let t = if first { format!("{}", d) } else { format!("{:09}", d) };
            first = false;
            s.extend_from_slice(t.as_bytes());
        }
        if s.is_empty() {
            s.push(b'0');
        }
        s
    }
}

// value = m * 2^e2 exactly, as (digits, decimal exponent): m * 2^e2 = D * 10^x
fn exact_decimal(m: u64, e2: i32) -> (Dec, i32) {
    let mut d = Dec::from_u64(m);
    if e2 >= 0 {
        for _ in 0..e2 {
            d.mul_small(2);
        }
        (d, 0)
    } else {
        for _ in 0..(-e2) {
            d.mul_small(5);
        }
        (d, e2)
    }
}

fn report(bad: &Mutex<Vec<String>>, msg: String) {
    let mut b = bad.lock().unwrap();
    if b.len() < 20 {
        b.push(msg);
    }
}

// ------------------------------------------------------------------ f32bits
fn f32bits() -> i32 {
    let nbad = AtomicU64::new(0);
    let bad = Mutex::new(Vec::new());
    std::thread::scope(|s| {
        for t in 0..THREADS {
            let nbad = &nbad;
            let bad = &bad;
            s.spawn(move || {
                let lo = (1u64 << 32) * t / THREADS;
                let hi = (1u64 << 32) * (t + 1) / THREADS;
                for bits in lo..hi {
                    let bits = bits as u32;
                    let x = f32::from_bits(bits);
                    let ef = (bits >> 23) & 0xff;
                    let fr = bits & 0x7f_ffff;
                    let mut ok = true;
                    ok &= x.is_denormal() == (ef == 0);
                    let want_e = if ef == 0 { -149 } else { ef as i32 - 150 };
                    let want_m = if ef == 0 { fr as u64 } else { fr as u64 | (1 << 23) };
                    ok &= x.exponent() == want_e;
                    ok &= x.mantissa() == want_m;
                    ok &= Float::to_bits(x) == bits as u64;
                    ok &= <f32 as Float>::from_bits(bits as u64).to_bits() == bits;
                    if ef != 0xff {
                        // mantissa * 2^exponent == |value| (exact in f64)
                        let v = want_m as f64 * (2.0f64).powi(want_e);
                        ok &= v == (x.abs() as f64);
                        ok &= (x.mantissa() as f64) * (2.0f64).powi(x.exponent()) == (x.abs() as f64);
                    }
                    if bits >> 31 == 0 {
                        // packing (biased exponent, fraction) yields exactly those fields
                        let p: f32 = extended_to_float(ExtendedFloat { mant: fr as u64, exp: ef as i32 });
                        ok &= p.to_bits() == bits;
                    }
                    if !ok {
                        nbad.fetch_add(1, Ordering::Relaxed);
                        report(bad, format!("bits {:08x}: is_denormal {} exponent {} mantissa {}", bits, x.is_denormal(), x.exponent(), x.mantissa()));
                    }
                }
            });
        }
    });
    let n = nbad.load(Ordering::Relaxed);
    for l in bad.lock().unwrap().iter() {
        println!("MISMATCH {}", l);
    }
    println!("f32bits: patterns=4294967296 mismatches={}", n);
    (n != 0) as i32
}

// ------------------------------------------------------------------ f32mid
// midpoints between adjacent non-negative floats b and b+1 (bit patterns), b in 0 .. 0x7f7fffff
// (the last one, above the largest finite, is the overflow threshold).
fn f32mid(stride: u64, offset: u64) -> i32 {
    let nbad = AtomicU64::new(0);
    let ncases = AtomicU64::new(0);
    let bad = Mutex::new(Vec::new());
    // one work item per biased exponent field (0 = subnormals)
    let next = AtomicU64::new(0);
    std::thread::scope(|s| {
        for _ in 0..THREADS {
            let nbad = &nbad;
            let ncases = &ncases;
            let bad = &bad;
            let next = &next;
            s.spawn(move || loop {
                let ef = next.fetch_add(1, Ordering::Relaxed);
                if ef > 254 {
                    break;
                }
                let e2 = if ef == 0 { -149 } else { ef as i32 - 150 }; // value = M * 2^e2
                let mbase: u64 = if ef == 0 { 0 } else { 1 << 23 };
                // midpoint above mantissa M is (2M+1) * 2^(e2-1); start at the first M = mbase + k0 of the stride
                let k0 = (offset + stride - (ef * 8388608) % stride) % stride;
                if k0 >= (1 << 23) {
                    continue;
                }
                let (mut d, x) = exact_decimal(2 * (mbase + k0) + 1, e2 - 1);
                let (step, _) = exact_decimal(2 * stride, e2 - 1);
                let mut k = k0;
                while k < (1 << 23) {
                    let m = mbase + k;
                    let lower: u32 = ((ef as u32) << 23) | (k as u32);
                    let upper: u32 = lower + 1; // next pattern (carries into the next binade / infinity correctly)
                    let even = if m % 2 == 0 { lower } else { upper };
                    let digs = d.digits();
                    // 1. the tie itself -> even neighbour
                    let (i, f, e) = split(&digs, x);
                    let got = parse32(&i, &f, e);
                    // 2. tie followed by zeros and a 1 (strictly above) -> upper
                    let mut dd = digs.clone();
                    dd.extend_from_slice(b"0000000000000000000000000000001");
                    let (i2, f2, e2_) = split(&dd, x - 31);
                    let got2 = parse32(&i2, &f2, e2_);
                    // 3. just below: (D - 1) followed by 9s -> lower
                    let mut dm = dec_minus_one(&digs);
                    dm.extend_from_slice(b"9999999999999999999999999999999");
                    let (i3, f3, e3) = split(&dm, x - 31);
                    let got3 = parse32(&i3, &f3, e3);
                    ncases.fetch_add(3, Ordering::Relaxed);
                    if got != even || got2 != upper || got3 != lower {
                        nbad.fetch_add(1, Ordering::Relaxed);
                        report(bad, format!("midpoint above {:08x}: tie -> {:08x} (want {:08x}), tie+eps -> {:08x} (want {:08x}), tie-eps -> {:08x} (want {:08x}); digits {} e {}",
                            lower, got, even, got2, upper, got3, lower, String::from_utf8_lossy(&digs), x));
                    }
                    d.add(&step);
                    k += stride;
                }
            });
        }
    });
    let n = nbad.load(Ordering::Relaxed);
    for l in bad.lock().unwrap().iter() {
        println!("MISMATCH {}", l);
    }
    println!("f32mid: stride={} offset={} parses={} mismatching_midpoints={}", stride, offset, ncases.load(Ordering::Relaxed), n);
    (n != 0) as i32
}

fn dec_minus_one(d: &[u8]) -> Vec<u8> {
    let mut v = d.to_vec();
    let mut k = v.len();
    while k > 0 {
        k -= 1;
        if v[k] > b'0' {
            v[k] -= 1;
            break;
        } else {
            v[k] = b'9';
        }
    }
    // strip leading zeros
    let z = v.iter().take_while(|&&c| c == b'0').count();
    let z = z.min(v.len() - 1);
    v.drain(..z);
    v
}

// digits * 10^x as (integer digits, fraction digits, exponent) with the integer part free of leading zeros
fn split(d: &[u8], x: i32) -> (Vec<u8>, Vec<u8>, i32) {
    // put the decimal point after the first digit when x < 0 and the string is long, else all integer
    if d.len() == 1 && d[0] == b'0' {
        return (vec![], vec![], 0);
    }
    if x >= 0 {
        (d.to_vec(), vec![], x)
    } else {
        // integer part = first digit, fraction = the rest
        (d[..1].to_vec(), d[1..].to_vec(), x + (d.len() as i32 - 1))
    }
}

// ------------------------------------------------------------------ f32rt
fn f32rt(stride: u64, offset: u64) -> i32 {
    let nbad = AtomicU64::new(0);
    let ncases = AtomicU64::new(0);
    let bad = Mutex::new(Vec::new());
    let total: u64 = 0x7f80_0000; // finite non-negative patterns
    std::thread::scope(|s| {
        for t in 0..THREADS {
            let nbad = &nbad;
            let ncases = &ncases;
            let bad = &bad;
            s.spawn(move || {
                let lo = total * t / THREADS;
                let hi = total * (t + 1) / THREADS;
                let mut b = lo + (offset + stride - lo % stride) % stride;
                while b < hi {
                    let bits = b as u32;
                    let x = f32::from_bits(bits);
                    for (kind, s) in [("shortest", format!("{:e}", x)), ("9-digit", format!("{:.8e}", x))] {
                        let (mant, ex) = s.split_once('e').unwrap();
                        let ex: i32 = ex.parse().unwrap();
                        let (ip, fp) = match mant.split_once('.') {
                            Some((a, b)) => (a, b),
                            None => (mant, ""),
                        };
                        let fp = fp.trim_end_matches('0');
                        let ip = if ip == "0" { "" } else { ip };
                        let got = parse32(ip.as_bytes(), fp.as_bytes(), ex);
                        ncases.fetch_add(1, Ordering::Relaxed);
                        if got != bits {
                            nbad.fetch_add(1, Ordering::Relaxed);
                            report(bad, format!("{} rendering {} of {:08x} parses to {:08x}", kind, s, bits, got));
                        }
                    }
                    // exact expansion (every 64th value of the stride: it is the expensive one)
                    if (b / stride) % 64 == 0 {
                        let ef = (bits >> 23) as u64;
                        let fr = (bits & 0x7f_ffff) as u64;
                        let (m, e2) = if ef == 0 { (fr, -149) } else { (fr | (1 << 23), ef as i32 - 150) };
                        if m != 0 {
                            let (d, x10) = exact_decimal(m, e2);
                            let digs = d.digits();
                            let (i, f, e) = split(&digs, x10);
                            let f: Vec<u8> = { let mut f = f; while f.last() == Some(&b'0') { f.pop(); } f };
                            let got = parse32(&i, &f, e);
                            ncases.fetch_add(1, Ordering::Relaxed);
                            if got != bits {
                                nbad.fetch_add(1, Ordering::Relaxed);
                                report(bad, format!("exact expansion of {:08x} parses to {:08x}", bits, got));
                            }
                        }
                    }
                    b += stride;
                }
            });
        }
    });
    let n = nbad.load(Ordering::Relaxed);
    for l in bad.lock().unwrap().iter() {
        println!("MISMATCH {}", l);
    }
    println!("f32rt: stride={} offset={} parses={} mismatches={}", stride, offset, ncases.load(Ordering::Relaxed), n);
    (n != 0) as i32
}

fn main() {
    let a: Vec<String> = std::env::args().collect();
    let stride: u64 = a.get(2).and_then(|s| s.parse().ok()).unwrap_or(1).max(1);
    let offset: u64 = a.get(3).and_then(|s| s.parse().ok()).unwrap_or(0) % stride;
    let rc = match a.get(1).map(|s| s.as_str()) {
        Some("f32bits") => f32bits(),
        Some("f32mid") => f32mid(stride, offset),
        Some("f32rt") => f32rt(stride, offset),
        _ => {
            eprintln!("usage: sweep f32bits | f32mid [stride [offset]] | f32rt [stride [offset]]");
            2
        },
    };
    std::process::exit(rc);
}
