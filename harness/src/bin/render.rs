// Renders floats through Rust's own formatter (independent of the model and of minimal-lexical):
// shortest round-trip digits (`{:e}`) and 9 / 17 significant digits (`{:.8e}` / `{:.16e}`).
use std::io::{self, BufRead, Write};
fn main() {
    let stdin = io::stdin();
    let stdout = io::stdout();
    let mut out = io::BufWriter::new(stdout.lock());
    for line in stdin.lock().lines() {
        let line = line.unwrap();
        let t: Vec<&str> = line.split_ascii_whitespace().collect();
        if t.len() < 2 {
            continue;
        }
        let bits: u64 = t[1].parse().unwrap();
        if t[0] == "f32" {
            let x = f32::from_bits(bits as u32);
            writeln!(out, "{:e} {:.8e}", x, x).unwrap();
        } else {
            let x = f64::from_bits(bits);
            writeln!(out, "{:e} {:.16e}", x, x).unwrap();
        }
    }
}
