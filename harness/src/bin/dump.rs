// Prints every constant the algorithms consume, as the *compiler* evaluated it, one item per
// line, in a format tools/gen_coq.py turns into Coq definitions.  Built once per configuration.
use minimal_lexical::bigint::{BIGINT_BITS, BIGINT_LIMBS, LIMB_BITS};
use minimal_lexical::num::Float;

fn consts<F: Float>(name: &str, clamp: i32) {
    println!("const {} MAX_DIGITS {}", name, F::MAX_DIGITS);
    println!("const {} SIGN_MASK {}", name, F::SIGN_MASK);
    println!("const {} EXPONENT_MASK {}", name, F::EXPONENT_MASK);
    println!("const {} HIDDEN_BIT_MASK {}", name, F::HIDDEN_BIT_MASK);
    println!("const {} MANTISSA_MASK {}", name, F::MANTISSA_MASK);
    println!("const {} MANTISSA_SIZE {}", name, F::MANTISSA_SIZE);
    println!("const {} EXPONENT_BIAS {}", name, F::EXPONENT_BIAS);
    println!("const {} DENORMAL_EXPONENT {}", name, F::DENORMAL_EXPONENT);
    println!("const {} MAX_EXPONENT {}", name, F::MAX_EXPONENT);
    println!("const {} CARRY_MASK {}", name, F::CARRY_MASK);
    println!("const {} INVALID_FP {}", name, F::INVALID_FP);
    println!("const {} MAX_MANTISSA_FAST_PATH {}", name, F::MAX_MANTISSA_FAST_PATH);
    println!("const {} INFINITE_POWER {}", name, F::INFINITE_POWER);
    println!("const {} MIN_EXPONENT_ROUND_TO_EVEN {}", name, F::MIN_EXPONENT_ROUND_TO_EVEN);
    println!("const {} MAX_EXPONENT_ROUND_TO_EVEN {}", name, F::MAX_EXPONENT_ROUND_TO_EVEN);
    println!("const {} MINIMUM_EXPONENT {}", name, F::MINIMUM_EXPONENT);
    println!("const {} SMALLEST_POWER_OF_TEN {}", name, F::SMALLEST_POWER_OF_TEN);
    println!("const {} LARGEST_POWER_OF_TEN {}", name, F::LARGEST_POWER_OF_TEN);
    println!("const {} MIN_EXPONENT_FAST_PATH {}", name, F::MIN_EXPONENT_FAST_PATH);
    println!("const {} MAX_EXPONENT_FAST_PATH {}", name, F::MAX_EXPONENT_FAST_PATH);
    println!(
        "const {} MAX_EXPONENT_DISGUISED_FAST_PATH {}",
        name,
        F::MAX_EXPONENT_DISGUISED_FAST_PATH
    );
    // On-demand / table powers exactly as the fast path asks for them: 0..=MAX_EXPONENT_FAST_PATH
    // (number.rs) -- in compact builds this *runs* powf/powd (std or the bundled libm).
    // (clamped to the physical table length so that a mutated constant cannot make the dump itself
    // index out of bounds)
    let maxk = F::MAX_EXPONENT_FAST_PATH.max(-F::MIN_EXPONENT_FAST_PATH).min(clamp);
    for k in 0..=maxk {
        let v: F = unsafe { F::pow_fast_path(k as usize) };
        println!("pow {} {} {}", name, k, v.to_bits());
    }
}

fn main() {
    println!("bigint BIGINT_BITS {}", BIGINT_BITS);
    println!("bigint BIGINT_LIMBS {}", BIGINT_LIMBS);
    println!("bigint LIMB_BITS {}", LIMB_BITS);
    consts::<f32>("f32", 15);
    consts::<f64>("f64", 31);

    // int_pow_fast_path: radix ten is asked for 0..=19 (slow.rs, counter <= step) and
    // 0..=MAX_DISGUISED-MAX_FAST (number.rs); radix five for 0..=26 (bigint.rs, exp < small_step).
    for k in 0..=19usize {
        let v = unsafe { minimal_lexical::num::verif_int_pow_fast_path(k, true) };
        println!("ipow 10 {} {}", k, v);
    }
    for k in 0..=27usize {
        let v = unsafe { minimal_lexical::num::verif_int_pow_fast_path(k, false) };
        println!("ipow 5 {} {}", k, v);
    }

    #[cfg(not(feature = "compact"))]
    {
        use minimal_lexical::table::*;
        println!("scalar SMALLEST_POWER_OF_FIVE {}", SMALLEST_POWER_OF_FIVE);
        println!("scalar LARGEST_POWER_OF_FIVE {}", LARGEST_POWER_OF_FIVE);
        println!("scalar N_POWERS_OF_FIVE {}", N_POWERS_OF_FIVE);
        for (i, (a, b)) in POWER_OF_FIVE_128.iter().enumerate() {
            println!("tab2 POWER_OF_FIVE_128 {} {} {}", i, a, b);
        }
        for (i, v) in SMALL_INT_POW5.iter().enumerate() {
            println!("tab SMALL_INT_POW5 {} {}", i, v);
        }
        for (i, v) in SMALL_INT_POW10.iter().enumerate() {
            println!("tab SMALL_INT_POW10 {} {}", i, v);
        }
        for (i, v) in SMALL_F32_POW10.iter().enumerate() {
            println!("tab SMALL_F32_POW10 {} {}", i, v.to_bits());
        }
        for (i, v) in SMALL_F64_POW10.iter().enumerate() {
            println!("tab SMALL_F64_POW10 {} {}", i, v.to_bits());
        }
        for (i, v) in LARGE_POW5.iter().enumerate() {
            println!("tab LARGE_POW5 {} {}", i, v);
        }
        println!("scalar LARGE_POW5_STEP {}", LARGE_POW5_STEP);
    }
    #[cfg(feature = "compact")]
    {
        use minimal_lexical::table::BASE10_POWERS as P;
        for (i, v) in P.small.iter().enumerate() {
            println!("tab BELL_SMALL {} {}", i, v);
        }
        for (i, v) in P.large.iter().enumerate() {
            println!("tab BELL_LARGE {} {}", i, v);
        }
        for (i, v) in P.small_int.iter().enumerate() {
            println!("tab BELL_SMALL_INT {} {}", i, v);
        }
        println!("scalar BELL_STEP {}", P.step);
        println!("scalar BELL_BIAS {}", P.bias);
        println!("scalar BELL_LOG2 {}", P.log2);
        println!("scalar BELL_LOG2_SHIFT {}", P.log2_shift);
        // the binary exponents the code derives from the log2 multiplier
        for i in 0..P.small.len() {
            println!("tab BELL_SMALL_EXP {} {}", i, P.get_small(i).exp);
        }
        for i in 0..P.large.len() {
            println!("tab BELL_LARGE_EXP {} {}", i, P.get_large(i).exp);
        }
    }
    println!("end");
}
