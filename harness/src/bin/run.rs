// Correspondence runner: reads one case per line on stdin, runs the *real* code from /repo on it
// and prints one canonical result line per case.  Never prints floats, addresses or timestamps.
// Every case runs under catch_unwind; a clean Rust panic prints `PANIC`.
#![allow(clippy::all)]
use minimal_lexical::bigint::{self, Bigint, Limb, VecType};
use minimal_lexical::extended_float::{extended_to_float, ExtendedFloat};
use minimal_lexical::mask;
use minimal_lexical::num::Float;
use minimal_lexical::number::Number;
use minimal_lexical::rounding;
use minimal_lexical::slow;
use std::alloc::{GlobalAlloc, Layout, System};
use std::collections::VecDeque;
use std::io::{self, BufRead, Write};
use std::panic::{self, AssertUnwindSafe};
use std::sync::atomic::{AtomicU64, Ordering};

mod fe_simple {
    #![allow(dead_code, unused_imports, unused_variables, clippy::all)]
    include!(concat!(env!("OUT_DIR"), "/fe_simple.rs"));
}
mod fe_fuzz {
    #![allow(dead_code, unused_imports, unused_variables, clippy::all)]
    include!(concat!(env!("OUT_DIR"), "/fe_fuzz.rs"));
}
mod fe_integ {
    #![allow(dead_code, unused_imports, unused_variables, clippy::all)]
    include!(concat!(env!("OUT_DIR"), "/fe_integ.rs"));
}
mod fe_golang {
    #![allow(dead_code, unused_imports, unused_variables, clippy::all)]
    include!(concat!(env!("OUT_DIR"), "/fe_golang.rs"));
}

// ---------------------------------------------------------------- counting allocator (C15)
struct Counting;
static ALLOCS: AtomicU64 = AtomicU64::new(0);
unsafe impl GlobalAlloc for Counting {
    unsafe fn alloc(&self, l: Layout) -> *mut u8 {
        ALLOCS.fetch_add(1, Ordering::Relaxed);
        System.alloc(l)
    }
    unsafe fn dealloc(&self, p: *mut u8, l: Layout) {
        System.dealloc(p, l)
    }
    unsafe fn alloc_zeroed(&self, l: Layout) -> *mut u8 {
        ALLOCS.fetch_add(1, Ordering::Relaxed);
        System.alloc_zeroed(l)
    }
    unsafe fn realloc(&self, p: *mut u8, l: Layout, n: usize) -> *mut u8 {
        ALLOCS.fetch_add(1, Ordering::Relaxed);
        System.realloc(p, l, n)
    }
}
#[global_allocator]
static GLOBAL: Counting = Counting;

// ---------------------------------------------------------------- parsing helpers
fn bytes_of(tok: &str) -> Vec<u8> {
    if tok == "-" {
        Vec::new()
    } else if let Some(h) = tok.strip_prefix('x') {
        let hb = h.as_bytes();
        (0..hb.len() / 2)
            .map(|i| u8::from_str_radix(std::str::from_utf8(&hb[2 * i..2 * i + 2]).unwrap(), 16).unwrap())
            .collect()
    } else {
        tok.as_bytes().to_vec()
    }
}
fn limbs_of(tok: &str) -> Vec<Limb> {
    if tok == "-" {
        Vec::new()
    } else {
        tok.split(',').map(|s| u64::from_str_radix(s, 16).unwrap() as Limb).collect()
    }
}
fn limbs_str(l: &[Limb]) -> String {
    if l.is_empty() {
        "-".to_string()
    } else {
        l.iter().map(|x| format!("{:x}", x)).collect::<Vec<_>>().join(",")
    }
}
fn u(tok: &str) -> u64 {
    tok.parse::<u64>().unwrap()
}
fn i(tok: &str) -> i32 {
    tok.parse::<i32>().unwrap()
}
fn us(tok: &str) -> usize {
    tok.parse::<usize>().unwrap()
}
fn b(tok: &str) -> bool {
    tok == "1"
}
fn ef(fp: ExtendedFloat) -> String {
    format!("E {} {}", fp.mant, fp.exp)
}
fn vec_of(l: &[Limb]) -> Option<VecType> {
    VecType::try_from(l)
}
fn optv(r: Option<()>, v: &VecType) -> String {
    match r {
        Some(()) => format!("L {}", limbs_str(v)),
        None => "NONE".to_string(),
    }
}

// ---------------------------------------------------------------- iterator shapes (C16)
#[derive(Clone)]
struct Cursor<'a> {
    data: &'a [u8],
    pos: usize,
}
impl<'a> Iterator for Cursor<'a> {
    type Item = &'a u8;
    fn next(&mut self) -> Option<&'a u8> {
        if self.pos < self.data.len() {
            self.pos += 1;
            Some(&self.data[self.pos - 1])
        } else {
            None
        }
    }
}

#[inline(never)]
fn poison_stack(pat: u8) -> u64 {
    let mut buf = [0u8; 65536];
    for x in buf.iter_mut() {
        unsafe { std::ptr::write_volatile(x, pat) };
    }
    let mut s = 0u64;
    for x in buf.iter().step_by(4096) {
        s = s.wrapping_add(unsafe { std::ptr::read_volatile(x) } as u64);
    }
    s
}

fn pf_shape<F: Float>(shape: &str, ib: &[u8], fb: &[u8], e: i32) -> F {
    match shape {
        "slice" => minimal_lexical::parse_float::<F, _, _>(ib.iter(), fb.iter(), e),
        "chain" => {
            let (i1, i2) = ib.split_at(ib.len() / 2);
            let (f1, f2) = fb.split_at(fb.len() / 3);
            minimal_lexical::parse_float::<F, _, _>(i1.iter().chain(i2.iter()), f1.iter().chain(f2.iter()), e)
        },
        "filter" => {
            // pad with b'_' which the filter removes again
            let pad = |s: &[u8]| {
                let mut v = Vec::with_capacity(2 * s.len() + 1);
                v.push(b'_');
                for &c in s {
                    v.push(c);
                    v.push(b'_');
                }
                v
            };
            let (pi, pf) = (pad(ib), pad(fb));
            minimal_lexical::parse_float::<F, _, _>(
                pi.iter().filter(|&&c| c != b'_'),
                pf.iter().filter(|&&c| c != b'_'),
                e,
            )
        },
        "deque" => {
            // non-contiguous storage: rotate so that the ring buffer wraps
            let mk = |s: &[u8]| {
                let mut d: VecDeque<u8> = VecDeque::with_capacity(s.len() + 8);
                for _ in 0..5 {
                    d.push_back(0);
                }
                for _ in 0..5 {
                    d.pop_front();
                }
                for &c in s {
                    d.push_back(c);
                }
                d
            };
            let (di, df) = (mk(ib), mk(fb));
            minimal_lexical::parse_float::<F, _, _>(di.iter(), df.iter(), e)
        },
        "cursor" => minimal_lexical::parse_float::<F, _, _>(
            Cursor {
                data: ib,
                pos: 0,
            },
            Cursor {
                data: fb,
                pos: 0,
            },
            e,
        ),
        "revrev" => {
            let ri: Vec<u8> = ib.iter().rev().cloned().collect();
            let rf: Vec<u8> = fb.iter().rev().cloned().collect();
            minimal_lexical::parse_float::<F, _, _>(ri.iter().rev(), rf.iter().rev(), e)
        },
        "poisonff" => {
            std::hint::black_box(poison_stack(0xFF));
            minimal_lexical::parse_float::<F, _, _>(ib.iter(), fb.iter(), e)
        },
        "poisonaa" => {
            std::hint::black_box(poison_stack(0xAA));
            minimal_lexical::parse_float::<F, _, _>(ib.iter(), fb.iter(), e)
        },
        "after" => {
            // after slow-path calls on unrelated inputs
            let junk_i = b"17976931348623158079372897140530341507993413271003782693617377898044496829276475094664901797758720709633028641669288791094655554785194040263065748867150582068190890200070838367627385484581771153176447573027006985557136695962284291481986083493647529271907416844436551070434271155969950809304288017790417449779";
            let junk_f = b"00000000000000000000000000000000000000024703282292062327208051355972539";
            let a: f64 = minimal_lexical::parse_float(junk_i.iter(), junk_f.iter(), 0);
            let b: f32 = minimal_lexical::parse_float(junk_i[..0].iter(), junk_f.iter(), -300);
            std::hint::black_box((a, b));
            minimal_lexical::parse_float::<F, _, _>(ib.iter(), fb.iter(), e)
        },
        "threads" => {
            // 16 concurrent callers; all must agree with each other (the caller compares with "slice")
            let ib2 = ib.to_vec();
            let fb2 = fb.to_vec();
            let mut hs = Vec::new();
            for _ in 0..16 {
                let (a, c) = (ib2.clone(), fb2.clone());
                hs.push(std::thread::spawn(move || {
                    let mut last = 0u64;
                    for _ in 0..4 {
                        let v: F = minimal_lexical::parse_float(a.iter(), c.iter(), e);
                        last = v.to_bits();
                    }
                    last
                }));
            }
            let rs: Vec<u64> = hs.into_iter().map(|h| h.join().unwrap()).collect();
            let first = rs[0];
            if rs.iter().all(|&x| x == first) {
                F::from_bits(first)
            } else {
                // encode disagreement as an impossible pattern (sign bit set)
                F::from_bits(F::SIGN_MASK | 1)
            }
        },
        _ => panic!("unknown shape"),
    }
}

// ---------------------------------------------------------------- per-format commands
fn fmt_cmd<F: Float>(cmd: &str, t: &[&str]) -> String {
    match cmd {
        "PF" => {
            let (ib, fb) = (bytes_of(t[0]), bytes_of(t[1]));
            let v: F = minimal_lexical::parse_float(ib.iter(), fb.iter(), i(t[2]));
            format!("V {:016x}", v.to_bits())
        },
        "PTH" => {
            let (ib, fb) = (bytes_of(t[0]), bytes_of(t[1]));
            let num = minimal_lexical::parse::verif_parse_number(&ib, &fb, i(t[2]));
            if num.try_fast_path::<F>().is_some() {
                "T F".to_string()
            } else {
                let fp = minimal_lexical::parse::moderate_path::<F>(&num);
                if fp.exp < 0 {
                    "T S".to_string()
                } else {
                    "T M".to_string()
                }
            }
        },
        "PFA" => {
            let (ib, fb) = (bytes_of(t[0]), bytes_of(t[1]));
            let e = i(t[2]);
            let before = ALLOCS.load(Ordering::SeqCst);
            let v: F = minimal_lexical::parse_float(ib.iter(), fb.iter(), e);
            let after = ALLOCS.load(Ordering::SeqCst);
            format!("V {:016x} A {}", v.to_bits(), after - before)
        },
        "PFI" => {
            let (ib, fb) = (bytes_of(t[1]), bytes_of(t[2]));
            let v: F = pf_shape::<F>(t[0], &ib, &fb, i(t[3]));
            format!("V {:016x}", v.to_bits())
        },
        "FP" | "IFP" => {
            let num = Number {
                mantissa: u(t[0]),
                exponent: i(t[1]),
                many_digits: b(t[2]),
            };
            if cmd == "IFP" {
                format!("B {}", num.is_fast_path::<F>() as u8)
            } else {
                match num.try_fast_path::<F>() {
                    Some(v) => format!("V {:016x}", v.to_bits()),
                    None => "NONE".to_string(),
                }
            }
        },
        "MP" => {
            let num = Number {
                mantissa: u(t[0]),
                exponent: i(t[1]),
                many_digits: b(t[2]),
            };
            ef(minimal_lexical::parse::moderate_path::<F>(&num))
        },
        #[cfg(not(feature = "compact"))]
        "CF" => ef(minimal_lexical::lemire::compute_float::<F>(i(t[0]), u(t[1]))),
        #[cfg(not(feature = "compact"))]
        "CE" => ef(minimal_lexical::lemire::compute_error::<F>(i(t[0]), u(t[1]))),
        #[cfg(not(feature = "compact"))]
        "CES" => ef(minimal_lexical::lemire::compute_error_scaled::<F>(i(t[0]), u(t[1]), i(t[2]))),
        #[cfg(feature = "compact")]
        "EIA" => {
            let fp = ExtendedFloat {
                mant: u(t[1]),
                exp: i(t[2]),
            };
            let e: u32 = t[0].parse().unwrap();
            format!("B {}", minimal_lexical::bellerophon::verif_error_is_accurate::<F>(e, &fp) as u8)
        },
        "SL" => {
            let num = Number {
                mantissa: u(t[0]),
                exponent: i(t[1]),
                many_digits: b(t[2]),
            };
            let fp = ExtendedFloat {
                mant: u(t[3]),
                exp: i(t[4]),
            };
            let (ib, fb) = (bytes_of(t[5]), bytes_of(t[6]));
            ef(slow::slow::<F, _, _>(num, fp, ib.iter(), fb.iter()))
        },
        "PDC" => {
            let l = limbs_of(t[0]);
            let big = Bigint {
                data: vec_of(&l).unwrap(),
            };
            ef(slow::positive_digit_comp::<F>(big, i(t[1])))
        },
        "NDC" => {
            let l = limbs_of(t[0]);
            let big = Bigint {
                data: vec_of(&l).unwrap(),
            };
            let fp = ExtendedFloat {
                mant: u(t[1]),
                exp: i(t[2]),
            };
            ef(slow::negative_digit_comp::<F>(big, fp, i(t[3])))
        },
        "FB" => ef(slow::b::<F>(F::from_bits(u(t[0])))),
        "FBH" => ef(slow::bh::<F>(F::from_bits(u(t[0])))),
        "RND" => {
            let mut fp = ExtendedFloat {
                mant: u(t[0]),
                exp: i(t[1]),
            };
            match t[2] {
                "ne" => rounding::round::<F, _>(&mut fp, |f, s| {
                    rounding::round_nearest_tie_even(f, s, |is_odd, is_halfway, is_above| {
                        is_above || (is_odd && is_halfway)
                    });
                }),
                "net" => rounding::round::<F, _>(&mut fp, |f, s| {
                    rounding::round_nearest_tie_even(f, s, |is_odd, is_halfway, is_above| {
                        is_above || is_halfway || (is_odd && is_halfway)
                    });
                }),
                "down" => rounding::round::<F, _>(&mut fp, rounding::round_down),
                "lt" => rounding::round::<F, _>(&mut fp, |f, s| {
                    rounding::round_nearest_tie_even(f, s, |_, _, _| false);
                }),
                "eq" => rounding::round::<F, _>(&mut fp, |f, s| {
                    rounding::round_nearest_tie_even(f, s, |is_odd, _, _| is_odd);
                }),
                "gt" => rounding::round::<F, _>(&mut fp, |f, s| {
                    rounding::round_nearest_tie_even(f, s, |_, _, _| true);
                }),
                _ => panic!("bad kind"),
            }
            ef(fp)
        },
        "E2F" => {
            let fp = ExtendedFloat {
                mant: u(t[0]),
                exp: i(t[1]),
            };
            let v: F = extended_to_float::<F>(fp);
            format!("V {:016x}", v.to_bits())
        },
        "FH" => {
            let f = F::from_bits(u(t[0]));
            format!(
                "H {} {} {} {:016x}",
                f.is_denormal() as u8,
                f.exponent(),
                f.mantissa(),
                f.to_bits()
            )
        },
        "FU" => {
            let f = F::from_u64(u(t[0]));
            format!("V {:016x}", f.to_bits())
        },
        "FE" => {
            // handled by fe_cmd
            unreachable!()
        },
        _ => format!("UNSUPPORTED {}", cmd),
    }
}

fn fe_cmd(variant: &str, fmt: &str, bytes: &[u8]) -> String {
    macro_rules! go {
        ($m:ident) => {
            if fmt == "f32" {
                let (v, rest) = $m::verif_fe_f32(bytes);
                format!("V {:016x} R {}", v.to_bits() as u64, rest.len())
            } else {
                let (v, rest) = $m::verif_fe_f64(bytes);
                format!("V {:016x} R {}", v.to_bits(), rest.len())
            }
        };
    }
    match variant {
        "simple" => go!(fe_simple),
        "fuzz" => go!(fe_fuzz),
        "integ" => go!(fe_integ),
        "golang" => go!(fe_golang),
        _ => "UNSUPPORTED fe".to_string(),
    }
}

// ---------------------------------------------------------------- big-integer commands (C12)
fn bi_cmd(op: &str, t: &[&str]) -> String {
    match op {
        "scalar_add" => {
            let (v, c) = bigint::scalar_add(u(t[0]), u(t[1]));
            format!("U {} {}", v, c as u8)
        },
        "scalar_mul" => {
            let (lo, hi) = bigint::scalar_mul(u(t[0]), u(t[1]), u(t[2]));
            format!("U {} {}", lo, hi)
        },
        "small_add" => {
            let mut v = vec_of(&limbs_of(t[0])).unwrap();
            let r = bigint::small_add(&mut v, u(t[1]));
            optv(r, &v)
        },
        "small_add_from" => {
            let mut v = vec_of(&limbs_of(t[0])).unwrap();
            let r = bigint::small_add_from(&mut v, u(t[1]), us(t[2]));
            optv(r, &v)
        },
        "small_mul" => {
            let mut v = vec_of(&limbs_of(t[0])).unwrap();
            let r = bigint::small_mul(&mut v, u(t[1]));
            optv(r, &v)
        },
        "large_add" => {
            let mut v = vec_of(&limbs_of(t[0])).unwrap();
            let r = bigint::large_add(&mut v, &limbs_of(t[1]));
            optv(r, &v)
        },
        "large_add_from" => {
            let mut v = vec_of(&limbs_of(t[0])).unwrap();
            let r = bigint::large_add_from(&mut v, &limbs_of(t[1]), us(t[2]));
            optv(r, &v)
        },
        "long_mul" => match bigint::long_mul(&limbs_of(t[0]), &limbs_of(t[1])) {
            Some(v) => format!("L {}", limbs_str(&v)),
            None => "NONE".to_string(),
        },
        "large_mul" => {
            let mut v = vec_of(&limbs_of(t[0])).unwrap();
            let r = bigint::large_mul(&mut v, &limbs_of(t[1]));
            optv(r, &v)
        },
        "pow5" => {
            let mut v = vec_of(&limbs_of(t[0])).unwrap();
            let r = bigint::pow(&mut v, t[1].parse::<u32>().unwrap());
            optv(r, &v)
        },
        "bpow" => {
            let mut big = Bigint {
                data: vec_of(&limbs_of(t[0])).unwrap(),
            };
            let r = big.pow(t[1].parse::<u32>().unwrap(), t[2].parse::<u32>().unwrap());
            optv(r, &big.data)
        },
        "shl" => {
            let mut v = vec_of(&limbs_of(t[0])).unwrap();
            let r = bigint::shl(&mut v, us(t[1]));
            optv(r, &v)
        },
        "shl_bits" => {
            let mut v = vec_of(&limbs_of(t[0])).unwrap();
            let r = bigint::shl_bits(&mut v, us(t[1]));
            optv(r, &v)
        },
        "shl_limbs" => {
            let mut v = vec_of(&limbs_of(t[0])).unwrap();
            let r = bigint::shl_limbs(&mut v, us(t[1]));
            optv(r, &v)
        },
        "cmp" => {
            let o = bigint::compare(&limbs_of(t[0]), &limbs_of(t[1]));
            format!("ORD {}", o as i8)
        },
        "normalize" => {
            let mut v = vec_of(&limbs_of(t[0])).unwrap();
            bigint::normalize(&mut v);
            format!("L {}", limbs_str(&v))
        },
        "is_normalized" => format!("B {}", bigint::is_normalized(&limbs_of(t[0])) as u8),
        "bit_length" => format!("U {}", bigint::bit_length(&limbs_of(t[0]))),
        "leading_zeros" => format!("U {}", bigint::leading_zeros(&limbs_of(t[0]))),
        "hi64" => {
            let (v, n) = bigint::hi64(&limbs_of(t[0]));
            format!("U {} {}", v, n as u8)
        },
        "nonzero" => format!("B {}", bigint::nonzero(&limbs_of(t[0]), us(t[1])) as u8),
        "from_u64" => format!("L {}", limbs_str(&bigint::from_u64(u(t[0])))),
        "hi64_1" => {
            let (v, n) = bigint::u64_to_hi64_1(u(t[0]));
            format!("U {} {}", v, n as u8)
        },
        "hi64_2" => {
            let (v, n) = bigint::u64_to_hi64_2(u(t[0]), u(t[1]));
            format!("U {} {}", v, n as u8)
        },
        _ => format!("UNSUPPORTED BI {}", op),
    }
}

// ---------------------------------------------------------------- vector histories (C13)
// script: ops separated by ';', each op `name:arg:arg`.  After every op one state record
// `<ret>|<len>|<limbs>` is appended; records are joined by ' ; '.
fn vh_cmd(script: &str) -> String {
    let mut v = VecType::new();
    let mut out: Vec<String> = Vec::new();
    for op in script.split(';') {
        let a: Vec<&str> = op.split(':').collect();
        let ret: String = match a[0] {
            "new" => {
                v = VecType::new();
                "u".into()
            },
            "from" => match VecType::try_from(&limbs_of(a[1])) {
                Some(n) => {
                    v = n;
                    "s".into()
                },
                None => "n".into(),
            },
            "push" => match v.try_push(u(a[1])) {
                Some(()) => "s".into(),
                None => "n".into(),
            },
            "pop" => match v.pop() {
                Some(x) => format!("s{:x}", x),
                None => "n".into(),
            },
            "ext" => match v.try_extend(&limbs_of(a[1])) {
                Some(()) => "s".into(),
                None => "n".into(),
            },
            "rsz" => match v.try_resize(us(a[1]), u(a[2])) {
                Some(()) => "s".into(),
                None => "n".into(),
            },
            "norm" => {
                v.normalize();
                "u".into()
            },
            "adds" => match v.add_small(u(a[1])) {
                Some(()) => "s".into(),
                None => "n".into(),
            },
            "muls" => match v.mul_small(u(a[1])) {
                Some(()) => "s".into(),
                None => "n".into(),
            },
            "clone" => {
                let c = v.clone();
                v = c;
                "u".into()
            },
            "set" => {
                let idx = us(a[1]);
                if idx < v.len() {
                    v[idx] = u(a[2]);
                    "s".into()
                } else {
                    "n".into()
                }
            },
            "get" => match v.get(us(a[1])) {
                Some(x) => format!("s{:x}", x),
                None => "n".into(),
            },
            "fromu64" => {
                v = VecType::from_u64(u(a[1]));
                "u".into()
            },
            "isnorm" => format!("b{}", v.is_normalized() as u8),
            "isempty" => format!("b{}", v.is_empty() as u8),
            "hi64" => {
                let (h, n) = v.hi64();
                format!("h{:x}.{}", h, n as u8)
            },
            "eq" => match VecType::try_from(&limbs_of(a[1])) {
                Some(o) => {
                    let e1 = v == o;
                    let e2 = !(v != o);
                    if e1 == e2 { format!("b{}", e1 as u8) } else { format!("b{}!ne={}", e1 as u8, !e2 as u8) }
                },
                None => "n".into(),
            },
            "cmp" => match VecType::try_from(&limbs_of(a[1])) {
                Some(o) => {
                    // Ord, PartialOrd and the comparison operators must all tell the same story
                    let c1 = v.cmp(&o) as i8;
                    let c2 = v.partial_cmp(&o).map(|x| x as i8);
                    let ops = ((v < o) as i8, (v <= o) as i8, (v > o) as i8, (v >= o) as i8);
                    let want = ((c1 < 0) as i8, (c1 <= 0) as i8, (c1 > 0) as i8, (c1 >= 0) as i8);
                    if c2 == Some(c1) && ops == want {
                        format!("o{}", c1)
                    } else {
                        format!("o{}!partial_cmp={:?}!ops={:?}", c1, c2, ops)
                    }
                },
                None => "n".into(),
            },
            _ => "?".into(),
        };
        out.push(format!("{}|{}|{}", ret, v.len(), limbs_str(&v)));
    }
    format!("H {}", out.join(" ; "))
}

fn dispatch(line: &str) -> String {
    let t: Vec<&str> = line.split_ascii_whitespace().collect();
    if t.is_empty() {
        return "EMPTY".into();
    }
    match t[0] {
        "PN" => {
            let (ib, fb) = (bytes_of(t[1]), bytes_of(t[2]));
            let n = minimal_lexical::parse::verif_parse_number(&ib, &fb, i(t[3]));
            format!("N {} {} {}", n.mantissa, n.exponent, n.many_digits as u8)
        },
        #[cfg(not(feature = "compact"))]
        "CPA" => {
            let (lo, hi) = minimal_lexical::lemire::verif_compute_product_approx(i(t[1]), u(t[2]), us(t[3]));
            format!("P {} {}", lo, hi)
        },
        #[cfg(not(feature = "compact"))]
        "PW" => format!("I {}", minimal_lexical::lemire::verif_power(i(t[1]))),
        #[cfg(feature = "compact")]
        "BNORM" => {
            let mut fp = ExtendedFloat {
                mant: u(t[1]),
                exp: i(t[2]),
            };
            let s = minimal_lexical::bellerophon::normalize(&mut fp);
            format!("E {} {} S {}", fp.mant, fp.exp, s)
        },
        #[cfg(feature = "compact")]
        "BMUL" => {
            let x = ExtendedFloat {
                mant: u(t[1]),
                exp: i(t[2]),
            };
            let y = ExtendedFloat {
                mant: u(t[3]),
                exp: i(t[4]),
            };
            ef(minimal_lexical::bellerophon::mul(&x, &y))
        },
        "PM" => {
            let (ib, fb) = (bytes_of(t[1]), bytes_of(t[2]));
            let (big, count) = slow::parse_mantissa(ib.iter(), fb.iter(), us(t[3]));
            format!("L {} C {}", limbs_str(&big.data), count)
        },
        "SE" => {
            let num = Number {
                mantissa: u(t[1]),
                exponent: i(t[2]),
                many_digits: false,
            };
            format!("I {}", slow::scientific_exponent(&num))
        },
        "RNTE" => {
            let mut fp = ExtendedFloat {
                mant: u(t[1]),
                exp: i(t[2]),
            };
            rounding::round_nearest_tie_even(&mut fp, i(t[3]), |is_odd, is_halfway, is_above| {
                is_above || (is_odd && is_halfway)
            });
            ef(fp)
        },
        "RDN" => {
            let mut fp = ExtendedFloat {
                mant: u(t[1]),
                exp: i(t[2]),
            };
            rounding::round_down(&mut fp, i(t[3]));
            ef(fp)
        },
        "LNM" => format!("U {}", mask::lower_n_mask(u(t[1]))),
        "LNH" => format!("U {}", mask::lower_n_halfway(u(t[1]))),
        "NB" => format!("U {}", mask::nth_bit(u(t[1]))),
        "BI" => bi_cmd(t[1], &t[2..]),
        "VH" => vh_cmd(t[1]),
        "FE" => fe_cmd(t[1], t[2], &bytes_of(t[3])),
        "ADD_DIGIT" => match minimal_lexical::parse::add_digit(u(t[1]), t[2].parse::<u8>().unwrap()) {
            Some(v) => format!("U {}", v),
            None => "NONE".into(),
        },
        cmd => {
            if t.len() < 2 {
                return format!("UNSUPPORTED {}", cmd);
            }
            match t[1] {
                "f32" => fmt_cmd::<f32>(cmd, &t[2..]),
                "f64" => fmt_cmd::<f64>(cmd, &t[2..]),
                _ => format!("UNSUPPORTED {}", cmd),
            }
        },
    }
}

fn main() {
    panic::set_hook(Box::new(|_| {}));
    let stdin = io::stdin();
    let stdout = io::stdout();
    let mut out = io::BufWriter::with_capacity(1 << 20, stdout.lock());
    let mut line = String::new();
    let mut lock = stdin.lock();
    loop {
        line.clear();
        match lock.read_line(&mut line) {
            Ok(0) => break,
            Ok(_) => {},
            Err(_) => break,
        }
        let l = line.trim_end();
        if l.is_empty() || l.starts_with('#') {
            writeln!(out, "SKIP").unwrap();
            continue;
        }
        let res = panic::catch_unwind(AssertUnwindSafe(|| dispatch(l)));
        match res {
            Ok(s) => writeln!(out, "{}", s).unwrap(),
            Err(_) => writeln!(out, "PANIC").unwrap(),
        }
    }
    out.flush().unwrap();
}
