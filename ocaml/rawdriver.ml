(* Driver for the extracted CELL-LEVEL vector model (model/RawVec.v): replays `VH <history>` lines of
   the harness on [raw_step] (62 option cells + length; unchecked operations return UB outside their
   side condition) and prints the same canonical record per step as harness `run`.  Parsing and
   printing only; every computation is the extracted Coq code. *)
module M = Rawmodel

let rec pos_of_z (n : Z.t) : M.positive =
  if Z.equal n Z.one then M.XH
  else if Z.is_even n then M.XO (pos_of_z (Z.shift_right n 1))
  else M.XI (pos_of_z (Z.shift_right n 1))
let cz (n : Z.t) : M.z =
  if Z.sign n = 0 then M.Z0 else if Z.sign n > 0 then M.Zpos (pos_of_z n) else M.Zneg (pos_of_z (Z.neg n))
let rec z_of_pos (p : M.positive) : Z.t =
  match p with M.XH -> Z.one | M.XO q -> Z.shift_left (z_of_pos q) 1 | M.XI q -> Z.succ (Z.shift_left (z_of_pos q) 1)
let zc (n : M.z) : Z.t = match n with M.Z0 -> Z.zero | M.Zpos p -> z_of_pos p | M.Zneg p -> Z.neg (z_of_pos p)
let dec s = cz (Z.of_string s)
let hex n = Z.format "%x" (zc n)
let limbs_of (tok : string) : M.z list =
  if tok = "-" then [] else List.map (fun s -> cz (Z.of_string ("0x" ^ s))) (String.split_on_char ',' tok)
let limbs_str (l : M.z list) : string = if l = [] then "-" else String.concat "," (List.map hex l)
let b01 b = if b then "1" else "0"
let lim = M.lIMITS
let bld = ref M.release_build
exception Stop of string

(* the contents visible through the vector: the first rlen cells; an uninitialised one prints as UNINIT *)
let visible (r : M.raw) : string * int =
  let n = Z.to_int (zc r.M.rlen) in
  let rec take k l = if k = 0 then [] else match l with [] -> [] | x :: t -> x :: take (k - 1) t in
  let cs = take n r.M.cells in
  let strs = List.map (function Some x -> hex x | None -> "UNINIT") cs in
  ((if strs = [] then "-" else String.concat "," strs), n)

let ord_str = function M.Lt -> "-1" | M.Eq -> "0" | M.Gt -> "1"

let vh_cmd (script : string) : string =
  let b = !bld in
  let r = ref (M.raw_new lim) in
  let recs = ref [] in
  let step (o : M.vop) : M.vout =
    match M.raw_step lim b !r o with
    | M.Ok (r', out) -> r := r'; out
    | M.Panic _ -> raise (Stop "PANIC")
    | M.UB _ -> raise (Stop "UB") in
  let flag = function M.OutFlag true -> "s" | M.OutFlag false -> "n" | _ -> "?" in
  (try
    List.iter (fun op ->
      let a = Array.of_list (String.split_on_char ':' op) in
      let abs_list () =
        let n = Z.to_int (zc (!r).M.rlen) in
        let rec take k l = if k = 0 then [] else match l with [] -> [] | Some x :: t -> x :: take (k - 1) t | None :: _ -> raise (Stop "UB") in
        take n (!r).M.cells in
      let ret = match a.(0) with
        | "new" -> ignore (step M.OpNew); "u"
        | "from" -> flag (step (M.OpFrom (limbs_of a.(1))))
        | "push" -> flag (step (M.OpPush (dec a.(1))))
        | "pop" -> (match step M.OpPop with M.OutLimb (Some x) -> "s" ^ hex x | M.OutLimb None -> "n" | _ -> "?")
        | "ext" -> flag (step (M.OpExtend (limbs_of a.(1))))
        | "rsz" -> flag (step (M.OpResize (dec a.(1), dec a.(2))))
        | "norm" -> ignore (step M.OpNormalize); "u"
        | "adds" -> flag (step (M.OpAddSmall (dec a.(1))))
        | "muls" -> flag (step (M.OpMulSmall (dec a.(1))))
        | "clone" -> ignore (step M.OpClone); "u"
        | "set" ->
            (* the harness writes only when the index is in range (`v[idx] = x` would panic otherwise) *)
            if Z.lt (Z.of_string a.(1)) (zc (!r).M.rlen) then (ignore (step (M.OpSet (dec a.(1), dec a.(2)))); "s") else "n"
        | "get" -> (match step (M.OpGet (dec a.(1))) with M.OutLimb (Some x) -> "s" ^ hex x | M.OutLimb None -> "n" | _ -> "?")
        | "fromu64" -> ignore (step (M.OpFromU64 (dec a.(1)))); "u"
        | "isnorm" -> (match step M.OpIsNormalized with M.OutBool v -> "b" ^ b01 v | _ -> "?")
        | "isempty" -> "b" ^ b01 (Z.sign (zc (!r).M.rlen) = 0)
        | "hi64" -> (match M.hi64 b (abs_list ()) with
                     | M.Ok (h, n) -> Printf.sprintf "h%s.%s" (hex h) (b01 n) | M.Panic _ -> raise (Stop "PANIC") | M.UB _ -> raise (Stop "UB"))
        | "eq" -> (match step (M.OpEq (limbs_of a.(1))) with M.OutBool v -> "b" ^ b01 v | M.OutFlag false -> "n" | _ -> "?")
        | "cmp" -> (match step (M.OpCmp (limbs_of a.(1))) with M.OutCmp c -> "o" ^ ord_str c | M.OutFlag false -> "n" | _ -> "?")
        | _ -> "?" in
      let (s, n) = visible !r in
      recs := Printf.sprintf "%s|%d|%s" ret n s :: !recs)
      (String.split_on_char ';' script);
    "H " ^ String.concat " ; " (List.rev !recs)
  with Stop m -> m)

let () =
  (* usage: rawrun <release|checked> *)
  bld := (if Sys.argv.(1) = "checked" then M.checked_build else M.release_build);
  let buf = Buffer.create (1 lsl 16) in
  (try
     while true do
       let l = String.trim (input_line stdin) in
       let r =
         if l = "" || l.[0] = '#' then "SKIP"
         else if String.length l > 3 && String.sub l 0 3 = "VH " then
           (try vh_cmd (String.sub l 3 (String.length l - 3)) with
            | Stack_overflow -> "MODEL-STACK-OVERFLOW" | Failure m -> "MODEL-ERROR " ^ m
            | Invalid_argument m -> "MODEL-ERROR " ^ m | Not_found -> "MODEL-ERROR notfound")
         else "UNSUPPORTED" in
       Buffer.add_string buf r; Buffer.add_char buf '\n';
       if Buffer.length buf > 60000 then begin print_string (Buffer.contents buf); Buffer.clear buf end
     done
   with End_of_file -> ());
  print_string (Buffer.contents buf)
