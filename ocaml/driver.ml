(* Driver for the extracted model: reads the same case lines as harness `run`, prints the same
   canonical result lines.  It only parses lines and prints numbers; every computation is done by
   the extracted Coq definitions in Model.  Zarith is used for string <-> number conversion only. *)
module M = Model

let rec pos_of_z (n : Z.t) : M.positive =
  if Z.equal n Z.one then M.XH
  else if Z.is_even n then M.XO (pos_of_z (Z.shift_right n 1))
  else M.XI (pos_of_z (Z.shift_right n 1))

let cz (n : Z.t) : M.z =
  if Z.sign n = 0 then M.Z0 else if Z.sign n > 0 then M.Zpos (pos_of_z n) else M.Zneg (pos_of_z (Z.neg n))

let rec z_of_pos (p : M.positive) : Z.t =
  match p with
  | M.XH -> Z.one
  | M.XO q -> Z.shift_left (z_of_pos q) 1
  | M.XI q -> Z.succ (Z.shift_left (z_of_pos q) 1)

let zc (n : M.z) : Z.t =
  match n with M.Z0 -> Z.zero | M.Zpos p -> z_of_pos p | M.Zneg p -> Z.neg (z_of_pos p)

let ci (i : int) : M.z = cz (Z.of_int i)
let dec s = cz (Z.of_string s)
let str n = Z.to_string (zc n)
let hex n = Z.format "%x" (zc n)

let bytes_of (tok : string) : M.z list =
  if tok = "-" then []
  else if String.length tok > 0 && tok.[0] = 'x' then begin
    let n = (String.length tok - 1) / 2 in
    List.init n (fun i -> ci (int_of_string ("0x" ^ String.sub tok (1 + 2 * i) 2)))
  end else
    List.init (String.length tok) (fun i -> ci (Char.code tok.[i]))

let limbs_of (tok : string) : M.z list =
  if tok = "-" then [] else List.map (fun s -> cz (Z.of_string ("0x" ^ s))) (String.split_on_char ',' tok)

let limbs_str (l : M.z list) : string =
  if l = [] then "-" else String.concat "," (List.map hex l)

let cfg_of = function
  | "s" -> M.cFG_s | "sc" -> M.cFG_sc | "sa" -> M.cFG_sa | "sca" -> M.cFG_sca
  | "n" -> M.cFG_n | "nc" -> M.cFG_nc | "na" -> M.cFG_na | "nca" -> M.cFG_nca
  | _ -> failwith "bad cfg"

let cfg = ref M.cFG_s
let bld = ref M.release_build
let t = M.tABLES
let bt = M.bTABLES
let lim = M.lIMITS

let fmt_of = function "f32" -> M.f32 | "f64" -> M.f64 | _ -> failwith "bad fmt"

let out (f : 'a -> string) (o : 'a M.outcome) : string =
  match o with M.Ok a -> f a | M.Panic _ -> "PANIC" | M.UB _ -> "UB"

let ef (fp : M.extfloat) = Printf.sprintf "E %s %s" (str fp.M.mant) (str fp.M.exp)
let vbits (v : M.z) = "V " ^ Z.format "%016x" (zc v)
let b01 b = if b then "1" else "0"
let isheap () = (!cfg).M.alloc
let vec_of (l : M.z list) : M.vec option = M.try_from (isheap ()) lim l
let optv (o : M.vec option) = match o with Some v -> "L " ^ limbs_str v.M.vl | None -> "NONE"
let get = function Some v -> v | None -> failwith "vec_of"
let number m e many = { M.nexp = dec e; M.nmant = dec m; M.many = (many = "1") }
let ext m e = { M.mant = dec m; M.exp = dec e }

let fmt_cmd (cmd : string) (f : M.format) (a : string array) : string =
  let c = !cfg and b = !bld in
  match cmd with
  | "PF" -> out vbits (M.parse_float c t bt lim f b (bytes_of a.(0)) (bytes_of a.(1)) (dec a.(2)))
  | "PFA" -> out (fun v -> vbits v ^ " A 0") (M.parse_float c t bt lim f b (bytes_of a.(0)) (bytes_of a.(1)) (dec a.(2)))
  | "PFI" -> out vbits (M.parse_float c t bt lim f b (bytes_of a.(1)) (bytes_of a.(2)) (dec a.(3)))
  | "PTH" ->
      out (fun s -> s)
        (M.bind (M.parse_number b (bytes_of a.(0)) (bytes_of a.(1)) (dec a.(2))) (fun num ->
         M.bind (M.try_fast_path c t f b num) (fun r ->
           match r with
           | Some _ -> M.Ok "T F"
           | None -> M.bind (M.moderate_path c t bt f b num) (fun fp ->
               M.Ok (if Z.sign (zc fp.M.exp) < 0 then "T S" else "T M")))))
  | "IFP" -> "B " ^ b01 (M.is_fast_path f (number a.(0) a.(1) a.(2)))
  | "FP" -> out (function Some v -> vbits v | None -> "NONE") (M.try_fast_path c t f b (number a.(0) a.(1) a.(2)))
  | "MP" -> out ef (M.moderate_path c t bt f b (number a.(0) a.(1) a.(2)))
  | "CF" -> if c.M.compact then "UNSUPPORTED CF" else out ef (M.compute_float t f b (dec a.(0)) (dec a.(1)))
  | "CE" -> if c.M.compact then "UNSUPPORTED CE" else out ef (M.compute_error t f b (dec a.(0)) (dec a.(1)))
  | "CES" -> if c.M.compact then "UNSUPPORTED CES" else out ef (M.compute_error_scaled f b (dec a.(0)) (dec a.(1)) (dec a.(2)))
  | "EIA" -> if not c.M.compact then "UNSUPPORTED EIA" else out (fun r -> "B " ^ b01 r) (M.error_is_accurate f b (dec a.(0)) (ext a.(1) a.(2)))
  | "SL" -> out ef (M.slow c t lim f b (number a.(0) a.(1) a.(2)) (ext a.(3) a.(4)) (bytes_of a.(5)) (bytes_of a.(6)))
  | "PDC" -> out ef (M.positive_digit_comp c t lim f b (get (vec_of (limbs_of a.(0)))) (dec a.(1)))
  | "NDC" -> out ef (M.negative_digit_comp c t lim f b (get (vec_of (limbs_of a.(0)))) (ext a.(1) a.(2)) (dec a.(3)))
  | "FB" -> out ef (M.bind (M.from_bits f b (dec a.(0))) (fun x -> M.float_b f b x))
  | "FBH" -> out ef (M.bind (M.from_bits f b (dec a.(0))) (fun x -> M.float_bh f b x))
  | "RND" ->
      let fp = ext a.(0) a.(1) in
      let rnte cb = (fun fp s -> M.round_nearest_tie_even b fp s cb) in
      let r = match a.(2) with
        | "ne" -> M.round f b fp (rnte M.cb_nearest_even)
        | "net" -> M.round f b fp (rnte (fun o h ab -> ab || h || (o && h)))
        | "down" -> M.round f b fp (M.round_down b)
        | "lt" -> M.round f b fp (rnte (fun _ _ _ -> false))
        | "eq" -> M.round f b fp (rnte (fun o _ _ -> o))
        | "gt" -> M.round f b fp (rnte (fun _ _ _ -> true))
        | _ -> failwith "bad kind" in
      out ef r
  | "E2F" -> out vbits (M.extended_to_float f b (ext a.(0) a.(1)))
  | "FH" ->
      out (fun s -> s)
        (M.bind (M.from_bits f b (dec a.(0))) (fun x ->
         M.bind (M.float_exponent f b x) (fun e ->
         M.bind (M.float_mantissa f b x) (fun m ->
           M.Ok (Printf.sprintf "H %s %s %s %s" (b01 (M.is_denormal f x)) (str e) (str m) (Z.format "%016x" (zc x)))))))
  | "FU" -> vbits (M.f_from_u64 f (dec a.(0)))
  | _ -> "UNSUPPORTED " ^ cmd

let fe_cmd variant f (bytes : M.z list) : string =
  let c = !cfg and b = !bld in
  let total = List.length bytes in
  ignore total;
  let r = match variant with
    | "simple" | "golang" -> M.fe_simple c t bt lim f b bytes
    | "fuzz" | "integ" -> M.fe_fuzz c t bt lim f b bytes
    | _ -> failwith "bad variant" in
  out (fun (v, rest) -> Printf.sprintf "%s R %d" (vbits v) (List.length rest)) r

let ord_str = function M.Eq -> "0" | M.Lt -> "-1" | M.Gt -> "1"

let bi_cmd (op : string) (a : string array) : string =
  let c = !cfg and b = !bld in
  let v i = get (vec_of (limbs_of a.(i))) in
  let oo (o : M.vec option M.outcome) = out optv o in
  match op with
  | "scalar_add" -> let (s, cy) = M.scalar_add (dec a.(0)) (dec a.(1)) in Printf.sprintf "U %s %s" (str s) (b01 cy)
  | "scalar_mul" -> let (lo, hi) = M.scalar_mul (dec a.(0)) (dec a.(1)) (dec a.(2)) in Printf.sprintf "U %s %s" (str lo) (str hi)
  | "small_add" -> optv (M.small_add c (v 0) (dec a.(1)))
  | "small_add_from" -> optv (M.small_add_from c (v 0) (dec a.(1)) (dec a.(2)))
  | "small_mul" -> optv (M.small_mul c (v 0) (dec a.(1)))
  | "large_add" -> optv (M.large_add c (v 0) (limbs_of a.(1)))
  | "large_add_from" -> optv (M.large_add_from c (v 0) (limbs_of a.(1)) (dec a.(2)))
  | "long_mul" -> optv (M.long_mul c lim (limbs_of a.(0)) (limbs_of a.(1)))
  | "large_mul" -> optv (M.large_mul c lim (v 0) (limbs_of a.(1)))
  | "pow5" -> oo (M.pow5 c t lim b (v 0) (dec a.(1)))
  | "bpow" -> oo (M.bigint_pow c t lim b (v 0) (dec a.(1)) (dec a.(2)))
  | "shl" -> oo (M.shl c lim b (v 0) (dec a.(1)))
  | "shl_bits" -> oo (M.shl_bits c lim b (v 0) (dec a.(1)))
  | "shl_limbs" -> oo (M.shl_limbs b (v 0) (dec a.(1)))
  | "cmp" -> "ORD " ^ ord_str (M.vcompare (limbs_of a.(0)) (limbs_of a.(1)))
  | "normalize" -> "L " ^ limbs_str (M.normalize_list (limbs_of a.(0)))
  | "is_normalized" -> "B " ^ b01 (M.is_normalized (limbs_of a.(0)))
  | "bit_length" -> out (fun x -> "U " ^ str x) (M.bit_length lim b (limbs_of a.(0)))
  | "leading_zeros" -> "U " ^ str (M.leading_zeros (limbs_of a.(0)))
  | "hi64" -> out (fun (x, n) -> Printf.sprintf "U %s %s" (str x) (b01 n)) (M.hi64 b (limbs_of a.(0)))
  | "nonzero" -> out (fun r -> "B " ^ b01 r) (M.nonzero b (limbs_of a.(0)) (dec a.(1)))
  | "from_u64" -> out (fun (x : M.vec) -> "L " ^ limbs_str x.M.vl) (M.from_u64 c lim b (dec a.(0)))
  | "hi64_1" -> out (fun (x, n) -> Printf.sprintf "U %s %s" (str x) (b01 n)) (M.u64_to_hi64_1 b (dec a.(0)))
  | "hi64_2" -> out (fun (x, n) -> Printf.sprintf "U %s %s" (str x) (b01 n)) (M.u64_to_hi64_2 b (dec a.(0)) (dec a.(1)))
  | _ -> "UNSUPPORTED BI " ^ op

exception ModelPanic

let vh_cmd (script : string) : string =
  let c = !cfg and b = !bld in
  let heap = isheap () in
  let v = ref (M.vnew lim) in
  let recs = ref [] in
  let opt_set o = (match o with Some n -> v := n; "s" | None -> "n") in
  List.iter (fun op ->
    let a = Array.of_list (String.split_on_char ':' op) in
    let ret = match a.(0) with
      | "new" -> v := M.vnew lim; "u"
      | "from" -> opt_set (M.try_from heap lim (limbs_of a.(1)))
      | "push" -> opt_set (M.try_push heap !v (dec a.(1)))
      | "pop" -> (match M.vpop !v with (Some x, n) -> v := n; "s" ^ hex x | (None, _) -> "n")
      | "ext" -> opt_set (M.try_extend heap !v (limbs_of a.(1)))
      | "rsz" -> opt_set (M.try_resize heap !v (dec a.(1)) (dec a.(2)))
      | "norm" -> v := M.vset_list !v (M.normalize_list (!v).M.vl); "u"
      | "adds" -> (match M.small_add c !v (dec a.(1)) with Some n -> v := n; "s" | None -> v := M.small_add_failed !v (dec a.(1)); "n")
      | "muls" -> (match M.small_mul c !v (dec a.(1)) with Some n -> v := n; "s" | None -> v := M.small_mul_failed !v (dec a.(1)); "n")
      | "clone" -> v := M.vclone heap !v; "u"
      | "set" ->
          let idx = Z.to_int (Z.of_string a.(1)) in
          let l = (!v).M.vl in
          if idx < List.length l then begin
            v := M.vset_list !v (List.mapi (fun i x -> if i = idx then dec a.(2) else x) l); "s" end
          else "n"
      | "get" ->
          let idx = Z.to_int (Z.of_string a.(1)) in
          let l = (!v).M.vl in
          if idx < List.length l then "s" ^ hex (List.nth l idx) else "n"
      | "fromu64" -> (match M.from_u64 c lim b (dec a.(1)) with M.Ok n -> v := n; "u" | _ -> raise ModelPanic)
      | "isnorm" -> "b" ^ b01 (M.is_normalized (!v).M.vl)
      | "isempty" -> "b" ^ b01 ((!v).M.vl = [])
      | "hi64" -> (match M.hi64 b (!v).M.vl with M.Ok (h, n) -> Printf.sprintf "h%s.%s" (hex h) (b01 n) | _ -> raise ModelPanic)
      | "eq" -> (match M.try_from heap lim (limbs_of a.(1)) with
                 | Some o -> "b" ^ b01 (List.length o.M.vl = List.length (!v).M.vl && List.for_all2 (fun x y -> Z.equal (zc x) (zc y)) (!v).M.vl o.M.vl)
                 | None -> "n")
      | "cmp" -> (match M.try_from heap lim (limbs_of a.(1)) with
                  | Some o -> "o" ^ ord_str (M.vcompare (!v).M.vl o.M.vl)
                  | None -> "n")
      | _ -> "?" in
    recs := Printf.sprintf "%s|%d|%s" ret (List.length (!v).M.vl) (limbs_str (!v).M.vl) :: !recs)
    (String.split_on_char ';' script);
  "H " ^ String.concat " ; " (List.rev !recs)

let dispatch (line : string) : string =
  let toks = Array.of_list (List.filter (fun s -> s <> "") (String.split_on_char ' ' line)) in
  let n = Array.length toks in
  let b = !bld in
  if n = 0 then "EMPTY" else
  let rest k = Array.sub toks k (n - k) in
  match toks.(0) with
  | "PN" -> out (fun (nm : M.number) -> Printf.sprintf "N %s %s %s" (str nm.M.nmant) (str nm.M.nexp) (b01 nm.M.many))
              (M.parse_number b (bytes_of toks.(1)) (bytes_of toks.(2)) (dec toks.(3)))
  | "CPA" -> if (!cfg).M.compact then "UNSUPPORTED CPA" else
      out (fun (lo, hi) -> Printf.sprintf "P %s %s" (str lo) (str hi)) (M.compute_product_approx t b (dec toks.(1)) (dec toks.(2)) (dec toks.(3)))
  | "PW" -> if (!cfg).M.compact then "UNSUPPORTED PW" else out (fun x -> "I " ^ str x) (M.power b (dec toks.(1)))
  | "BNORM" -> if not (!cfg).M.compact then "UNSUPPORTED BNORM" else
      out (fun ((fp : M.extfloat), s) -> Printf.sprintf "E %s %s S %s" (str fp.M.mant) (str fp.M.exp) (str s)) (M.bnormalize b (ext toks.(1) toks.(2)))
  | "BMUL" -> if not (!cfg).M.compact then "UNSUPPORTED BMUL" else out ef (M.bmul b (ext toks.(1) toks.(2)) (ext toks.(3) toks.(4)))
  | "PM" -> out (fun ((v : M.vec), cnt) -> Printf.sprintf "L %s C %s" (limbs_str v.M.vl) (str cnt))
              (M.parse_mantissa !cfg t lim b (bytes_of toks.(1)) (bytes_of toks.(2)) (dec toks.(3)))
  | "SE" -> out (fun x -> "I " ^ str x) (M.scientific_exponent b (number toks.(1) toks.(2) "0"))
  | "RNTE" -> out ef (M.round_nearest_tie_even b (ext toks.(1) toks.(2)) (dec toks.(3)) M.cb_nearest_even)
  | "RDN" -> out ef (M.round_down b (ext toks.(1) toks.(2)) (dec toks.(3)))
  | "LNM" -> out (fun x -> "U " ^ str x) (M.lower_n_mask b (dec toks.(1)))
  | "LNH" -> out (fun x -> "U " ^ str x) (M.lower_n_halfway b (dec toks.(1)))
  | "NB" -> out (fun x -> "U " ^ str x) (M.nth_bit b (dec toks.(1)))
  | "BI" -> bi_cmd toks.(1) (rest 2)
  | "VH" -> vh_cmd toks.(1)
  | "FE" -> fe_cmd toks.(1) (fmt_of toks.(2)) (bytes_of toks.(3))
  | "ADD_DIGIT" ->
      (match M.u64_checked_mul (dec toks.(1)) (ci 10) with
       | Some x -> (match M.u64_checked_add x (dec toks.(2)) with Some y -> "U " ^ str y | None -> "NONE")
       | None -> "NONE")
  (* oracle: RN of the decimal value of (int, frac, exp), evaluated by the extracted Coq [RN] *)
  | "ORACLE" ->
      let f = fmt_of toks.(1) in
      vbits (M.rN f (M.dec_value (bytes_of toks.(2)) (bytes_of toks.(3)) (dec toks.(4))))
  | "VALID" -> "B " ^ b01 (M.valid_inputb (bytes_of toks.(1)) (bytes_of toks.(2)) (dec toks.(3)))
  | cmd ->
      if n < 2 then "UNSUPPORTED " ^ cmd
      else (match toks.(1) with
            | "f32" | "f64" -> fmt_cmd cmd (fmt_of toks.(1)) (rest 2)
            | _ -> "UNSUPPORTED " ^ cmd)

let () =
  (* usage: modelrun <cfg> <release|checked> *)
  cfg := cfg_of Sys.argv.(1);
  bld := (if Sys.argv.(2) = "checked" then M.checked_build else M.release_build);
  let buf = Buffer.create (1 lsl 16) in
  (try
     while true do
       let line = input_line stdin in
       let l = String.trim line in
       let r =
         if l = "" || l.[0] = '#' then "SKIP"
         else (try dispatch l with
               | ModelPanic -> "PANIC"
               | Stack_overflow -> "MODEL-STACK-OVERFLOW"
               | Failure m -> "MODEL-ERROR " ^ m
               | Invalid_argument m -> "MODEL-ERROR " ^ m
               | Not_found -> "MODEL-ERROR notfound") in
       Buffer.add_string buf r; Buffer.add_char buf '\n';
       if Buffer.length buf > 60000 then begin print_string (Buffer.contents buf); Buffer.clear buf end
     done
   with End_of_file -> ());
  print_string (Buffer.contents buf)
