#!/usr/bin/env python3
"""Development helper (not used by the checks): append pinned source-tie theorems to coq/props/<P>.v.
For each lemma the statement is obtained with `Check` (tools/mk_props.py) and frozen in the file:
    Theorem <P>_<name> : <statement>.  Proof. exact <lemma>. Qed.   + Print Assumptions
usage: add_pins.py P "<import line(s)>" "<comment>" lemma ...      (idempotent per lemma name)"""
import sys, re
sys.path.insert(0, '/verif/tools')
from mk_props import check_type, COQ


def main():
    P, imports, comment = sys.argv[1], sys.argv[2], sys.argv[3]
    path = '%s/props/%s.v' % (COQ, P)
    src = open(path).read()
    base_imports = '\n'.join(re.findall(r'^From .*?\.$', src, re.M | re.S)) if False else ''
    # all Require lines of the file so far, so that Check sees the same environment
    reqs = '\n'.join(m.group(0) for m in re.finditer(r'^From\s[^.]*?Require[^.]*?(?:\.[A-Za-z_][^.]*?)*\.\s*$', src, re.M))
    env = reqs + '\n' + imports + '\nImport ListNotations.\nOpen Scope Z_scope.\n'
    out, names = [], []
    for lemma in sys.argv[4:]:
        name = '%s_%s' % (P, lemma)
        if re.search(r'^Theorem %s\b' % re.escape(name), src, re.M):
            continue
        t = check_type(env, lemma)
        out.append('Theorem %s :\n  %s.\nProof. exact %s. Qed.\n' % (name, t.replace('\n', '\n  '), lemma))
        names.append(name)
    if not names:
        print('nothing to add'); return
    block = '\n(** %s *)\n%s\n\n%s\n%s\n' % (comment, imports, '\n'.join(out), '\n'.join('Print Assumptions %s.' % n for n in names))
    open(path, 'w').write(src.rstrip('\n') + '\n' + block)
    print('added %d theorems to props/%s.v' % (len(names), P))


if __name__ == '__main__':
    main()
