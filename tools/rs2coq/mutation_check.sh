#!/bin/bash
# The mutation checks of stages 1-4: each edit of a scratch copy of the source must change the
# generated text of the affected file or lead to OMITTED functions; Src.v etc. of files that are
# not concerned stay identical (not checked here); exit status 0 or 2.
set -u
HERE="$(cd "$(dirname "$0")" && pwd)"
BIN="${RS2COQ_BIN:-$HERE/target/release/rs2coq}"
GEN=/verif/coq/gen
W="${TMPDIR:-/var/tmp}/rs2coq_mutation"
rm -rf "$W"; mkdir -p "$W"
fails=0
m() {  # name  file  sed-expression | DELETE
  local n="$1" f="$2" e="$3" d="$W/$1"
  mkdir -p "$d/repo/examples" "$d/repo/fuzz/fuzz_targets" "$d/repo/tests" "$d/repo/etc/correctness/test-parse-golang" "$d/repo/etc/correctness/rng-tests" "$d/repo/etc/correctness/test-parse-random" "$d/repo/etc/correctness/test-parse-unittests" "$d/out"
  cp -r /repo/src "$d/repo/src"; cp /repo/examples/simple.rs "$d/repo/examples/"; cp /repo/fuzz/fuzz_targets/parse.rs "$d/repo/fuzz/fuzz_targets/"
  cp /repo/tests/integration_tests.rs "$d/repo/tests/"; cp /repo/etc/correctness/test-parse-golang/main.rs "$d/repo/etc/correctness/test-parse-golang/"; cp /repo/etc/correctness/rng-tests/_common.rs "$d/repo/etc/correctness/rng-tests/"; cp /repo/etc/correctness/test-parse-random/_common.rs "$d/repo/etc/correctness/test-parse-random/"; cp /repo/etc/correctness/test-parse-unittests/main.rs "$d/repo/etc/correctness/test-parse-unittests/"
  if [ "$e" = DELETE ]; then rm "$d/repo/$f"; else sed -i "$e" "$d/repo/$f"; if cmp -s "$d/repo/$f" "/repo/$f"; then echo "[$n] MUTATION DID NOT APPLY"; fails=$((fails+1)); return; fi; fi
  timeout 120 "$BIN" "$d/repo/src" "$d/out" > "$d/log" 2>&1; rc=$?
  local changed=""
  for x in Src SrcBigint SrcSlow SrcParse SrcFrontSimple SrcFrontFuzz SrcFrontTest SrcFrontEtc; do cmp -s "$d/out/$x.v" "$GEN/$x.v" || changed="$changed $x"; done
  local om="$(grep '^rs2coq: omitted:' "$d/log" | sed 's/^rs2coq: omitted: //' | cut -c1-70)"
  if [ $rc -eq 2 ]; then echo "[$n] exit 2"; elif [ $rc -eq 0 ] && [ -n "$changed" ]; then echo "[$n] changed:$changed; omitted: $om"; else echo "[$n] FAILED (exit $rc, nothing changed)"; fails=$((fails+1)); fi
}
m m1 src/slow.rs 's/\$value \*= 10 as Limb;/$value *= 11 as Limb;/'
m m2 src/parse.rs '0,/if count == 20 {/s//if count == 21 {/'
m m3 src/heapvec.rs 's/bigint::hi64(&self.data)/bigint::hi64(\&self.data[..])/'
m m4 src/stackvec.rs 's/bigint::small_mul(self, y)/bigint::small_add(self, y)/'
m m5 src/bigint.rs '0,/pub type Limb = u64;/s//pub type Limb = u32;/'
m m6 src/bigint.rs 's/^            break;$/            continue;/'
m m7 src/slow.rs "s/break 'integer;/break;/"
m m8 src/bigint.rs 's/x.try_push(carry)?;/let _ = x.try_push(carry);/'
m m9 src/parse.rs 's/return lemire::<F>(num);/return bellerophon::<F>(num);/'
m m10 src/bigint.rs 's/let rs = 64 - ls;/let rs = 63 - ls;/'
m m11 src/bigint.rs 's/&(\*self.inner)\[len - index - 1\]/\&(*self.inner)[len - index - 2]/'
m m12 src/lemire.rs 's/if lo <= 1$/if lo <= 2/'
m m13 src/mask.rs 's/match n == 64 {/match n == 63 {/'
m f1 examples/simple.rs "s/Some(&b'-') => (false, &bytes\[1..\]),/Some(\&b'-') => (false, \&bytes[2..]),/"
m f2 fuzz/fuzz_targets/parse.rs 's/xor != 0 \&\& xor != 0x20/xor != 0 \&\& xor != 0x21/'
m f3 tests/integration_tests.rs "s/take_while(|&&si| si == b'0').count();/take_while(|\&\&si| si == b'1').count();/"
m f4 etc/correctness/test-parse-golang/main.rs 's/None => return i32::max_value(),/None => return i32::min_value(),/'
m f5 examples/simple.rs DELETE
m f6 fuzz/fuzz_targets/parse.rs 's/^fn is_digit(c: u8) -> bool {/fn is_digit(c: u8) -> bool { let _s = format!("{}", c);/'
m f7 tests/integration_tests.rs 's/let index = bytes.len() - count;/let index = bytes.len() - count - 0;/'
m f8 examples/simple.rs 's/fn parse_float</fn parse_float2</'
m f9 fuzz/fuzz_targets/parse.rs 's/return (float, &bytes\[8..\]);/return (float, \&bytes[7..]);/'
m f10 etc/correctness/test-parse-golang/main.rs "s/Some(&b'e') | Some(&b'E') => {/Some(\&b'e') => {/"
m f11 src/lib.rs 's/pub use self::parse::parse_float;/pub use self::parse::parse_float as pf;/'
# ---- gen/SrcStackVec.v (compared with out/SrcStackVec.v: run `run.sh out` first)
sv() {  # name  file  python-edit  expectation(changed|omitted)
  local n="$1" f="$2" e="$3" want="$4" d="$W/$1" o="${5:-SrcStackVec}"
  mkdir -p "$d/repo/examples" "$d/repo/fuzz/fuzz_targets" "$d/repo/tests" "$d/repo/etc/correctness/test-parse-golang" "$d/repo/etc/correctness/rng-tests" "$d/repo/etc/correctness/test-parse-random" "$d/repo/etc/correctness/test-parse-unittests" "$d/out"
  cp -r /repo/src "$d/repo/src"; cp /repo/examples/simple.rs "$d/repo/examples/"; cp /repo/fuzz/fuzz_targets/parse.rs "$d/repo/fuzz/fuzz_targets/"
  cp /repo/tests/integration_tests.rs "$d/repo/tests/"; cp /repo/etc/correctness/test-parse-golang/main.rs "$d/repo/etc/correctness/test-parse-golang/"; cp /repo/etc/correctness/rng-tests/_common.rs "$d/repo/etc/correctness/rng-tests/"; cp /repo/etc/correctness/test-parse-random/_common.rs "$d/repo/etc/correctness/test-parse-random/"; cp /repo/etc/correctness/test-parse-unittests/main.rs "$d/repo/etc/correctness/test-parse-unittests/"
  python3 - "$d/repo/$f" "$e" <<'PY' || { echo "[$n] EDIT FAILED"; fails=$((fails+1)); return; }
import sys
p, edit = sys.argv[1], sys.argv[2]
s = open(p).read(); before = s
ns = {"s": s}; exec(edit, ns); s = ns["s"]
assert s != before, "edit did not apply"
open(p, "w").write(s)
PY
  timeout 120 "$BIN" "$d/repo/src" "$d/out" > "$d/log" 2>&1; rc=$?
  local om="$(grep '^rs2coq: omitted:' "$d/log" | sed 's/^rs2coq: omitted: //' | cut -c1-90)"
  local got=same
  cmp -s "$d/out/$o.v" "$HERE/out/$o.v" || got=changed
  if [ "$om" != none ] && [ -n "$om" ]; then got=omitted; fi
  if [ $rc -eq 0 ] && [ "$got" = "$want" ]; then echo "[$n] $o.v $got ($om)"; else echo "[$n] FAILED (exit $rc, $got, wanted $want; omitted: $om)"; fails=$((fails+1)); fi
}
sv s1 src/stackvec.rs 's = s.replace("        if self.len() < self.capacity() {", "        if self.len() <= self.capacity() {", 1)' changed
sv s2 src/stackvec.rs 's = s.replace("ptr::write(self.as_mut_ptr().add(self.len()), value);", "ptr::write(self.as_mut_ptr().add(self.len() + 1), value);", 1)' changed
sv s3 src/stackvec.rs 's = s.replace("            ptr::copy_nonoverlapping(src, dst, slc.len());\n            self.set_len(new_len);", "            self.set_len(new_len);\n            ptr::copy_nonoverlapping(src, dst, slc.len());", 1)' changed
sv s4 src/stackvec.rs 's = s.replace("        self.length -= 1;", "        self.length -= 2;", 1)' changed
sv s5 src/bigint.rs 's = s.replace("ptr::write_bytes(x.as_mut_ptr(), 0, n);", "ptr::write_bytes(x.as_mut_ptr(), 1, n);", 1)' omitted
sv s6 src/stackvec.rs 's = s.replace("ptr::copy_nonoverlapping(src, dst, slc.len());", "ptr::copy_nonoverlapping(src, dst, slc.len() - 1);", 1)' omitted
sv s7 src/stackvec.rs 's = s.replace("    length: u16,", "    length: u32,", 1)' omitted
sv s8 src/stackvec.rs 's = s.replace("        debug_assert!(len <= 0xffff);", "        debug_assert!(len <= 0xfffe);", 1)' changed
sv s9 src/stackvec.rs 's = s.replace("            for index in 0..count {", "            for index in 1..count {", 1)' changed
sv s10 src/stackvec.rs 's = s.replace("            let ptr = self.data.as_ptr() as *const bigint::Limb;\n            slice::from_raw_parts(ptr, self.len())", "            let ptr = self.data.as_ptr() as *const bigint::Limb;\n            slice::from_raw_parts(ptr.add(1), self.len())", 1)' omitted
sv s11 src/bigint.rs 's = s.replace("            let dst = x.as_mut_ptr().add(n);", "            let dst = x.as_mut_ptr().add(n - 1);", 1)' changed
# ---- gen/SrcHeapVec.v (rule 31)
sv h1 src/heapvec.rs 's = s.replace("self.data.resize(len, value);", "self.data.resize(len, 0);", 1)' changed SrcHeapVec
sv h2 src/heapvec.rs 's = s.replace("data: Vec::with_capacity(bigint::BIGINT_LIMBS),", "data: Vec::new(),", 1)' omitted SrcHeapVec
sv h3 src/heapvec.rs 's = s.replace("        self.data.push(value);\n", "", 1)' changed SrcHeapVec
sv h4 src/heapvec.rs 's = s.replace("self.data.extend_from_slice(slc);", "self.data.extend_from_slice(&slc[1..]);", 1)' omitted SrcHeapVec
sv h5 src/heapvec.rs 's = s.replace("        self.data.pop()", "        self.data.pop().map(|x| x + 1)", 1)' omitted SrcHeapVec
sv h6 src/heapvec.rs 's = s.replace("        self.data.capacity()", "        self.data.len()", 1)' changed SrcHeapVec
sv h7 src/heapvec.rs 's = s.replace("    data: Vec<bigint::Limb>,", "    data: Vec<u32>,", 1)' omitted SrcHeapVec
sv h8 src/heapvec.rs 's = s.replace("        debug_assert!(len <= self.capacity());", "        debug_assert!(len < self.capacity());", 1)' changed SrcHeapVec
# ---- stage 10: the rng / rand / unit front-ends (compared with out/), rule 12 pin
sv r1 etc/correctness/rng-tests/_common.rs 's = s.replace("None => return i32::max_value(),", "None => return i32::min_value(),", 1)' changed SrcFrontRng
sv r2 etc/correctness/test-parse-random/_common.rs 's = s.replace("None => return i32::max_value(),", "None => return i32::min_value(),", 1)' changed SrcFrontRand
sv r3 etc/correctness/test-parse-unittests/main.rs 's = s.replace("None => return i32::max_value(),", "None => return i32::min_value(),", 1)' changed SrcFrontUnit
# non-target items may change freely ..
sv r4 etc/correctness/test-parse-unittests/main.rs 's = s.replace("fn main() {", "#[derive(Clone)]\nstruct Extra { x: u8 }\nimpl Extra { fn size(&self) -> usize { self.x as usize } }\nfn main() {\n    let _e = Extra { x: 1 }.size();", 1)' same SrcFrontUnit
# .. (stage 12) but an impl function called like a method the targets call is refused, and so is an impl for a type of another crate
sv r10 etc/correctness/test-parse-unittests/main.rs 's = s.replace("fn main() {", "#[derive(Clone)]\nstruct Extra { x: u8 }\nimpl Extra { fn len(&self) -> usize { self.x as usize } }\nfn main() {\n    let _e = Extra { x: 1 }.len();", 1)' omitted SrcFrontUnit
sv r11 etc/correctness/test-parse-unittests/main.rs 's = s + "\nimpl Default for Option<u32> { }\n"' omitted SrcFrontUnit
# ---- stage 12: token texts are compared with single spaces between tokens and literals verbatim:
# white space BETWEEN tokens of pinned / whitelisted text is free, white space INSIDE a string literal is not
sv w1 src/num.rs 's = s.replace("    fn from_u64(u: u64) -> f32 {\n        u as _", "    fn from_u64( u : u64 )\n        -> f32 {\n        u   as\n _", 1)' same Src
sv w2 src/bigint.rs 's = s.replace("#[cfg(all(target_pointer_width = \"64\", not(target_arch = \"sparc\")))]\npub type Limb", "#[cfg( all( target_pointer_width=\"64\" ,not( target_arch = \"sparc\" ) ) )]\npub type Limb", 1)' same SrcBigint
sv w3 src/bigint.rs 's = s.replace("#[cfg(all(target_pointer_width = \"64\", not(target_arch = \"sparc\")))]\npub type Limb", "#[cfg(all(target_pointer_width = \"64 \", not(target_arch = \"sparc\")))]\npub type Limb", 1)' omitted SrcBigint
sv w4 src/stackvec.rs 's = s.replace("            let ptr = self.data.as_ptr() as *const bigint::Limb;", "            let ptr=self . data . as_ptr( )as * const bigint :: Limb ;", 1)' same SrcStackVec
# .. unless they could shadow a name the targets use
sv r5 etc/correctness/test-parse-unittests/main.rs 's = s + "\n#[allow(non_snake_case)]\nfn Some<T>(x: T) -> Option<T> { None }\n"' omitted SrcFrontUnit
sv r6 etc/correctness/test-parse-random/_common.rs 's = s.replace("use std::io;", "use std::io;\nuse std::cmp::*;", 1)' omitted SrcFrontRand
sv r7 etc/correctness/rng-tests/_common.rs 's = s + "\n#[allow(non_upper_case_globals)]\nconst c: u8 = 48;\n"' omitted SrcFrontRng
sv r8 etc/correctness/test-parse-unittests/main.rs 's = s.replace("#[inline]\nfn is_digit(c: u8) -> bool {", "#[inline]\n#[cfg(any())]\nfn is_digit(c: u8) -> bool {\n    false\n}\n#[inline]\nfn is_digit(c: u8) -> bool {", 1)' omitted SrcFrontUnit
sv r9 etc/correctness/test-parse-random/_common.rs 's = s + "\nmod minimal_lexical { pub fn parse_float() {} }\n"' omitted SrcFrontRand
# rule 12: nightly-gated statements are pinned
sv n2 src/lemire.rs 's = s.replace("    let fp_zero = ExtendedFloat {", "    #[cfg(feature = \"nightly\")]\n    let q = q + 1;\n    let fp_zero = ExtendedFloat {", 1)' omitted Src
nightly_fatal() {
  local d="$W/n1"; mkdir -p "$d/repo" "$d/out"; cp -r /repo/src "$d/repo/src"
  python3 - "$d/repo/src/number.rs" <<'PY'
import sys
p=sys.argv[1]; s=open(p).read()
a="            let max_exponent = F::MAX_EXPONENT_FAST_PATH;"
assert s.count(a)==1
s=s.replace(a, a+"\n            #[cfg(feature = \"nightly\")]\n            let max_exponent = F::MAX_EXPONENT_DISGUISED_FAST_PATH;")
open(p,"w").write(s)
PY
  timeout 120 "$BIN" "$d/repo/src" "$d/out" > "$d/log" 2>&1; rc=$?
  if [ $rc -eq 2 ]; then echo "[n1] exit 2: $(grep -m1 ERROR "$d/log" | cut -c1-160)"; else echo "[n1] FAILED (exit $rc)"; fails=$((fails+1)); fi
}
nightly_fatal
# ---- C-PIN32: the 32-bit-only code that rule 14 drops
sv q1 src/bigint.rs 's = s.replace("vec.try_push((x >> 32) as Limb).unwrap();", "vec.try_push((x >> 31) as Limb).unwrap();", 1)' omitted SrcBigint
sv q2 src/bigint.rs 's = s.replace("    let small_step = if LIMB_BITS == 32 {\n        13", "    let small_step = if LIMB_BITS == 32 {\n        14", 1)' omitted SrcBigint
sv q3 src/slow.rs 's = s.replace("    let step: usize = if LIMB_BITS == 32 {\n        9", "    let step: usize = if LIMB_BITS == 32 {\n        8", 1)' omitted SrcSlow
sv q4 src/bigint.rs 's = s.replace("    let r0 = (r0 as u64) << 32;\n    let r1 = r1 as u64;\n    u64_to_hi64_1(r0 | r1)", "    let r0 = (r0 as u64) << 31;\n    let r1 = r1 as u64;\n    u64_to_hi64_1(r0 | r1)", 1)' omitted SrcBigint
sv q5 src/bigint.rs 's = s.replace("        (v, n || nonzero($self, 3))", "        (v, n || nonzero($self, 2))", 1)' omitted SrcBigint
sv q6 src/bigint.rs 's = s.replace("pub type Wide = u64;", "pub type Wide = u32;", 1)' omitted SrcBigint
sv q7 src/bigint.rs 's = s.replace("        2 if LIMB_BITS == 32 => hi!(@2 x, rslc, u32, u32_to_hi64_2),", "        2 if LIMB_BITS == 32 => hi!(@1 x, rslc, u32, u32_to_hi64_1),", 1)' omitted SrcBigint
sv q8 src/bigint.rs 's = s.replace("pub fn shl(x: &mut VecType, n: usize) -> Option<()> {", "pub fn shl(x: &mut VecType, n: usize) -> Option<()> {\n    if LIMB_BITS == 32 {\n        return None;\n    }", 1)' omitted SrcBigint
sv q9 src/table_small.rs 's = s.replace("    4279965485, 329373468,", "    4279965486, 329373468,", 1)' omitted SrcBigint
# ---- C-PRIM: the pinned primitives of num.rs (rule 10): every edit must be exit 2
pin() {  # name  python-edit
  local n="$1" e="$2" d="$W/$1"
  mkdir -p "$d/repo/examples" "$d/repo/fuzz/fuzz_targets" "$d/repo/tests" "$d/repo/etc/correctness/test-parse-golang" "$d/repo/etc/correctness/rng-tests" "$d/repo/etc/correctness/test-parse-random" "$d/repo/etc/correctness/test-parse-unittests" "$d/out"
  cp -r /repo/src "$d/repo/src"; cp /repo/examples/simple.rs "$d/repo/examples/"; cp /repo/fuzz/fuzz_targets/parse.rs "$d/repo/fuzz/fuzz_targets/"
  cp /repo/tests/integration_tests.rs "$d/repo/tests/"; cp /repo/etc/correctness/test-parse-golang/main.rs "$d/repo/etc/correctness/test-parse-golang/"; cp /repo/etc/correctness/rng-tests/_common.rs "$d/repo/etc/correctness/rng-tests/"; cp /repo/etc/correctness/test-parse-random/_common.rs "$d/repo/etc/correctness/test-parse-random/"; cp /repo/etc/correctness/test-parse-unittests/main.rs "$d/repo/etc/correctness/test-parse-unittests/"
  python3 - "$d/repo/src/num.rs" "$e" <<'PY' || { echo "[$n] EDIT FAILED"; fails=$((fails+1)); return; }
import sys
p, edit = sys.argv[1], sys.argv[2]
s = open(p).read(); before = s
ns = {"s": s}; exec(edit, ns); s = ns["s"]
assert s != before, "edit did not apply"
open(p, "w").write(s)
PY
  timeout 120 "$BIN" "$d/repo/src" "$d/out" > "$d/log" 2>&1; rc=$?
  if [ $rc -eq 2 ]; then echo "[$n] exit 2: $(grep -m1 ERROR "$d/log" | cut -c1-150)"; else echo "[$n] FAILED (exit $rc)"; fails=$((fails+1)); fi
}
pin p1 's = s.replace("return unsafe { *SMALL_F64_POW10.get_unchecked(exponent) };", "return unsafe { *SMALL_F64_POW10.get_unchecked(exponent + 1) };", 1)'
pin p2 's = s.replace("    fn from_u64(u: u64) -> f64 {\n        u as _", "    fn from_u64(u: u64) -> f64 {\n        (u >> 1) as _", 1)'
pin p3 's = s.replace("SMALL_INT_POW5.get_unchecked", "TMPX").replace("SMALL_INT_POW10.get_unchecked", "SMALL_INT_POW5.get_unchecked").replace("TMPX", "SMALL_INT_POW10.get_unchecked")'
pin p4 's = s.replace("        f64::from_bits(u)", "        f64::from_bits(u ^ 1)", 1)'
pin p5 's = s.replace("        f32::to_bits(self) as u64", "        f32::to_bits(self) as u64 | 1", 1)'
pin p6 's = s.replace("            FastPathRadix::Five => 5,", "            FastPathRadix::Five => 6,", 1)'
pin p7 's = s.replace("pub fn powd(x: f64, y: f64) -> f64 {\n    x.powf(y)", "pub fn powd(x: f64, y: f64) -> f64 {\n    x.powf(y + 1.0)", 1)'
pin p8 's = s.replace("    #[inline]\n    fn from_bits(u: u64) -> f64 {", "    #[inline]\n    #[cold]\n    fn from_bits(u: u64) -> f64 {", 1)'
pin p9 's = s.replace("pub(crate) unsafe fn int_pow_fast_path(exponent: usize, radix: FastPathRadix) -> u64 {", "pub(crate) unsafe fn int_pow_fast_path(radix: FastPathRadix, exponent: usize) -> u64 {", 1)'
if [ $fails -eq 0 ]; then echo "mutation_check: PASS"; else echo "mutation_check: $fails FAILURE(S)"; fi
exit $fails
