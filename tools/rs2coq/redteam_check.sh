#!/bin/bash
# Regression test for the soundness holes found by the red team (tools/rs2coq/redteam/*.diff):
# each diff changes the run-time behaviour of the Rust source.  Applied to a scratch copy of /repo,
# the translator must NOT produce the 13 outputs byte-identical to /verif/coq/gen: something must be
# OMITTED, or the exit status must be 2, or the text must change.  For the holes whose text did
# change but whose proofs still passed (13 14 24 25 26, L1, L2) an OMITTED / exit 2 is required.
# The unmodified source must give byte-identical outputs and `rs2coq: omitted: none`.
#   redteam_check.sh [DIFF_DIR ...]  (default: the three rounds redteam redteam2 redteam3 under /verif/tools/rs2coq)
# Round 2 (redteam2): OMITTED / exit 2 is also required for its holes 09 12 13 14 17 18.
# Round 3 (redteam3): all 13 diffs left the outputs byte-identical: OMITTED / exit 2 is required for each.
set -u
HERE="$(cd "$(dirname "$0")" && pwd)"
if [ $# -gt 0 ]; then DIRS="$*"; else DIRS="/verif/tools/rs2coq/redteam /verif/tools/rs2coq/redteam2 /verif/tools/rs2coq/redteam3"; fi
GEN=/verif/coq/gen
BIN="${RS2COQ_BIN:-/verif/.cache/rs2coq-target/release/rs2coq}"
W="${TMPDIR:-/var/tmp}/rs2coq_redteam"
FILES="Src SrcBigint SrcSlow SrcParse SrcFrontSimple SrcFrontFuzz SrcFrontTest SrcFrontEtc SrcStackVec SrcHeapVec SrcFrontRng SrcFrontRand SrcFrontUnit"
rm -rf "$W"; mkdir -p "$W"
fails=0

copy_repo() {  # $1 = destination
  mkdir -p "$1/examples" "$1/fuzz/fuzz_targets" "$1/tests" "$1/etc/correctness/test-parse-golang" "$1/etc/correctness/rng-tests" "$1/etc/correctness/test-parse-random" "$1/etc/correctness/test-parse-unittests"
  cp -r /repo/src "$1/src"
  cp /repo/Cargo.toml "$1/Cargo.toml"
  cp /repo/examples/simple.rs "$1/examples/"
  cp /repo/fuzz/fuzz_targets/parse.rs "$1/fuzz/fuzz_targets/"
  cp /repo/tests/integration_tests.rs "$1/tests/"
  cp /repo/etc/correctness/test-parse-golang/main.rs "$1/etc/correctness/test-parse-golang/"; cp /repo/etc/correctness/rng-tests/_common.rs "$1/etc/correctness/rng-tests/"; cp /repo/etc/correctness/test-parse-random/_common.rs "$1/etc/correctness/test-parse-random/"; cp /repo/etc/correctness/test-parse-unittests/main.rs "$1/etc/correctness/test-parse-unittests/"
}

run() {  # $1 = work dir; sets rc, identical, omitted
  mkdir -p "$1/out"
  timeout 120 "$BIN" "$1/repo/src" "$1/out" > "$1/log" 2>&1
  rc=$?
  identical=yes
  for f in $FILES; do cmp -s "$1/out/$f.v" "$GEN/$f.v" || identical=no; done
  omitted="$(grep '^rs2coq: omitted:' "$1/log" | sed 's/^rs2coq: omitted: //')"
}

# ---- baseline
copy_repo "$W/base/repo"
run "$W/base"
if [ $rc -eq 0 ] && [ "$identical" = yes ] && [ "$omitted" = none ]; then
  echo "[baseline] exit 0, 13 outputs byte-identical to $GEN, omitted: none"
else
  echo "[baseline] FAILED: exit $rc, identical=$identical, omitted: $omitted"; fails=$((fails+1))
fi

# ---- the holes
for DIFFS in $DIRS; do
round="$(basename "$DIFFS")"
for d in "$DIFFS"/*.diff; do
  n="$round-$(basename "$d" .diff)"
  copy_repo "$W/$n/repo"
  if ! ( cd "$W/$n/repo" && timeout 60 patch -p1 -s < "$d" ) > "$W/$n/patch.log" 2>&1; then
    echo "[$n] the diff does not apply"; fails=$((fails+1)); continue
  fi
  run "$W/$n"
  strict=no
  case "$n" in redteam-hole13|redteam-hole14|redteam-hole24|redteam-hole25|redteam-hole26|redteam-latent_*) strict=yes;; esac
  case "$n" in redteam2-*|redteam3-*) strict=yes;; esac
  if [ $rc -eq 2 ]; then
    how="exit 2: $(grep -m1 'ERROR' "$W/$n/log" | cut -c1-170)"; ok=yes
  elif [ $rc -ne 0 ]; then
    how="UNEXPECTED exit $rc"; ok=no
  elif [ "$omitted" != none ] && [ -n "$omitted" ]; then
    how="OMITTED ($(echo $omitted | cut -c1-60)): $(grep -m1 'OMITTED\|omitted)' "$W/$n/log" | sed 's/^rs2coq: //' | cut -c1-170)"; ok=yes
  elif [ "$identical" = no ]; then
    how="text changed"; ok=yes; [ $strict = yes ] && ok=no
  else
    how="NOT DETECTED (outputs byte-identical)"; ok=no
  fi
  if [ $ok = yes ]; then echo "[$n] detected - $how"; else echo "[$n] FAILED - $how"; fails=$((fails+1)); fi
done
done
if [ $fails -eq 0 ]; then echo "redteam_check: PASS"; else echo "redteam_check: $fails FAILURE(S)"; fi
exit $fails
