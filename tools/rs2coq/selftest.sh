#!/bin/bash
# Mutation self-test of the rs2coq tie (development tool, not a registered check): mutate a SCRATCH
# COPY of the Rust source (never /repo), regenerate gen/Src*.v from it into a scratch copy of the
# Coq tree, and check that the equivalence proofs (proofs/SrcEq*.v) stop compiling exactly for
# harmful mutations; the unmodified source and harmless rewrites must still compile.
# Everything happens under /var/tmp/rs2coq_selftest (removed at the end).  Exit 0 iff every expectation is met.
set -u
HERE="$(cd "$(dirname "$0")" && pwd)"
W=/var/tmp/rs2coq_selftest
rm -rf "$W"; mkdir -p "$W"
rsync -a --exclude 'scratch_*' /verif/coq/ "$W/coq/"
( cd "$W/coq" && coq_makefile -f _CoqProject -o Makefile >/dev/null 2>&1 )
TARGETS="proofs/SrcEquiv.vo proofs/SrcEquiv2.vo proofs/SrcEqBigintC.vo proofs/SrcEqParse.vo"
for f in proofs/SrcEqMantissa.v proofs/SrcEqSlow.v proofs/SrcFinal.v proofs/SrcEqFront3.v proofs/SrcEqStackVec.v proofs/SrcEqHeapVec.v; do [ -f "$W/coq/$f" ] && grep -q "^$f" "$W/coq/_CoqProject" && TARGETS="$TARGETS ${f%.v}.vo"; done
fails=0

run_case() {  # name  file  sed-expression  expectation(ok|coqfail|transfail)
  local name="$1" file="$2" expr="$3" expect="$4"
  local d="$W/$name"; mkdir -p "$d"
  rm -rf "$d/src" "$d/examples" "$d/fuzz" "$d/tests" "$d/etc"; cp -r /repo/src "$d/src"
  # the front-end copies are read relative to <src-dir>/..
  mkdir -p "$d/examples" "$d/fuzz/fuzz_targets" "$d/tests" "$d/etc/correctness/test-parse-golang"
  cp /repo/examples/simple.rs "$d/examples/"; cp /repo/fuzz/fuzz_targets/parse.rs "$d/fuzz/fuzz_targets/"
  cp /repo/tests/integration_tests.rs "$d/tests/"; cp /repo/etc/correctness/test-parse-golang/main.rs "$d/etc/correctness/test-parse-golang/"
  for x in rng-tests/_common.rs test-parse-random/_common.rs test-parse-unittests/main.rs; do mkdir -p "$d/etc/correctness/$(dirname $x)"; cp /repo/etc/correctness/$x "$d/etc/correctness/$x"; done
  cp /repo/Cargo.toml "$d/Cargo.toml"
  if [ -n "$expr" ]; then
    sed -i "$expr" "$d/src/$file"
    if cmp -s "$d/src/$file" "/repo/src/$file"; then echo "[$name] mutation did not apply"; fails=$((fails+1)); return; fi
    echo "[$name] $file: $(diff "/repo/src/$file" "$d/src/$file" | grep '^[<>]' | sed 's/^\([<>]\) */\1 /' | tr '\n' ' ' | cut -c1-200)"
  else
    echo "[$name] unmodified source"
  fi
  local got
  if RS2COQ_SRC="$d/src" "$HERE/run.sh" "$W/coq/gen" > "$d/run.log" 2>&1; then
    echo "    $(grep -m1 '^rs2coq: omitted:' "$d/run.log")"
    if ( cd "$W/coq" && timeout 3000 make -j8 $TARGETS ) > "$d/make.log" 2>&1; then got=ok; else got=coqfail
      echo "    $(grep -m1 -A2 '^File' "$d/make.log" | tr '\n' ' ' | cut -c1-220)"; fi
  else
    echo "    translator refused: $(grep -m1 'ERROR' "$d/run.log" | cut -c1-200)"
    got=transfail
  fi
  if [ "$got" = "$expect" ]; then echo "    => as expected ($expect)"; else echo "    => UNEXPECTED: got $got, expected $expect"; fails=$((fails+1)); fi
}

run_case baseline  ""            ""                                                          ok
run_case mut1      lemire.rs     's/if lo <= 1$/if lo <= 2/'                                 coqfail
run_case mut2      rounding.rs   's/if fp.exp >= F::INFINITE_POWER {/if fp.exp > F::INFINITE_POWER {/' coqfail
run_case mut3      lemire.rs     's/152_170 + 65536/152_171 + 65536/'                        coqfail
run_case mut4      mask.rs       's/match n == 64 {/match n == 63 {/'                        coqfail
run_case mut5      bellerophon.rs 's/(lz + 1).min(24)/(lz + 1).min(25)/'                     coqfail
run_case mut6      slow.rs       's/while mantissa >= 100 {/while mantissa > 100 {/'         coqfail
run_case mut7      mask.rs       's/debug_assert!(n < 64,/assert!(n < 64,/'                  coqfail
# bigint.rs / parse.rs (rules 14-23)
run_case mut8      bigint.rs     's/tmp |= result.1;/tmp = result.1;/'                       coqfail
run_case mut9      bigint.rs     's/small_add_from(x, 1, y.len() + start)?;/small_add_from(x, 1, y.len())?;/' coqfail
run_case mut10     bigint.rs     's/let rs = 64 - ls;/let rs = 63 - ls;/'                    coqfail
run_case mut11     bigint.rs     's/while exp >= small_step {/while exp > small_step {/'     coqfail
run_case mut12     parse.rs      's/if count == 20 {/if count == 19 {/'                      coqfail
run_case mut13     parse.rs      's/exponent.saturating_sub(fraction_count as i32 - 1)/exponent.saturating_sub(fraction_count as i32)/' coqfail
run_case mut14     parse.rs      's/fp.exp -= F::INVALID_FP;/fp.exp += F::INVALID_FP;/'       coqfail
# harmless rewrites (renamed locals, reordered independent lets): must still compile
run_case harm1     lemire.rs     's/\bupperbit\b/top_bit/g; s/\bpower2\b/bin_exp/g'          ok
run_case harm2     bigint.rs     '/pub fn small_add_from/,/^}/ s/\bindex\b/pos/g'            ok
run_case harm3     parse.rs      's/\bfraction_count\b/nfrac/g'                              ok
run_case harm4     slow.rs       's/\bhalfradix_exp\b/half_exp/g; s/\btheor_digits\b/th_digits/g'   ok
run_case mut15     stackvec.rs   's/if self.len() < self.capacity() {/if self.len() <= self.capacity() {/'   coqfail
run_case mut16     heapvec.rs    's/self.data.resize(len, value);/self.data.resize(len, 0);/'            coqfail
run_case harm5     bigint.rs     's/^    let mut carry = false;$/    let mut carry = false; \/\/ running carry/'   ok
# restore the scratch tree is not needed: it is removed
rm -rf "$W"
if [ $fails -eq 0 ]; then echo "selftest: PASS"; else echo "selftest: $fails FAILURE(S)"; fi
exit $fails
