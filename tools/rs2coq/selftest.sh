#!/bin/bash
# Mutation self-test of the rs2coq tie: mutate a SCRATCH COPY of the Rust source (never /repo),
# regenerate Src.v from it into a scratch directory, and check that the equivalence proofs
# (proofs/SrcEquiv.v, proofs/SrcEquiv2.v) no longer compile; the unmodified source must compile.
# Everything happens under /var/tmp/rs2coq_selftest.  Exit 0 iff every expectation is met.
set -u
HERE="$(cd "$(dirname "$0")" && pwd)"
W=/var/tmp/rs2coq_selftest
COQ=/verif/coq
rm -rf "$W"; mkdir -p "$W"
fails=0

# compile the scratch Src.v + the proofs against it (logical path MUT for the scratch files)
compile() {  # $1 = scratch dir holding Src.v
  local d="$1"
  sed -e 's/^From ML Require Import gen\.Src\./From MUT Require Import Src./' \
      -e 's/^From ML Require Import proofs\.SrcEquiv\./From MUT Require Import SrcEquiv./' \
      "$COQ/proofs/SrcEquiv.v" > "$d/SrcEquiv.v"
  sed -e 's/^From ML Require Import gen\.Src\./From MUT Require Import Src./' \
      -e 's/^From ML Require Import proofs\.SrcEquiv\./From MUT Require Import SrcEquiv./' \
      "$COQ/proofs/SrcEquiv2.v" > "$d/SrcEquiv2.v"
  for f in Src SrcEquiv SrcEquiv2; do
    if ! ( cd "$d" && timeout 900 coqc -Q "$COQ" ML -Q "$d" MUT -w -notation-overridden "$f.v" ) > "$d/$f.log" 2>&1; then
      echo "    coqc $f.v FAILED: $(grep -m1 -A3 '^File' "$d/$f.log" | tr '\n' ' ' | cut -c1-230)"
      return 1
    fi
  done
  echo "    coqc Src.v SrcEquiv.v SrcEquiv2.v: all compiled"
  return 0
}

run_case() {  # name  file  sed-expression  expectation(ok|coqfail|transfail)
  local name="$1" file="$2" expr="$3" expect="$4"
  local d="$W/$name"; mkdir -p "$d"
  rm -rf "$d/src"; cp -r /repo/src "$d/src"
  if [ -n "$expr" ]; then
    sed -i "$expr" "$d/src/$file"
    if cmp -s "$d/src/$file" "/repo/src/$file"; then echo "[$name] mutation did not apply"; fails=$((fails+1)); return; fi
    echo "[$name] $file: $(diff "/repo/src/$file" "$d/src/$file" | grep '^[<>]' | sed 's/^\([<>]\) */\1 /' | tr '\n' ' ' | cut -c1-200)"
  else
    echo "[$name] unmodified source"
  fi
  local got
  if RS2COQ_SRC="$d/src" RS2COQ_OUT="$d/Src.v" "$HERE/run.sh" > "$d/run.log" 2>&1; then
    echo "    $(grep -m1 '^rs2coq: omitted:' "$d/run.log")"
    if compile "$d"; then got=ok; else got=coqfail; fi
  else
    echo "    translator refused: $(grep -m1 'ERROR' "$d/run.log" | cut -c1-200)"
    got=transfail
  fi
  if [ "$got" = "$expect" ]; then echo "    => as expected ($expect)"; else echo "    => UNEXPECTED: got $got, expected $expect"; fails=$((fails+1)); fi
}

run_case baseline  ""            ""                                                          ok
run_case mut1      lemire.rs     's/if lo <= 1$/if lo <= 2/'                                 coqfail
run_case mut2      rounding.rs   's/if fp.exp >= F::INFINITE_POWER {/if fp.exp > F::INFINITE_POWER {/' coqfail
run_case mut3      lemire.rs     's/152_170 + 65536/152_171 + 65536/'                        coqfail
run_case mut4      mask.rs       's/match n == 64 {/match n == 63 {/'                        coqfail
run_case mut5      bellerophon.rs 's/(lz + 1).min(24)/(lz + 1).min(25)/'                     coqfail
run_case mut6      slow.rs       's/while mantissa >= 100 {/while mantissa > 100 {/'         coqfail
run_case mut7      mask.rs       's/debug_assert!(n < 64,/assert!(n < 64,/'                  coqfail
if [ $fails -eq 0 ]; then echo "selftest: PASS"; else echo "selftest: $fails FAILURE(S)"; fi
exit $fails
