#!/bin/bash
# Further fail-closed checks (own variants of the red-team holes): each edit changes behaviour and
# must lead to OMITTED functions or exit 2 (a mere text change is not enough here).
set -u
HERE="$(cd "$(dirname "$0")" && pwd)"
BIN="${RS2COQ_BIN:-$HERE/target/release/rs2coq}"
W="${TMPDIR:-/var/tmp}/rs2coq_redteam_extra"
rm -rf "$W"; mkdir -p "$W"
fails=0
copy_repo() {
  mkdir -p "$1/examples" "$1/fuzz/fuzz_targets" "$1/tests" "$1/etc/correctness/test-parse-golang" "$1/etc/correctness/rng-tests" "$1/etc/correctness/test-parse-random" "$1/etc/correctness/test-parse-unittests"
  cp -r /repo/src "$1/src"; cp /repo/Cargo.toml "$1/Cargo.toml"; cp /repo/examples/simple.rs "$1/examples/"; cp /repo/fuzz/fuzz_targets/parse.rs "$1/fuzz/fuzz_targets/"
  cp /repo/tests/integration_tests.rs "$1/tests/"; cp /repo/etc/correctness/test-parse-golang/main.rs "$1/etc/correctness/test-parse-golang/"; cp /repo/etc/correctness/rng-tests/_common.rs "$1/etc/correctness/rng-tests/"; cp /repo/etc/correctness/test-parse-random/_common.rs "$1/etc/correctness/test-parse-random/"; cp /repo/etc/correctness/test-parse-unittests/main.rs "$1/etc/correctness/test-parse-unittests/"
}
case_() {  # name  file(rel to repo)  python-edit-expression on variable s
  local n="$1" f="$2" edit="$3"
  copy_repo "$W/$n/repo"; mkdir -p "$W/$n/out"
  python3 - "$W/$n/repo/$f" "$edit" <<'PY' || { echo "[$n] EDIT FAILED"; fails=$((fails+1)); return; }
import sys
p, edit = sys.argv[1], sys.argv[2]
try: s = open(p).read()
except FileNotFoundError: s = ""
before = s
ns = {"s": s}
exec(edit, ns)
s = ns["s"]
assert s != before, "edit did not apply"
import os
os.makedirs(os.path.dirname(p), exist_ok=True)
open(p, "w").write(s)
PY
  timeout 120 "$BIN" "$W/$n/repo/src" "$W/$n/out" > "$W/$n/log" 2>&1; rc=$?
  om="$(grep '^rs2coq: omitted:' "$W/$n/log" | sed 's/^rs2coq: omitted: //')"
  if [ $rc -eq 2 ]; then echo "[$n] exit 2: $(grep -m1 ERROR "$W/$n/log" | cut -c1-150)"
  elif [ $rc -eq 0 ] && [ -n "$om" ] && [ "$om" != none ]; then echo "[$n] OMITTED: $(grep -m1 'OMITTED\|omitted)' "$W/$n/log" | sed 's/^rs2coq: //' | cut -c1-150)"
  else echo "[$n] FAILED (exit $rc, omitted: $om)"; fails=$((fails+1)); fi
}
case_ x01_const_pattern src/parse.rs 's = s.replace("    let mut count = 0;\n    while let Some(&c) = integer.next() {", "    let mut count = 0;\n    const C: u8 = b\x271\x27;\n    while let Some(&C) = integer.next() {\n        let c = C;", 1)'
case_ x02_stale_struct src/bellerophon.rs 's = s.replace("    let shift = normalize(&mut fp);", "    let probe = ExtendedFloat { mant: fp.mant, exp: normalize(&mut fp) };\n    let shift = probe.exp;", 1)'
case_ x03_stale_binary src/bellerophon.rs 's = s.replace("    let shift = normalize(&mut fp);", "    let shift = if (fp.exp == 0) | (normalize(&mut fp) == 0) { 0 } else { normalize(&mut fp) };", 1)'
case_ x04_stale_method src/bellerophon.rs 's = s.replace("    let shift = normalize(&mut fp);", "    let shift = fp.exp.min(normalize(&mut fp));", 1)'
case_ x05_stale_call_args src/lemire.rs 's = s.replace("    compute_error_scaled::<F>(q, hi, lz)\n", "    let mut q = q;\n    compute_error_scaled::<F>(q, hi, { q += 1; lz })\n", 1)'
case_ x06_cfg_in_macro src/slow.rs 's = s.replace("        $value += digit as Limb;", "        #[cfg(any())]\n        { $value += digit as Limb; }", 1)'
case_ x07_impl_in_unread src/fpu.rs 's = s + "\nimpl crate::number::Number {\n    pub fn default() -> Self { crate::number::Number { exponent: 0, mantissa: 1, many_digits: false } }\n}\n"'
case_ x08_trait_import src/bigint.rs 's = s.replace("use core::{cmp, ops, ptr};", "use core::{cmp, ops, ptr};\nuse crate::fpu::Shadow;", 1)'
case_ x09_local_primitive src/slow.rs 's = s + "\nunsafe fn int_pow_fast_path(exponent: usize, _r: FastPathRadix) -> u64 { exponent as u64 }\n"'
case_ x10_ufcs_turbofish src/number.rs 's = s.replace("if self.is_fast_path::<F>() {", "if Number::is_fast_path::<f64>(self) {", 1)'
case_ x11_by_ref src/parse.rs 's = s.replace("parse_number_fast(integer.clone(), fraction.clone(), exponent)", "parse_number_fast(integer.by_ref(), fraction.by_ref(), exponent)", 1)'
case_ x12_closure_assign examples/simple.rs 's = s.replace("take_while(|&&si| si == b\x270\x27).count();\n    &bytes[count..]", "take_while(|&&si| si == b\x270\x27).count();\n    let mut k = 0usize;\n    let _ = bytes.first().map_or(true, |&x| { k = 1; x == 0 });\n    &bytes[count + k..]", 1)'
case_ x13_while_cond_assign src/slow.rs 's = s.replace("    while mantissa >= 10000 {", "    while { exponent += 1; mantissa >= 10000 } {", 1)'
case_ x14_debug_assert_call src/bellerophon.rs 's = s.replace("    let shift = normalize(&mut fp);", "    debug_assert!(normalize(&mut fp) >= 0);\n    let shift = normalize(&mut fp);", 1)'
case_ x15_dup_macro src/bigint.rs 's = s + "\nmacro_rules! hi {\n    (@1 $self:ident, $rview:ident, $t:ident, $fn:ident) => {{ $fn($rview[0] as $t) }};\n}\n"'
case_ x16_new_module src/lib.rs 's = s.replace("pub mod fpu;", "pub mod fpu;\npub mod evil;", 1)'
case_ x17_type_param src/mask.rs 's = s.replace("pub fn nth_bit(n: u64) -> u64 {", "pub fn nth_bit<u64: core::ops::Shl<u64, Output = u64> + From<u8>>(n: u64) -> u64 {", 1)'
case_ x18_qself src/rounding.rs 's = s.replace("fp.mant &= F::MANTISSA_MASK;", "fp.mant &= <f32 as Float>::MANTISSA_MASK;", 1)'
case_ x19_type_prefix src/lemire.rs 's = s.replace("fn compute_error<F: Float>(q: i32, mut w: u64) -> ExtendedFloat {", "fn compute_error<F: Float>(q: i32, mut w: u64) -> crate::extended_float::ExtendedFloat {", 1)'
case_ x20_table_rs src/table.rs 's = s + "\npub const SMALLEST_POWER_OF_FIVE: i32 = -341;\n"'
case_ x21_inline_mod src/mask.rs 's = s + "\nmod inner { pub fn nth_bit(n: u64) -> u64 { n } }\n"'
case_ x22_foriter_break_label src/parse.rs 's = s.replace("    if count == 0 {\n        for &c in &mut fraction {", "    if count == 0 {\n        \x27o: loop { for &c in &mut fraction {", 1).replace("                num.mantissa = num.mantissa * 10 + digit as u64;\n                break;\n            }\n        }\n    }", "                num.mantissa = num.mantissa * 10 + digit as u64;\n                break \x27o;\n            }\n        } break; }\n    }", 1)'
case_ x23_front_local_fn tests/integration_tests.rs 's = s.replace("fn is_digit(c: u8) -> bool {\n    to_digit(c).is_some()", "fn is_digit(c: u8) -> bool {\n    fn to_digit(_c: u8) -> Option<u32> { None }\n    to_digit(c).is_some()", 1)'
case_ x24_cfg_field src/extended_float.rs 's = s.replace("    pub exp: i32,", "    #[cfg(all())]\n    pub exp: i32,", 1)'
# ---- round 2 variants
case_ y01_local_limb_bits src/parse.rs 's = s.replace("fn into_i32(value: usize) -> i32 {", "fn into_i32(value: usize) -> i32 {\n    let LIMB_BITS: usize = 32;\n    if LIMB_BITS == 32 {\n        return 7;\n    }", 1)'
case_ y02_macro_two_plain_rules src/slow.rs 's = s.replace("macro_rules! add_digit {\n", "macro_rules! add_digit {\n    ($c:ident, $value:ident, $counter:ident, zero) => {{ $value = 0; }};\n", 1)'
case_ y03_macro_arrow_matcher src/slow.rs 's = s.replace("    ($c:ident, $value:ident, $counter:ident, $count:ident) => {{", "    ($c:ident => $value:ident, $counter:ident, $count:ident) => {{", 1).replace("add_digit!(c, value, counter, count);", "add_digit!(c => value, counter, count);")'
case_ y04_macro_after_use src/bigint.rs 'i = s.index("/// Extract the hi bits from the buffer.\nmacro_rules! hi {"); j = s.index("/// Get the high 64 bits from the vector."); blk = s[i:j]; s = s[:i] + s[j:] + "\n" + blk'
case_ y05_impl_item_macro src/number.rs 's = s.replace("impl Number {\n", "impl Number {\n    more_items!();\n", 1)'
case_ y06_alias_impl_unread src/fpu.rs 's = s + "\ntype Num = crate::number::Number;\nimpl Num {\n    pub fn default() -> Self { Self { exponent: 0, mantissa: 1, many_digits: false } }\n}\n"'
case_ y07_literal_range src/parse.rs 's = s.replace("fn into_i32(value: usize) -> i32 {", "fn into_i32(value: usize) -> i32 {\n    let s: i32 = 4294967297;\n    if s == 1 {\n        return 7;\n    }", 1)'
case_ y08_cargo_lib_path Cargo.toml 's = s + "\n[lib]\npath = \"src/other.rs\"\n"'
case_ y09_rebind_mutref src/rounding.rs 's = s.replace("pub fn round_down(fp: &mut ExtendedFloat, shift: i32) {", "pub fn round_down(mut fp: &mut ExtendedFloat, shift: i32) {\n    let mut other = *fp;\n    fp = &mut other;", 1)'
case_ y10_optupd_stmt_tuple src/bigint.rs 's = s.replace("    // If we carried past all the elements, add to the end of the buffer.\n    if carry != 0 {\n        x.try_push(carry)?;\n    }\n    Some(())\n}\n\n// LARGE", "    (x.try_push(1), 0);\n    if carry != 0 {\n        x.try_push(carry)?;\n    }\n    Some(())\n}\n\n// LARGE", 1)'
case_ y11_stacked_cfg_return src/parse.rs 's = s.replace("    #[cfg(not(feature = \"compact\"))]\n    return lemire::<F>(num);", "    #[cfg(not(feature = \"compact\"))]\n    #[cfg(feature = \"compact\")]\n    return lemire::<F>(num);", 1)'
case_ y12_lowercase_static src/mask.rs 's = s + "\n#[allow(non_upper_case_globals)]\nstatic n: u64 = 3;\n"'
case_ y13_eq_body src/stackvec.rs 's = s.replace("        self.len() == other.len() && self.deref() == other.deref()", "        self.len() == other.len()", 1)'
case_ y14_mul_assign_body src/heapvec.rs 's = s.replace("        bigint::large_mul(self, rhs).unwrap();", "        bigint::large_add(self, rhs).unwrap();", 1)'
case_ y15_assoc_type src/bigint.rs 's = s.replace("impl Bigint {\n", "impl Bigint {\n    pub const LIMIT: u32 = 3;\n", 1)'
case_ y16_build_rs build.rs 's = "fn main() {}\n"'
case_ y17_value_use_tuple src/rounding.rs 's = s.replace("pub fn round_down(fp: &mut ExtendedFloat, shift: i32) {", "pub fn round_down(fp: &mut ExtendedFloat, shift: i32) {\n    let (alias, _k) = (fp, 0);\n    let fp = alias;", 1)'
case_ y18_overflow_lint_attr src/mask.rs 's = s.replace("#[inline]\npub fn nth_bit", "#[inline]\n#[allow(overflowing_literals)]\npub fn nth_bit", 1)'
case_ y19_self_const_outside_float src/number.rs 's = s.replace("&& self.mantissa <= F::MAX_MANTISSA_FAST_PATH", "&& self.mantissa <= Self::MAX_MANTISSA_FAST_PATH", 1)'
# ---- round 3 variants (each isolates one of the new checks)
case_ z01_impl_in_assert_unread src/table_bellerophon.rs 's = s + "\npub fn selfcheck() { assert!({ impl crate::number::Number { pub fn default() -> Self { crate::number::Number { exponent: 0, mantissa: 1, many_digits: false } } } true }); }\n"'
case_ z02_impl_in_matches_front examples/simple.rs 's = s + "\nstruct Local;\nfn selfcheck() -> bool { matches!(0u8, 0 if { impl Local { fn is_some(self) -> bool { false } } true }) }\n"'
case_ z03_impl_in_nested_macro src/mask.rs 's = s + "\npub fn selfcheck() -> bool { matches!(nth_bit(0), 1 if [(); { impl crate::number::Number { pub fn default() -> Self { crate::number::Number { exponent: 0, mantissa: 1, many_digits: false } } } 0 }].len() == 0) }\n"'
case_ z04_macro_rule_with_impl src/slow.rs 's = s.replace("macro_rules! add_temporary {\n", "macro_rules! add_temporary {\n    (@x) => { impl crate::number::Number { pub fn default() -> Self { crate::number::Number { exponent: 0, mantissa: 1, many_digits: false } } } };\n", 1)'
case_ z05_libm_macro_rule_with_impl src/libm.rs 's = s.replace("macro_rules! i {\n", "macro_rules! i {\n    (@x) => { impl crate::number::Number { pub fn default() -> Self { crate::number::Number { exponent: 0, mantissa: 1, many_digits: false } } } };\n", 1)'
case_ z06_lenient_impl_foreign_type etc/correctness/test-parse-unittests/main.rs 's = s + "\nimpl std::fmt::Display for Option<u32> { fn fmt(&self, f: &mut std::fmt::Formatter) -> std::fmt::Result { Ok(()) } }\n"'
case_ z07_lenient_impl_generic etc/correctness/rng-tests/_common.rs 's = s + "\nstruct W;\nimpl<T> core::ops::Add<T> for W { type Output = W; fn add(self, _o: T) -> W { self } }\nimpl<T> From<T> for T { }\n"'
case_ z08_lenient_impl_method_name etc/correctness/test-parse-random/_common.rs 's = s + "\nstruct W;\nimpl W { fn is_some(self) -> bool { false } }\n"'
case_ z09_lenient_trait etc/correctness/rng-tests/_common.rs 's = s + "\ntrait Harmless { fn harmless(&self) -> u8 { 0 } }\n"'
case_ z10_strict_front_trait fuzz/fuzz_targets/parse.rs 's = s + "\ntrait Harmless { fn harmless(&self) -> u8 { 0 } }\n"'
case_ z11_cargo_dotted_build Cargo.toml 's = "package.build = \"x.rs\"\n" + s'
case_ z12_cargo_test_target Cargo.toml 's = s + "\n[[test]]\nname = \"t\"\n"'
case_ z13_cargo_profile Cargo.toml 's = s + "\n[profile.release]\noverflow-checks = true\n"'
case_ z14_cargo_features Cargo.toml 's = s.replace("default = [\"std\"]", "default = [\"std\", \"compact\"]", 1)'
case_ z15_cargo_alloc_implies_compact Cargo.toml 's = s.replace("alloc = []", "alloc = [\"compact\"]", 1)'
case_ z16_cargo_edition Cargo.toml 's = s.replace("edition = \"2018\"", "edition = \"2021\"", 1)'
case_ z17_cargo_inline_dep Cargo.toml 's = "dependencies = { ptr = { path = \"etc/ptr\" } }\n" + s'
case_ z18_cargo_unparsable Cargo.toml 's = s + "\n[features\n"'
case_ z19_cargo_escaped_key Cargo.toml 's = s + "\n[\"\\u006cib\"]\n\"p\\u0061th\" = \"src/lib_entry.rs\"\n"'
case_ z20_cargo_config .cargo/config.toml 's = "[build]\nrustflags = [\"--cfg\", \"feature=\\\"compact\\\"\"]\n"'
case_ z21_import_dropped src/stackvec.rs 's = s.replace("use core::{cmp, mem, ops, ptr, slice};", "use core::{cmp, mem, ops, slice};", 1)'
case_ z22_space_in_feature_cfg src/bigint.rs 's = s.replace("#[cfg(feature = \"alloc\")]\npub type VecType", "#[cfg(feature = \"al loc\")]\npub type VecType", 1)'
case_ z23_space_in_stmt_cfg src/parse.rs 's = s.replace("    #[cfg(not(feature = \"compact\"))]\n    return lemire::<F>(num);", "    #[cfg(not(feature = \"comp act\"))]\n    return lemire::<F>(num);", 1)'
case_ z24_space_in_file_cfg src/lemire.rs 's = s.replace("#![cfg(not(feature = \"compact\"))]", "#![cfg(not(feature = \"compact \"))]", 1)'
case_ z25_raw_type_alias src/lemire.rs 's = s + "\ntype r#u128 = u64;\n"'
case_ z26_raw_mod_lenient etc/correctness/rng-tests/_common.rs 's = s + "\nmod r#i32 { }\n"'
case_ z27_raw_let src/parse.rs 's = s.replace("fn into_i32(value: usize) -> i32 {", "fn into_i32(value: usize) -> i32 {\n    let r#LIMB_BITS: usize = 32;", 1)'
case_ z28_raw_in_macro_args src/mask.rs 's = s + "\npub fn selfcheck() -> bool { matches!(nth_bit(0), r#x if r#x == 1) }\n"'
case_ z29_table_rs_new_item src/table.rs 's = s + "\npub const UNRELATED: u32 = 1;\n"'
case_ z30_table_rs_reexport_dropped src/table.rs 's = s.replace("#[cfg(not(feature = \"compact\"))]\npub use crate::table_small::*;\n", "", 1)'
case_ z31_no_mangle_unread src/libm.rs 's = s + "\n#[no_mangle]\npub extern \"C\" fn memcpy_probe() {}\n"'
case_ z32_used_static_lenient etc/correctness/test-parse-unittests/main.rs 's = s + "\n#[used]\n#[link_section = \".init_array\"]\nstatic INIT: extern \"C\" fn() = { extern \"C\" fn f() {} f };\n"'
case_ z33_no_mangle_lenient etc/correctness/rng-tests/_common.rs 's = s + "\n#[no_mangle]\npub fn helper_probe() {}\n"'
case_ z34_extern_block_lenient etc/correctness/rng-tests/_common.rs 's = s + "\nextern \"C\" { fn abs(x: i32) -> i32; }\n"'
case_ z35_global_asm src/mask.rs 's = s + "\ncore::arch::global_asm!(\"nop\");\n"'
case_ z36_asm_in_fn src/rounding.rs 's = s.replace("pub fn round_down(fp: &mut ExtendedFloat, shift: i32) {", "pub fn round_down(fp: &mut ExtendedFloat, shift: i32) {\n    unsafe { core::arch::asm!(\"nop\") };", 1)'
case_ z37_asm_changed_unread src/fpu.rs 's = s.replace("\"fldcw word ptr [{}]\"", "\"fldcw  word ptr [{}]\"", 1)'
case_ z38_prelude_trait_name src/extended_float.rs 's = s + "\npub trait PartialEq { fn harmless(&self) -> u8 { 0 } }\n"'
case_ z39_prelude_trait_from src/num.rs 's = s + "\npub trait From<T> { fn from(t: T) -> Self; }\n"'
case_ z40_derive_list src/extended_float.rs 's = s.replace("#[derive(Clone, Copy, Debug, PartialEq, Eq)]\npub struct ExtendedFloat", "#[derive(Clone, Copy, Debug, PartialEq, Eq, Hash)]\npub struct ExtendedFloat", 1)'
case_ z41_derive_on_powers src/bellerophon.rs 's = s.replace("pub struct BellerophonPowers {", "#[derive(Default)]\npub struct BellerophonPowers {", 1)'
case_ z42_prelude_macro_name etc/correctness/rng-tests/_common.rs 's = s + "\nmacro_rules! matches { ($a:expr, $b:pat) => { false }; }\n"'
case_ z43_static_in_read_file src/mask.rs 's = s + "\npub static PROBE: u64 = 3;\n"'
case_ z44_unread_attr_moved src/table_bellerophon.rs 's = s + "\n#[cold]\npub fn probe() {}\n"'
if [ $fails -eq 0 ]; then echo "redteam_extra: PASS"; else echo "redteam_extra: $fails FAILURE(S)"; fi
exit $fails
