//! A small `macro_rules!` expander (rule 20): fragment kinds `ident` and `expr`, literal tokens,
//! no repetitions.  Whatever it does not understand is an error (the function is then omitted).
use proc_macro2::{Delimiter, Group, TokenStream, TokenTree};
use std::collections::HashMap;

#[derive(Clone, Debug)]
enum M {
    /// `$name:ident` / `$name:expr`
    Var(String, String),
    /// a token that must appear literally
    Tok(String),
}

#[derive(Clone, Debug)]
pub struct MacroRule {
    matcher: Vec<M>,
    body: TokenStream,
}

#[derive(Clone, Debug)]
pub struct MacroDef {
    pub rules: Vec<MacroRule>,
    /// last line of the definition: a use must come after it (textual scoping)
    pub end_line: usize,
}

fn is_punct(t: &TokenTree, c: char) -> bool {
    matches!(t, TokenTree::Punct(p) if p.as_char() == c)
}

/// `macro_rules! name { (matcher) => { body }; .. }`
pub fn parse_macro_rules(it: &syn::ItemMacro) -> Result<(String, MacroDef), String> {
    if !it.mac.path.is_ident("macro_rules") {
        return Err("not a macro_rules! definition".into());
    }
    let name = match &it.ident {
        Some(i) => i.to_string(),
        None => return Err("macro_rules! without a name".into()),
    };
    let toks: Vec<TokenTree> = it.mac.tokens.clone().into_iter().collect();
    let mut rules = vec![];
    let mut i = 0;
    while i < toks.len() {
        let m = match &toks[i] {
            TokenTree::Group(g) if g.delimiter() == Delimiter::Parenthesis => g,
            _ => return Err(format!("macro `{}`: a rule does not start with a parenthesised matcher", name)),
        };
        if i + 3 >= toks.len() || !is_punct(&toks[i + 1], '=') || !is_punct(&toks[i + 2], '>') {
            return Err(format!("macro `{}`: `=>` expected", name));
        }
        let b = match &toks[i + 3] {
            TokenTree::Group(g) if g.delimiter() == Delimiter::Brace => g,
            _ => return Err(format!("macro `{}`: a braced transcriber is expected", name)),
        };
        rules.push(MacroRule { matcher: parse_matcher(m.stream()).map_err(|e| format!("macro `{}`: {}", name, e))?, body: b.stream() });
        i += 4;
        if i < toks.len() {
            if is_punct(&toks[i], ';') {
                i += 1;
            } else {
                return Err(format!("macro `{}`: `;` expected between rules", name));
            }
        }
    }
    if rules.is_empty() {
        return Err(format!("macro `{}` has no rules", name));
    }
    // C-MACRO: the expander tries the rules in order like rustc, but its matching is cruder; so
    // the rules must be told apart by their first tokens alone: every rule starts with `@` and a
    // distinct word / number, except at most one, which starts with an `ident` fragment (an
    // invocation starting with `@` cannot match it, nor the other way round)
    if rules.len() > 1 {
        let mut heads: Vec<String> = vec![];
        let mut plain = 0;
        for r in &rules {
            match (r.matcher.first(), r.matcher.get(1)) {
                (Some(M::Tok(a)), Some(M::Tok(b))) if a == "@" => {
                    if heads.contains(b) {
                        return Err(format!("macro `{}`: two rules start with `@{}`", name, b));
                    }
                    heads.push(b.clone());
                }
                (Some(M::Var(_, k)), _) if k == "ident" => plain += 1,
                _ => return Err(format!("macro `{}`: its rules are not distinguished by a leading `@word`", name)),
            }
        }
        if plain > 1 {
            return Err(format!("macro `{}`: more than one rule without a leading `@word`", name));
        }
    }
    Ok((name, MacroDef { rules, end_line: it.mac.delimiter.span().close().end().line }))
}

fn parse_matcher(ts: TokenStream) -> Result<Vec<M>, String> {
    let toks: Vec<TokenTree> = ts.into_iter().collect();
    let mut out = vec![];
    let mut i = 0;
    while i < toks.len() {
        if is_punct(&toks[i], '$') {
            match (toks.get(i + 1), toks.get(i + 2), toks.get(i + 3)) {
                (Some(TokenTree::Ident(n)), Some(c), Some(TokenTree::Ident(k))) if is_punct(c, ':') => {
                    let k = k.to_string();
                    if k != "ident" && k != "expr" {
                        return Err(format!("fragment kind `{}` is unsupported", k));
                    }
                    out.push(M::Var(n.to_string(), k));
                    i += 4;
                }
                _ => return Err("unsupported `$` form in a matcher (repetitions are unsupported)".into()),
            }
        } else {
            // literal tokens: `@`, `,`, words and numbers only (rustc's tokens are coarser than
            // proc_macro2's for `==`, `=>`, ..; `_` is not an identifier for rustc)
            match &toks[i] {
                TokenTree::Group(_) => return Err("groups in a matcher are unsupported".into()),
                TokenTree::Punct(p) if p.as_char() == '@' || p.as_char() == ',' => out.push(M::Tok(p.as_char().to_string())),
                TokenTree::Punct(p) => return Err(format!("the token `{}` in a matcher is unsupported", p.as_char())),
                TokenTree::Ident(i) if i == "_" => return Err("`_` in a matcher is unsupported".into()),
                t => out.push(M::Tok(t.to_string())),
            }
            i += 1;
        }
    }
    Ok(out)
}

fn try_match(matcher: &[M], input: &[TokenTree]) -> Option<HashMap<String, (String, Vec<TokenTree>)>> {
    let mut b = HashMap::new();
    let mut i = 0;
    for m in matcher {
        match m {
            M::Tok(t) => {
                if i < input.len() && !matches!(input[i], TokenTree::Group(_)) && input[i].to_string() == *t {
                    i += 1;
                } else {
                    return None;
                }
            }
            M::Var(n, k) if k == "ident" => match input.get(i) {
                Some(TokenTree::Ident(id)) => {
                    b.insert(n.clone(), (k.clone(), vec![TokenTree::Ident(id.clone())]));
                    i += 1;
                }
                _ => return None,
            },
            M::Var(n, k) => {
                // an expression: everything up to the next top-level `,` / `;`
                let start = i;
                while i < input.len() && !is_punct(&input[i], ',') && !is_punct(&input[i], ';') {
                    i += 1;
                }
                if i == start {
                    return None;
                }
                let toks: Vec<TokenTree> = input[start..i].to_vec();
                // it must be one expression
                let ts: TokenStream = toks.iter().cloned().collect();
                if syn::parse2::<syn::Expr>(ts).is_err() {
                    return None;
                }
                b.insert(n.clone(), (k.clone(), toks));
            }
        }
    }
    if i == input.len() {
        Some(b)
    } else {
        None
    }
}

fn transcribe(body: TokenStream, b: &HashMap<String, (String, Vec<TokenTree>)>) -> Result<TokenStream, String> {
    let toks: Vec<TokenTree> = body.into_iter().collect();
    let mut out: Vec<TokenTree> = vec![];
    let mut i = 0;
    while i < toks.len() {
        if is_punct(&toks[i], '$') {
            match toks.get(i + 1) {
                Some(TokenTree::Ident(n)) => match b.get(&n.to_string()) {
                    Some((k, ts)) => {
                        if k == "expr" {
                            // an `expr` fragment stays one operand
                            out.push(TokenTree::Group(Group::new(Delimiter::None, ts.iter().cloned().collect())));
                        } else {
                            out.extend(ts.iter().cloned());
                        }
                        i += 2;
                    }
                    None => return Err(format!("unbound macro variable `${}`", n)),
                },
                _ => return Err("unsupported `$` form in a transcriber".into()),
            }
        } else {
            match &toks[i] {
                TokenTree::Group(g) => {
                    let mut ng = Group::new(g.delimiter(), transcribe(g.stream(), b)?);
                    ng.set_span(g.span());
                    out.push(TokenTree::Group(ng));
                }
                t => out.push(t.clone()),
            }
            i += 1;
        }
    }
    Ok(out.into_iter().collect())
}

fn idents(ts: TokenStream, out: &mut Vec<String>) {
    for t in ts {
        match t {
            TokenTree::Ident(i) => out.push(i.to_string()),
            TokenTree::Group(g) => idents(g.stream(), out),
            _ => {}
        }
    }
}

/// the identifiers a transcriber binds itself (after `let` up to `=`, after `for` up to `in`,
/// closure parameters between `|`s are not used by the crate's macros)
fn declared(body: TokenStream, out: &mut Vec<String>) {
    let toks: Vec<TokenTree> = body.into_iter().collect();
    let mut i = 0;
    while i < toks.len() {
        match &toks[i] {
            TokenTree::Ident(id) if id == "let" || id == "for" => {
                let stop_in = id == "for";
                i += 1;
                while i < toks.len() {
                    let stop = if stop_in { matches!(&toks[i], TokenTree::Ident(x) if x == "in") } else { is_punct(&toks[i], '=') };
                    if stop {
                        break;
                    }
                    if is_punct(&toks[i], '$') {
                        i += 2; // a macro variable is the caller's identifier
                        continue;
                    }
                    match &toks[i] {
                        TokenTree::Ident(x) if x != "mut" && x != "ref" => out.push(x.to_string()),
                        TokenTree::Group(g) => {
                            let mut v = vec![];
                            idents(g.stream(), &mut v);
                            out.extend(v.into_iter().filter(|x| x != "mut" && x != "ref"));
                        }
                        _ => {}
                    }
                    i += 1;
                }
            }
            TokenTree::Group(g) => {
                declared(g.stream(), out);
                i += 1;
            }
            _ => i += 1,
        }
    }
}

/// Expand one invocation.  There is no hygiene: an invocation whose arguments mention an
/// identifier that the transcriber binds is refused.
pub fn expand(def: &MacroDef, input: TokenStream) -> Result<TokenStream, String> {
    let toks: Vec<TokenTree> = input.into_iter().collect();
    // C-MACRO: the arguments are words, numbers, `as` casts, separated by `,` (and a leading `@`)
    for t in &toks {
        match t {
            TokenTree::Punct(p) if p.as_char() == '@' || p.as_char() == ',' => {}
            TokenTree::Punct(p) => return Err(format!("the token `{}` in a macro argument is unsupported", p.as_char())),
            TokenTree::Group(_) => return Err("a bracketed group in a macro argument is unsupported".into()),
            TokenTree::Ident(i) if i == "_" => return Err("`_` as a macro argument is unsupported".into()),
            _ => {}
        }
    }
    for r in &def.rules {
        if let Some(b) = try_match(&r.matcher, &toks) {
            let mut decl = vec![];
            declared(r.body.clone(), &mut decl);
            let mut used = vec![];
            for (_, ts) in b.values() {
                idents(ts.iter().cloned().collect(), &mut used);
            }
            if let Some(x) = used.iter().find(|x| decl.contains(x)) {
                return Err(format!("the argument `{}` would be captured by a binding inside the macro (no hygiene)", x));
            }
            return transcribe(r.body.clone(), &b);
        }
    }
    Err("no rule matches the invocation".into())
}
