//! Types of the supported Rust subset and the fixed name tables of the translation.
use std::fmt;

#[derive(Clone, Copy, Debug, PartialEq, Eq, Hash)]
pub enum IntTy {
    U8,
    /// only the `length` field of `StackVec` (rule 28); not in `ALL`: the prelude of Src.v is fixed
    U16,
    U32,
    U64,
    U128,
    Usize,
    I32,
    I64,
}

impl IntTy {
    pub fn name(self) -> &'static str {
        match self {
            IntTy::U8 => "u8",
            IntTy::U16 => "u16",
            IntTy::U32 => "u32",
            IntTy::U64 => "u64",
            IntTy::U128 => "u128",
            IntTy::Usize => "usize",
            IntTy::I32 => "i32",
            IntTy::I64 => "i64",
        }
    }
    pub fn signed(self) -> bool {
        matches!(self, IntTy::I32 | IntTy::I64)
    }
    /// bit width; `usize` is 64 bits (the verified target is 64-bit, as in RustSem.v)
    pub fn bits(self) -> u32 {
        match self {
            IntTy::U8 => 8,
            IntTy::U16 => 16,
            IntTy::U32 | IntTy::I32 => 32,
            IntTy::U64 | IntTy::I64 | IntTy::Usize => 64,
            IntTy::U128 => 128,
        }
    }
    pub fn from_name(s: &str) -> Option<IntTy> {
        Some(match s {
            "u8" => IntTy::U8,
            "u16" => IntTy::U16,
            "u32" => IntTy::U32,
            "u64" => IntTy::U64,
            "u128" => IntTy::U128,
            "usize" => IntTy::Usize,
            "i32" => IntTy::I32,
            "i64" => IntTy::I64,
            _ => return None,
        })
    }
    pub const ALL: [IntTy; 7] =
        [IntTy::U8, IntTy::U32, IntTy::U64, IntTy::U128, IntTy::Usize, IntTy::I32, IntTy::I64];
}

#[derive(Clone, Debug, PartialEq, Eq)]
pub enum Ty {
    Int(IntTy),
    Bool,
    Unit,
    /// `ExtendedFloat`  (Coq: `extfloat`, `mkExt mant exp`)
    Ext,
    /// `Number` (Coq: `number`, `mkNumber nexp nmant many`)
    Num,
    /// a value of the generic float type `F` / `Self`: its raw bit pattern (Coq: `Z`)
    Float,
    Tuple(Vec<Ty>),
    Opt(Box<Ty>),
    /// closure / callback: parameters (type, is `&mut`) and result
    Fun(Vec<(Ty, bool)>, Box<Ty>),
    /// `[u64; N]` / `&'static [u64]`
    Table,
    /// `[(u64, u64); N]`
    Table2,
    /// `BellerophonPowers` (Coq: the record `btables`)
    Powers,
    /// `FastPathRadix`
    Radix,
    /// `VecType` (= `StackVec` / `HeapVec`); Coq: the record `vec` of model/Vec.v
    Vec,
    /// `Bigint` = its single field `data : VecType`; Coq: `vec`
    Big,
    /// `&[Limb]`; Coq: `list Z`
    Slice,
    /// `ReverseView<Limb>` = its single field `inner : &[Limb]`; Coq: `list Z`
    RView,
    /// `&[u8]` (the string front-ends); Coq: `list Z`
    Bytes,
    /// raw mode (rule 28): `StackVec` as cells + length; Coq: the record `raw` of model/RawVec.v
    Raw,
    /// raw mode: an `Option<()>` result as a flag (`true` = `Some(())`); Coq: `bool`
    Flag,
    /// raw mode: a raw pointer; a translation-time value only (no Coq type)
    Ptr,
    /// heap mode (rule 31): `HeapVec` = its single field `data`; Coq: `vec` of model/Vec.v
    Hv,
    /// heap mode: `std::vec::Vec<Limb>`; Coq: `vec`
    StdVec,
    /// an iterator, as the list of the items not yet consumed
    Seq(Box<Ty>),
    /// `cmp::Ordering`; Coq: `comparison`
    Ordering,
    /// the result of calling an `Option<()>` function with `&mut` parameters: `option` of the
    /// updated arguments (rule 15); only `?`, `.unwrap()` and returning it are possible
    OptUpd,
}

impl Ty {
    /// Coq type of a value of this Rust type
    pub fn coq(&self) -> String {
        match self {
            Ty::Int(_) | Ty::Float => "Z".into(),
            Ty::Bool => "bool".into(),
            Ty::Unit => "unit".into(),
            Ty::Ext => "extfloat".into(),
            Ty::Num => "number".into(),
            Ty::Tuple(ts) => {
                let v: Vec<String> = ts.iter().map(|t| t.coq()).collect();
                format!("({})", v.join(" * "))
            }
            Ty::Opt(t) => format!("(option {})", t.coq()),
            Ty::Fun(ps, r) => {
                let mut s = String::new();
                for (p, _) in ps {
                    s.push_str(&p.coq());
                    s.push_str(" -> ");
                }
                let res = fun_result(ps, r);
                if fun_is_monadic(ps) {
                    format!("({}outcome {})", s, res.coq())
                } else {
                    format!("({}{})", s, res.coq())
                }
            }
            Ty::Table => "(list Z)".into(),
            Ty::Table2 => "(list (Z * Z))".into(),
            Ty::Powers => "btables".into(),
            Ty::Radix => "bool".into(),
            Ty::Vec | Ty::Big => "vec".into(),
            Ty::Slice | Ty::RView | Ty::Bytes => "(list Z)".into(),
            Ty::Seq(t) => format!("(list {})", t.coq()),
            Ty::Ordering => "comparison".into(),
            Ty::Raw => "raw".into(),
            Ty::Hv | Ty::StdVec => "vec".into(),
            Ty::Flag => "bool".into(),
            Ty::Ptr => "(* raw pointer *)".into(),
            Ty::OptUpd => "(* option of the updated arguments *)".into(),
        }
    }
}

impl fmt::Display for Ty {
    fn fmt(&self, f: &mut fmt::Formatter<'_>) -> fmt::Result {
        write!(f, "{:?}", self)
    }
}

/// A callback is translated to a *monadic* Gallina function iff it takes a `&mut` parameter
/// (then it returns the updated values); otherwise it is a pure Gallina function and its body must
/// be free of effects (checked).
pub fn fun_is_monadic(ps: &[(Ty, bool)]) -> bool {
    ps.iter().any(|(_, m)| *m)
}

/// Result type of a function with `&mut` parameters: the updated `&mut` arguments in parameter
/// order, followed by the Rust result unless that is `()`.
pub fn fun_result(ps: &[(Ty, bool)], r: &Ty) -> Ty {
    let mut v: Vec<Ty> = ps.iter().filter(|(_, m)| *m).map(|(t, _)| t.clone()).collect();
    if *r == Ty::Opt(Box::new(Ty::Unit)) && !v.is_empty() {
        // rule 15: `Option<()>` with `&mut` parameters = option of the updated values
        return Ty::Opt(Box::new(if v.len() == 1 { v.pop().unwrap() } else { Ty::Tuple(v) }));
    }
    if *r != Ty::Unit || v.is_empty() {
        v.push(r.clone());
    }
    if v.len() == 1 {
        v.pop().unwrap()
    } else {
        Ty::Tuple(v)
    }
}

/// Which implicit parameters a generated definition takes (in this order, before `b`).
#[derive(Clone, Copy, Debug, Default, PartialEq)]
pub struct Needs {
    pub c: bool,
    pub t: bool,
    pub bt: bool,
    pub l: bool,
    pub f: bool,
}

impl Needs {
    pub fn union(&mut self, o: Needs) {
        self.c |= o.c;
        self.t |= o.t;
        self.bt |= o.bt;
        self.l |= o.l;
        self.f |= o.f;
    }
    pub fn binders(&self) -> String {
        let mut s = String::new();
        if self.c {
            s.push_str("(c : config) ");
        }
        if self.t {
            s.push_str("(T : tables) ");
        }
        if self.bt {
            s.push_str("(BT : btables) ");
        }
        if self.l {
            s.push_str("(L : limits) ");
        }
        if self.f {
            s.push_str("(f : format) ");
        }
        s.push_str("(b : build)");
        s
    }
    pub fn args(&self) -> String {
        let mut s = String::new();
        if self.c {
            s.push_str("c ");
        }
        if self.t {
            s.push_str("T ");
        }
        if self.bt {
            s.push_str("BT ");
        }
        if self.l {
            s.push_str("L ");
        }
        if self.f {
            s.push_str("f ");
        }
        s.push('b');
        s
    }
}

#[derive(Clone, Debug)]
pub struct FnInfo {
    pub coq_name: String,
    pub needs: Needs,
    /// the parameters after `self` (type, is `&mut`)
    pub params: Vec<(Ty, bool)>,
    pub ret: Ty,
    /// the `self` receiver of a method with a Gallina argument (type, is `&mut self`)
    pub self_param: Option<(Ty, bool)>,
}

impl FnInfo {
    /// all Gallina arguments: `self` first
    pub fn all_params(&self) -> Vec<(Ty, bool)> {
        let mut v: Vec<(Ty, bool)> = self.self_param.iter().cloned().collect();
        v.extend(self.params.iter().cloned());
        v
    }
}

/// Operators already defined in base/RustSem.v; all others are defined in the prelude of Src.v
/// from `uop/sop/shl_u/shr_u/shr_s`.
pub const RUSTSEM_HAS: &[&str] = &[
    "u64_add", "u64_sub", "u64_mul", "u64_shl", "u64_shr", "u32_add", "u32_shl", "u8_sub",
    "i32_add", "i32_sub", "i32_mul", "i32_neg", "i64_mul", "i64_sub", "i64_add", "usize_add",
    "usize_sub",
];
