//! The intermediate form (a statement list in A-normal form) and its printing as a Gallina term
//! in the outcome monad of base/RustSem.v.
use std::collections::BTreeSet;

#[derive(Clone, Debug)]
pub enum S {
    /// `let pat := term in`   (pure)
    Let(String, String),
    /// `pat <- m ;;`  (`m ;;;` when pat is "_")
    Bind(String, String),
    /// `if c { a } else { b }`; `outs` = the variables (declared before the `if`) assigned in a
    /// branch, plus the result temporary of an `if` expression.
    /// `m` = None: `c` is a bool; `m` = Some((pa, pb)): `match c with pa => a | pb => b end`
    /// (`if let` / `while let` / `?` on an Option).
    If { c: String, m: Option<(String, String)>, a: Vec<S>, b: Vec<S>, outs: Vec<String> },
    /// leave the function with this (monadic) term
    Ret(String),
    /// `let pat = scrut?` : `match scrut with None => <none> | Some pat => rest end`
    MatchOpt { scrut: String, pat: String, none: Vec<S> },
    /// `while c { body }` with `fuel` iterations at most; `vars` = the loop-carried variables.
    /// `cpre` computes the condition (effects allowed), `c` is the condition
    While { vars: Vec<String>, cpre: Vec<S>, c: String, body: Vec<S>, fuel: u32 },
    /// a loop over the SrcLib combinators (rule 16).  `vars` = the loop state, `res` = the
    /// temporary that receives the result of the combinator.
    /// `tys` = the Gallina types of `vars` (the combinators get `(St := ..)` so that the body is
    /// elaborated at a known state type).
    /// `diverges`: a `loop {}` that contains no `break` of its own: it is only left by `return`.
    Loop { id: usize, kind: LoopKind, vars: Vec<String>, tys: Vec<String>, body: Vec<S>, res: String, diverges: bool },
    /// leave the body of loop `target`: `break` (Break) or end of iteration (Next is only implicit)
    Exit { target: usize },
}

#[derive(Clone, Debug)]
pub enum LoopKind {
    /// `while` / `while let` / `loop` with a fuel expression
    Fuel(String),
    /// `for pat in list` (the iterator is consumed)
    For { list: String, pat: String },
    /// `for pat in &mut it`: the unconsumed rest is rebound to `it`
    ForIter { it: String, pat: String },
    /// `for xi in x.iter_mut()`: `vec` = the vector variable, `elem` = the element variable
    ForMut { vec: String, elem: String },
}

/// may the statement list leave the straight-line flow (`return`, `?`, `break`, or a loop that
/// can be left by a `return` / labelled `break`)
pub fn has_ret(ss: &[S]) -> bool {
    ss.iter().any(|s| match s {
        S::Ret(_) => true,
        S::Exit { .. } => true,
        S::MatchOpt { .. } => true,
        S::If { a, b, .. } => has_ret(a) || has_ret(b),
        S::While { cpre, body, .. } => has_ret(cpre) || has_ret(body),
        S::Loop { id, body, .. } => escapes(body, *id),
        _ => false,
    })
}

/// does the body of loop `id` contain a `return` / `?` or an exit of a loop that encloses `id`
/// (then the loop can end with the payload of a `Return`)
pub fn escapes(ss: &[S], id: usize) -> bool {
    escapes_from(ss, &mut vec![id])
}

/// `ids` = the loops (outermost first) whose `Break` is not an escape
fn escapes_from(ss: &[S], ids: &mut Vec<usize>) -> bool {
    ss.iter().any(|s| match s {
        S::Ret(_) | S::MatchOpt { .. } => true,
        S::Exit { target } => !ids.contains(target),
        S::If { a, b, .. } => escapes_from(a, ids) || escapes_from(b, ids),
        S::Loop { id, body, .. } => {
            ids.push(*id);
            let r = escapes_from(body, ids);
            ids.pop();
            r
        }
        _ => false,
    })
}

/// does the statement list contain a `break` of a loop other than `id` and the loops nested in it
pub fn exits_other(ss: &[S], id: usize) -> bool {
    fn go(ss: &[S], ids: &mut Vec<usize>) -> bool {
        ss.iter().any(|s| match s {
            S::Exit { target } => !ids.contains(target),
            S::If { a, b, .. } => go(a, ids) || go(b, ids),
            S::MatchOpt { none, .. } => go(none, ids),
            S::Loop { id, body, .. } => {
                ids.push(*id);
                let r = go(body, ids);
                ids.pop();
                r
            }
            _ => false,
        })
    }
    go(ss, &mut vec![id])
}

/// does the statement list contain a `break` of loop `id`
pub fn breaks(ss: &[S], id: usize) -> bool {
    ss.iter().any(|s| match s {
        S::Exit { target } => *target == id,
        S::If { a, b, .. } => breaks(a, id) || breaks(b, id),
        S::MatchOpt { none, .. } => breaks(none, id),
        S::Loop { body, .. } => breaks(body, id),
        S::While { cpre, body, .. } => breaks(cpre, id) || breaks(body, id),
        _ => false,
    })
}

pub fn diverges(ss: &[S]) -> bool {
    match ss.last() {
        Some(S::Ret(_)) => true,
        Some(S::Exit { .. }) => true,
        Some(S::Loop { diverges: true, .. }) => true,
        Some(S::If { a, b, .. }) => diverges(a) && diverges(b),
        _ => false,
    }
}

pub fn tuple_pat(vs: &[String]) -> String {
    match vs.len() {
        0 => "_".into(),
        1 => vs[0].clone(),
        _ => format!("'({})", vs.join(", ")),
    }
}

pub fn tuple_val(vs: &[String]) -> String {
    match vs.len() {
        0 => "tt".into(),
        1 => vs[0].clone(),
        _ => format!("({})", vs.join(", ")),
    }
}

fn fun_pat(vs: &[String]) -> String {
    match vs.len() {
        0 => "_".into(),
        1 => vs[0].clone(),
        _ => format!("'({})", vs.join(", ")),
    }
}

/// pattern of a `match` branch (no quote)
fn match_pat(vs: &[String]) -> String {
    match vs.len() {
        0 => "_".into(),
        1 => vs[0].clone(),
        _ => format!("({})", vs.join(", ")),
    }
}

fn all_pure(ss: &[S]) -> bool {
    ss.iter().all(|s| matches!(s, S::Let(..)))
}

pub struct Emitter {
    pub kcount: usize,
    pub errors: Vec<String>,
    /// the enclosing loops (id, state variables), innermost last
    loops: Vec<(usize, Vec<String>)>,
}

fn pad(n: usize) -> String {
    " ".repeat(n)
}

fn simple_app(m: &str) -> bool {
    let t = m.trim_start();
    !(t.starts_with("if ") || t.starts_with("match ") || t.starts_with("let ") || t.contains('\n'))
}

/// the conditional `if c then (va) else (vb)` / `match c with pa => (va) | pb => (vb) end`
fn ite(c: &str, m: &Option<(String, String)>, va: &str, vb: &str, p: &str) -> String {
    match m {
        None => format!("if {c} then (\n{va}\n{p}) else (\n{vb}\n{p})"),
        Some((pa, pb)) => format!("match {c} with {pa} => (\n{va}\n{p}) | {pb} => (\n{vb}\n{p}) end"),
    }
}

impl Emitter {
    pub fn new() -> Self {
        Emitter { kcount: 0, errors: vec![], loops: vec![] }
    }

    /// `Ok x` leaving `n` loops: `Ok (Return (.. x))`
    fn wrap_return(&self, payload: &str, n: usize) -> String {
        let mut t = payload.trim().to_string();
        for _ in 0..n {
            t = format!("(Return {})", paren(&t));
        }
        format!("Ok {}", paren(&t))
    }

    /// Print `ss`, continuing with the term `ft` ("fall-through") when the end of the list is
    /// reached.
    pub fn emit(&mut self, ss: &[S], ft: &str, ind: usize) -> String {
        let (s, rest) = match ss.split_first() {
            None => return format!("{}{}", pad(ind), ft),
            Some(x) => x,
        };
        match s {
            S::Let(p, t) => format!("{}let {} := {} in\n{}", pad(ind), p, t, self.emit(rest, ft, ind)),
            S::Bind(p, m) => {
                let m = if simple_app(m) { m.clone() } else { format!("({})", m) };
                if p == "_" {
                    format!("{}{} ;;;\n{}", pad(ind), m, self.emit(rest, ft, ind))
                } else {
                    format!("{}{} <- {} ;;\n{}", pad(ind), p, m, self.emit(rest, ft, ind))
                }
            }
            S::Ret(t) => {
                if !rest.is_empty() {
                    self.errors.push("unreachable statements after `return`".into());
                }
                if self.loops.is_empty() {
                    format!("{}{}", pad(ind), t)
                } else {
                    // inside loops the function result is the payload of `Return`
                    match t.strip_prefix("Ok ") {
                        Some(x) => format!("{}{}", pad(ind), self.wrap_return(x, self.loops.len())),
                        None => {
                            self.errors.push("internal: `return` term without `Ok`".into());
                            String::new()
                        }
                    }
                }
            }
            S::Exit { target } => {
                if !rest.is_empty() {
                    self.errors.push("unreachable statements after `break`".into());
                }
                match self.loops.iter().rposition(|(id, _)| id == target) {
                    Some(i) => {
                        let brk = format!("Break {}", paren(&tuple_val(&self.loops[i].1)));
                        format!("{}{}", pad(ind), self.wrap_return(&brk, self.loops.len() - 1 - i))
                    }
                    None => {
                        self.errors.push("internal: `break` outside its loop".into());
                        String::new()
                    }
                }
            }
            S::MatchOpt { scrut, pat, none } => {
                let n = self.emit(none, "(* unreachable *)", ind + 4);
                let r = self.emit(rest, ft, ind + 4);
                format!(
                    "{p}match {scrut} with\n{p}| None =>\n{n}\n{p}| Some {pat} =>\n{r}\n{p}end",
                    p = pad(ind)
                )
            }
            S::If { c, m, a, b, outs } => {
                let ra = has_ret(a);
                let rb = has_ret(b);
                if !ra && !rb {
                    // no `return` inside: the `if` is a sub-computation producing `outs`
                    if all_pure(a) && all_pure(b) {
                        let va = self.emit(a, &tuple_val(outs), ind + 4);
                        let vb = self.emit(b, &tuple_val(outs), ind + 4);
                        let r = self.emit(rest, ft, ind);
                        let pat = if outs.len() == 1 { outs[0].clone() } else { tuple_pat(outs) };
                        return format!("{p}let {pat} := ({i}) in\n{r}", p = pad(ind), i = ite(c, m, &va, &vb, &pad(ind)));
                    }
                    let okv = format!("Ok {}", paren(&tuple_val(outs)));
                    let va = self.emit(a, &okv, ind + 4);
                    let vb = self.emit(b, &okv, ind + 4);
                    let r = self.emit(rest, ft, ind);
                    let i = ite(c, m, &va, &vb, &pad(ind));
                    if outs.is_empty() {
                        format!("{p}({i}) ;;;\n{r}", p = pad(ind))
                    } else {
                        format!("{p}{pat} <- ({i}) ;;\n{r}", p = pad(ind), pat = tuple_pat(outs))
                    }
                } else if diverges(a) || diverges(b) {
                    // a branch always returns: the rest of the block belongs to the other branch
                    let (va, vb);
                    if diverges(a) && diverges(b) {
                        if !rest.is_empty() {
                            self.errors.push("unreachable statements after diverging `if`".into());
                        }
                        va = self.emit(a, "(* unreachable *)", ind + 4);
                        vb = self.emit(b, "(* unreachable *)", ind + 4);
                    } else if diverges(a) {
                        va = self.emit(a, "(* unreachable *)", ind + 4);
                        let mut bb = b.clone();
                        bb.extend_from_slice(rest);
                        vb = self.emit(&bb, ft, ind + 4);
                    } else {
                        let mut aa = a.clone();
                        aa.extend_from_slice(rest);
                        va = self.emit(&aa, ft, ind + 4);
                        vb = self.emit(b, "(* unreachable *)", ind + 4);
                    }
                    format!("{p}{i}", p = pad(ind), i = ite(c, m, &va, &vb, &pad(ind)))
                } else {
                    // a branch may return or fall through: the rest becomes a join point
                    self.kcount += 1;
                    let k = format!("k{}", self.kcount);
                    let r = self.emit(rest, ft, ind + 4);
                    let (kdef, kcall) = if outs.is_empty() {
                        (format!("(\n{}\n{})", r, pad(ind)), k.clone())
                    } else {
                        (
                            format!("(fun {} =>\n{}\n{})", fun_pat(outs), r, pad(ind)),
                            format!("{} {}", k, paren(&tuple_val(outs))),
                        )
                    };
                    let va = self.emit(a, &kcall, ind + 4);
                    let vb = self.emit(b, &kcall, ind + 4);
                    format!("{p}let {k} := {kdef} in\n{p}{i}", p = pad(ind), i = ite(c, m, &va, &vb, &pad(ind)))
                }
            }
            S::While { vars, cpre, c, body, fuel } => {
                if has_ret(cpre) || has_ret(body) {
                    self.errors.push("`return` inside a `while` loop is not supported".into());
                }
                let okv = format!("Ok {}", paren(&tuple_val(vars)));
                let vc = self.emit(cpre, &format!("Ok ({})", c), ind + 6);
                let vb = self.emit(body, &okv, ind + 6);
                let r = self.emit(rest, ft, ind);
                format!(
                    "{p}{pat} <- rs_while {fuel}\n{p}    (fun {fp} =>\n{vc})\n{p}    (fun {fp} =>\n{vb})\n{p}    {init} ;;\n{r}",
                    p = pad(ind),
                    pat = tuple_pat(vars),
                    fp = fun_pat(vars),
                    init = paren(&tuple_val(vars)),
                )
            }
            S::Loop { id, kind, vars, tys, body, res, diverges } => {
                let p = pad(ind);
                let state = tuple_val(vars);
                let fp = fun_pat(vars);
                let st = match tys.len() {
                    0 => "unit".to_string(),
                    1 => tys[0].clone(),
                    _ => format!("({})", tys.join(" * ")),
                };
                if let LoopKind::ForMut { vec, elem } = kind {
                    // no `break` / `return` inside: the body returns (state, new element)
                    if has_ret(body) {
                        self.errors.push("`break` / `return` / `?` inside a loop over `iter_mut()` is not supported".into());
                    }
                    let saved = std::mem::take(&mut self.loops);
                    let vb = self.emit(body, &format!("Ok ({}, {})", state, elem), ind + 6);
                    self.loops = saved;
                    let r = self.emit(rest, ft, ind);
                    return format!(
                        "{p}'({sp}, {res}) <- rs_for_mut (St := {st}) (vl {vec}) (fun {fp} {elem} =>\n{vb})\n{p}    {state} ;;\n{p}let {vec} := vset_list {vec} {res} in\n{r}",
                        sp = match_pat(vars),
                    );
                }
                let esc = escapes(body, *id);
                self.loops.push((*id, vars.clone()));
                let vb = self.emit(body, &format!("Ok (Next {})", paren(&state)), ind + 6);
                self.loops.pop();
                let rty = if esc { format!(" (St := {})", st) } else { format!(" (St := {}) (R := Empty_set)", st) };
                let (head, after) = match kind {
                    LoopKind::Fuel(f) => (format!("rs_loop{rty} {} (fun {fp} =>", paren(f)), match_pat(vars)),
                    LoopKind::For { list, pat } => (format!("rs_for{rty} {} (fun {fp} {pat} =>", paren(list)), match_pat(vars)),
                    LoopKind::ForIter { it, pat } => (
                        format!("rs_for_iter{rty} {it} (fun {fp} {pat} =>"),
                        format!("({}, {})", match_pat(vars), it),
                    ),
                    LoopKind::ForMut { .. } => unreachable!(),
                };
                let call = format!("{p}{res} <- {head}\n{vb})\n{p}    {state} ;;\n");
                if *diverges {
                    // the loop has no `break`: it cannot end with `inl` (any term would do there)
                    if !rest.is_empty() {
                        self.errors.push("unreachable statements after a `loop` without `break`".into());
                    }
                    if !esc {
                        self.errors.push("a `loop` without `break` and without `return`".into());
                    }
                    format!("{call}{p}match {res} with\n{p}| inr r => Ok r\n{p}| inl _ => Panic PkFuel (* unreachable: the loop has no `break` *)\n{p}end")
                } else if esc {
                    let r = self.emit(rest, ft, ind + 4);
                    format!("{call}{p}match {res} with\n{p}| inr r => Ok r\n{p}| inl {after} =>\n{r}\n{p}end")
                } else {
                    let r = self.emit(rest, ft, ind);
                    let pat = if after.starts_with('(') { format!("'{}", after) } else { after };
                    format!("{call}{p}let {pat} := no_return {res} in\n{r}")
                }
            }
        }
    }
}

pub fn paren(t: &str) -> String {
    let t = t.trim();
    let atomic = t.chars().all(|ch| ch.is_alphanumeric() || ch == '_' || ch == '\'')
        || (t.starts_with('(') && matching_close(t) == Some(t.len() - 1));
    if atomic {
        t.to_string()
    } else {
        format!("({})", t)
    }
}

fn matching_close(t: &str) -> Option<usize> {
    let mut d = 0i32;
    for (i, ch) in t.char_indices() {
        if ch == '(' {
            d += 1;
        } else if ch == ')' {
            d -= 1;
            if d == 0 {
                return Some(i);
            }
        }
    }
    None
}

/// the variables assigned in a statement list that are not declared in it (helper for loops)
#[allow(dead_code)]
pub fn sorted(v: &BTreeSet<String>) -> Vec<String> {
    v.iter().cloned().collect()
}
