//! The intermediate form (a statement list in A-normal form) and its printing as a Gallina term
//! in the outcome monad of base/RustSem.v.
use std::collections::BTreeSet;

#[derive(Clone, Debug)]
pub enum S {
    /// `let pat := term in`   (pure)
    Let(String, String),
    /// `pat <- m ;;`  (`m ;;;` when pat is "_")
    Bind(String, String),
    /// `if c { a } else { b }`; `outs` = the variables (declared before the `if`) assigned in a
    /// branch, plus the result temporary of an `if` expression.
    If { c: String, a: Vec<S>, b: Vec<S>, outs: Vec<String> },
    /// leave the function with this (monadic) term
    Ret(String),
    /// `let pat = scrut?` : `match scrut with None => <none> | Some pat => rest end`
    MatchOpt { scrut: String, pat: String, none: Vec<S> },
    /// `while c { body }` with `fuel` iterations at most; `vars` = the loop-carried variables.
    /// `cpre` computes the condition (effects allowed), `c` is the condition
    While { vars: Vec<String>, cpre: Vec<S>, c: String, body: Vec<S>, fuel: u32 },
}

pub fn has_ret(ss: &[S]) -> bool {
    ss.iter().any(|s| match s {
        S::Ret(_) => true,
        S::MatchOpt { .. } => true,
        S::If { a, b, .. } => has_ret(a) || has_ret(b),
        S::While { cpre, body, .. } => has_ret(cpre) || has_ret(body),
        _ => false,
    })
}

pub fn diverges(ss: &[S]) -> bool {
    match ss.last() {
        Some(S::Ret(_)) => true,
        Some(S::If { a, b, .. }) => diverges(a) && diverges(b),
        _ => false,
    }
}

pub fn tuple_pat(vs: &[String]) -> String {
    match vs.len() {
        0 => "_".into(),
        1 => vs[0].clone(),
        _ => format!("'({})", vs.join(", ")),
    }
}

pub fn tuple_val(vs: &[String]) -> String {
    match vs.len() {
        0 => "tt".into(),
        1 => vs[0].clone(),
        _ => format!("({})", vs.join(", ")),
    }
}

fn fun_pat(vs: &[String]) -> String {
    match vs.len() {
        0 => "_".into(),
        1 => vs[0].clone(),
        _ => format!("'({})", vs.join(", ")),
    }
}

fn all_pure(ss: &[S]) -> bool {
    ss.iter().all(|s| matches!(s, S::Let(..)))
}

pub struct Emitter {
    pub kcount: usize,
    pub errors: Vec<String>,
}

fn pad(n: usize) -> String {
    " ".repeat(n)
}

fn simple_app(m: &str) -> bool {
    let t = m.trim_start();
    !(t.starts_with("if ") || t.starts_with("match ") || t.starts_with("let ") || t.contains('\n'))
}

impl Emitter {
    pub fn new() -> Self {
        Emitter { kcount: 0, errors: vec![] }
    }

    /// Print `ss`, continuing with the term `ft` ("fall-through") when the end of the list is
    /// reached.
    pub fn emit(&mut self, ss: &[S], ft: &str, ind: usize) -> String {
        let (s, rest) = match ss.split_first() {
            None => return format!("{}{}", pad(ind), ft),
            Some(x) => x,
        };
        match s {
            S::Let(p, t) => format!("{}let {} := {} in\n{}", pad(ind), p, t, self.emit(rest, ft, ind)),
            S::Bind(p, m) => {
                let m = if simple_app(m) { m.clone() } else { format!("({})", m) };
                if p == "_" {
                    format!("{}{} ;;;\n{}", pad(ind), m, self.emit(rest, ft, ind))
                } else {
                    format!("{}{} <- {} ;;\n{}", pad(ind), p, m, self.emit(rest, ft, ind))
                }
            }
            S::Ret(t) => {
                if !rest.is_empty() {
                    self.errors.push("unreachable statements after `return`".into());
                }
                format!("{}{}", pad(ind), t)
            }
            S::MatchOpt { scrut, pat, none } => {
                let n = self.emit(none, "(* unreachable *)", ind + 4);
                let r = self.emit(rest, ft, ind + 4);
                format!(
                    "{p}match {scrut} with\n{p}| None =>\n{n}\n{p}| Some {pat} =>\n{r}\n{p}end",
                    p = pad(ind)
                )
            }
            S::If { c, a, b, outs } => {
                let ra = has_ret(a);
                let rb = has_ret(b);
                if !ra && !rb {
                    // no `return` inside: the `if` is a sub-computation producing `outs`
                    if all_pure(a) && all_pure(b) {
                        let va = self.emit(a, &tuple_val(outs), ind + 4);
                        let vb = self.emit(b, &tuple_val(outs), ind + 4);
                        let r = self.emit(rest, ft, ind);
                        let pat = if outs.len() == 1 { outs[0].clone() } else { tuple_pat(outs) };
                        return format!(
                            "{p}let {pat} := (if {c} then (\n{va}\n{p}) else (\n{vb}\n{p})) in\n{r}",
                            p = pad(ind)
                        );
                    }
                    let okv = format!("Ok {}", paren(&tuple_val(outs)));
                    let va = self.emit(a, &okv, ind + 4);
                    let vb = self.emit(b, &okv, ind + 4);
                    let r = self.emit(rest, ft, ind);
                    if outs.is_empty() {
                        format!("{p}(if {c} then (\n{va}\n{p}) else (\n{vb}\n{p})) ;;;\n{r}", p = pad(ind))
                    } else {
                        format!(
                            "{p}{pat} <- (if {c} then (\n{va}\n{p}) else (\n{vb}\n{p})) ;;\n{r}",
                            p = pad(ind),
                            pat = tuple_pat(outs)
                        )
                    }
                } else if diverges(a) || diverges(b) {
                    // a branch always returns: the rest of the block belongs to the other branch
                    let (va, vb);
                    if diverges(a) && diverges(b) {
                        if !rest.is_empty() {
                            self.errors.push("unreachable statements after diverging `if`".into());
                        }
                        va = self.emit(a, "(* unreachable *)", ind + 4);
                        vb = self.emit(b, "(* unreachable *)", ind + 4);
                    } else if diverges(a) {
                        va = self.emit(a, "(* unreachable *)", ind + 4);
                        let mut bb = b.clone();
                        bb.extend_from_slice(rest);
                        vb = self.emit(&bb, ft, ind + 4);
                    } else {
                        let mut aa = a.clone();
                        aa.extend_from_slice(rest);
                        va = self.emit(&aa, ft, ind + 4);
                        vb = self.emit(b, "(* unreachable *)", ind + 4);
                    }
                    format!("{p}if {c} then (\n{va}\n{p}) else (\n{vb}\n{p})", p = pad(ind))
                } else {
                    // a branch may return or fall through: the rest becomes a join point
                    self.kcount += 1;
                    let k = format!("k{}", self.kcount);
                    let r = self.emit(rest, ft, ind + 4);
                    let (kdef, kcall) = if outs.is_empty() {
                        (format!("(\n{}\n{})", r, pad(ind)), k.clone())
                    } else {
                        (
                            format!("(fun {} =>\n{}\n{})", fun_pat(outs), r, pad(ind)),
                            format!("{} {}", k, paren(&tuple_val(outs))),
                        )
                    };
                    let va = self.emit(a, &kcall, ind + 4);
                    let vb = self.emit(b, &kcall, ind + 4);
                    format!(
                        "{p}let {k} := {kdef} in\n{p}if {c} then (\n{va}\n{p}) else (\n{vb}\n{p})",
                        p = pad(ind)
                    )
                }
            }
            S::While { vars, cpre, c, body, fuel } => {
                if has_ret(cpre) || has_ret(body) {
                    self.errors.push("`return` inside a `while` loop is not supported".into());
                }
                let okv = format!("Ok {}", paren(&tuple_val(vars)));
                let vc = self.emit(cpre, &format!("Ok ({})", c), ind + 6);
                let vb = self.emit(body, &okv, ind + 6);
                let r = self.emit(rest, ft, ind);
                format!(
                    "{p}{pat} <- rs_while {fuel}\n{p}    (fun {fp} =>\n{vc})\n{p}    (fun {fp} =>\n{vb})\n{p}    {init} ;;\n{r}",
                    p = pad(ind),
                    pat = tuple_pat(vars),
                    fp = fun_pat(vars),
                    init = paren(&tuple_val(vars)),
                )
            }
        }
    }
}

pub fn paren(t: &str) -> String {
    let t = t.trim();
    let atomic = t.chars().all(|ch| ch.is_alphanumeric() || ch == '_' || ch == '\'')
        || (t.starts_with('(') && matching_close(t) == Some(t.len() - 1));
    if atomic {
        t.to_string()
    } else {
        format!("({})", t)
    }
}

fn matching_close(t: &str) -> Option<usize> {
    let mut d = 0i32;
    for (i, ch) in t.char_indices() {
        if ch == '(' {
            d += 1;
        } else if ch == ')' {
            d -= 1;
            if d == 0 {
                return Some(i);
            }
        }
    }
    None
}

/// the variables assigned in a statement list that are not declared in it (helper for loops)
#[allow(dead_code)]
pub fn sorted(v: &BTreeSet<String>) -> Vec<String> {
    v.iter().cloned().collect()
}
