//! rs2coq — regenerate Gallina definitions for the arithmetic core of minimal-lexical directly
//! from the Rust source (parsed with `syn`), to be proved equal to the hand-written model
//! (/verif/coq/model/*.v) in /verif/coq/proofs/SrcEquiv*.v.
//!
//! Usage:  rs2coq <src-dir>            (prints gen/Src.v on stdout: rules 1-13 only; see run.sh)
//!         rs2coq <src-dir> <out-dir>  (writes Src.v, SrcBigint.v, SrcSlow.v, SrcParse.v and the four
//!                                      seven SrcFront*.v, SrcStackVec.v, SrcHeapVec.v into the
//!                                      existing directory <out-dir>: rules 1-31; the front-ends are read below
//!                                      <src-dir>/..)
//!
//! # TRANSLATION RULES (this program is part of the trusted base; the rules are deliberately dumb)
//!
//! Target language: the outcome monad of base/RustSem.v (`Ok | Panic | UB`, `bind`), values are
//! `Z` with the width kept in the operator name; `b : build` carries `ovf` / `dbg`.
//!
//!  1. Every translated Rust function `name` becomes `Definition rs_name [c] [T] [BT] [f] b args :
//!     outcome R`.  `c : config`, `T : tables`, `BT : btables` (= the constant `BASE10_POWERS`),
//!     `f : format` (= the type parameter `F: Float` / `Self`) are present iff used (transitively).
//!     Locals are named `v_<rust name>`, temporaries `t<n>`, join points `k<n>`.  Rust shadowing
//!     and assignment both become Gallina shadowing (`let v_x := … in`): that is the SSA renaming.
//!  2. `+ - * / %  << >>` and unary `-` on a fixed-width integer become `<ty>_<op> b x y`
//!     (`u64_add`, `i32_sub`, `u64_shl`, `i32_neg`, `u128_mul`, `i32_div`, …: checked operators;
//!     the ones missing in RustSem.v are defined in the prelude of Src.v from `uop/sop/shl_u/shr_u/
//!     shr_s`; `/` and `%` panic on a zero divisor and, signed, on `MIN / -1`).  Operands are
//!     evaluated left to right, each effectful sub-expression is bound (`t <- op ;;`) before the
//!     operator that uses it.  Compound assignment `x op= e` evaluates `e` first (primitive types).
//!     A negated integer literal `-27` is the literal `(-27)`.  The operator width is the operand
//!     type found by the type inference (parameter / local / field / constant types, literal
//!     suffixes, casts, method results; unsuffixed literals take the type of the other operand,
//!     then the expected type, then `i32`).  usize is 64 bits.
//!  3. Pure: comparisons (`a > b` is `(b <? a)`, `a >= b` is `(b <=? a)`, `!=` is `negb (=?)`),
//!     `& | ^` (`Z.land/lor/lxor`), `!` (`negb`; on u64 `u64_not`), `as` casts (`as_<ty> x`;
//!     identity when source and target type agree; `bool as int` is `if c then 1 else 0`),
//!     `wrapping_* / overflowing_* / saturating_* / checked_*` (`<ty>_<method> x y`),
//!     `leading_zeros` on u64 (`lz64`), `min/max` (`Z.min/Z.max`), `.len()` of a table (`zlen`),
//!     tuples, `.0/.1` (`fst/snd`), `Some/None`, `==`/`!=` on ExtendedFloat (`ext_derived_eqb`,
//!     field-wise, justified by `#[derive(PartialEq)]`, which is checked).
//!  4. `a && b` / `a || b`: pure when `b` is effect-free, else `t <- (if a then <b> else Ok false)`.
//!  5. `debug_assert!(c)` is `debug_assert b c ;;;`; if `c` has effects they are executed under
//!     `if dbg b` only.  Other macros: rule 20.
//!  6. `if/else`, `match` on `bool` and on `(x, true|false)`: (a) both branches pure and nothing
//!     assigned: a Gallina `if`; (b) no `return` inside: `'(outs) <- (if c then … Ok outs else …
//!     Ok outs) ;;` where `outs` are the outer variables assigned in a branch (sorted by name)
//!     followed by the value of the `if`; (c) one branch always returns: the rest of the block is
//!     appended to the other branch; (d) otherwise the rest of the block becomes a join point
//!     `let k := fun outs => rest in`.  `return e` / the final expression is `Ok e`.
//!     `e?` on an Option is `match e with None => Ok None | Some t => rest end`.
//!  7. `&mut T` parameters: the function returns the updated values (in parameter order) followed
//!     by its Rust result (omitted when `()`), as a tuple.  A call `g(&mut x, a)` is
//!     `'(v_x, t) <- rs_g b v_x a ;;`.  `&T` is `T`.  Field assignment on `ExtendedFloat` rebuilds
//!     the record (`mkExt new (exp v_x)`).
//!  8. Callbacks (`Cb: Fn(..)`) are Gallina function arguments: monadic iff they take a `&mut`
//!     parameter, otherwise pure (the closure body must then be effect-free).
//!  9. Structs: `ExtendedFloat {mant, exp}` = `mkExt`/`mant`/`exp`; `Number {exponent, mantissa,
//!     many_digits}` = `nexp`/`nmant`/`many`; `BellerophonPowers` fields = `BELL_* BT` (the struct
//!     declarations in the source are checked against this mapping).  `F::NAME` = `NAME f` with
//!     the type declared in `trait Float`.  Module constants SMALLEST_POWER_OF_FIVE,
//!     LARGEST_POWER_OF_FIVE, POWER_OF_FIVE_128 = fields of `T` (declared types checked).
//!     `TABLE[i]` = `index_checked(2) TABLE i`.
//! 10. Primitives (given, not translated): `F::from_bits x` = `from_bits f b x` (model/Num.v),
//!     `x.to_bits()` = `x` (floats are bit patterns), `F::from_u64 x` = `f_from_u64 f x`,
//!     float `*` `/` = `f_mul f` / `f_div f` (model/FloatOps.v), `F::pow_fast_path k` =
//!     `pow_fast_path c T f k`, `int_pow_fast_path(k, FastPathRadix::Ten|Five)` =
//!     `int_pow_fast_path c T b k true|false` (model/Number.v).
//! 11. `while c { body }` (only in functions given a fuel in the target list) is
//!     `rs_while fuel (fun vars => c) (fun vars => body) vars` (prelude; `Panic PkFuel` when the
//!     fuel runs out), `vars` = the outer variables assigned in the body.
//! 12. `let` statements under `#[cfg(feature = "nightly")]` are dropped (no verified configuration
//!     enables it); any other `cfg` on a statement is an error (but see rule 21).  `unsafe { e }` is `e`.
//! 13. `u64::MAX`, `i32::MIN`, `u32::BITS`, … and `<int>::max_value()` / `min_value()` are the literal
//!     values (of that integer type; `BITS` is a `u32`).
//!
//! Rules 14-23 translate bigint.rs, the rest of slow.rs, and parse.rs (gen/SrcBigint.v,
//! gen/SrcSlow.v, gen/SrcParse.v).  Library primitives (loop combinators, slices, iterators, the
//! vector back-ends) are the hand-written model/SrcLib.v and model/Vec.v; `c : config` carries
//! `alloc c` (heap or stack vectors) and `compact c`; `L : limits` the vector capacity.  Implicit
//! parameters are, in this order, `c T BT L f b`.
//!
//! 14. Types: `VecType` / `&mut VecType` = `vec`; `&[Limb]` = `list Z` (`&VecType -> &[Limb]` and
//!     table -> slice coercions at call arguments: `vl x` / identity); `Limb` = u64, `Wide` = u128,
//!     `LIMB_BITS` = the usize literal 64: the `#[cfg(all(target_pointer_width = "64", not(..sparc)))]`
//!     declarations in bigint.rs are checked to say so, else everything that mentions these types
//!     is omitted.  `if LIMB_BITS == 32 {A} else {B}` and match guards `if LIMB_BITS == 32` are
//!     resolved statically (B / arm dropped).  `Bigint` = its single field `data : VecType`,
//!     `ReverseView<T>` (only at T = Limb: `rview`'s signature is checked) = its single field
//!     `inner : &[T]` (struct declarations checked): values are `vec` / `list Z`, `.data` / `.inner`
//!     and the struct literals are the identity.  `Number { .. }` fields can be assigned (the record
//!     is rebuilt), `Number::default()` = `mkNumber 0 0 false` (`#[derive(Default)]` checked).
//!     `Iter: Iterator<Item = &'a u8> [+ Clone]` = `list Z` of the bytes not yet consumed;
//!     `.clone()` = identity; advancing it rebinds it (an ordinary shadowed local).  Byte literals
//!     `b'0'` are u8 literals.  `let x = 0;` (unsuffixed literal, no annotation): the type of `x` is
//!     that of its first typed use (else i32, Rust's fallback); a later use at another type is an
//!     error.  An unsuffixed literal operand of `as` takes the target type (`10 as Limb` = `10`).
//!     A `let` that shadows a variable of an enclosing block gets a primed name (`v_x'`).
//! 15. `Option<()>` functions with `&mut` parameters return `outcome (option (updated params))`:
//!     `Some(())` = `Some` of the updated values, `None` LOSES them.  That is all a caller can
//!     observe, because the result of such a call (also of `x.try_push(e)`, `x.try_resize(n, e)`)
//!     can only be consumed by `?` (`match t with None => Ok None | Some v_x => ..`), by
//!     `.unwrap()` (`v_x <- unwrap t`), or returned as it is from a function with the same `&mut`
//!     parameters; any other use (binding it, ignoring it, testing it) is refused.  `*x = e` on a
//!     `&mut` parameter rebinds it.  `.unwrap()` on any Option = `unwrap` (Panic PkUnwrap).
//! 16. Loops use SrcLib's combinators; every loop body ends in `Ok (Next s)`, `break` = `Ok (Break
//!     s)`, `return e` = `Ok (Return r)`, where `s` = the tuple of the outer variables assigned in
//!     the body (sorted by name, as rule 6; an iterator advanced by `.next()` is one of them) and
//!     `r` = the function result (rule 7 tuple).  After the loop: `match t with inr r => Ok r | inl
//!     s => rest end`; when the body cannot `return` the loop is instantiated at `R := Empty_set`
//!     and followed by `let s := no_return t in`.  Nested loops: the payload type of the inner loop
//!     is the `ctl` of the outer one: `return e` inside n loops = `Return (.. (Return r))`, a
//!     labelled `break 'l` = `Return (.. (Break s_l))` and the outer body passes it on with that
//!     same `inr r => Ok r`.  `continue` and `break` with a value are refused.  `(St := ..)` gives
//!     the state type explicitly.  `for` over a list is structural; `while c {..}` / `while let
//!     Some(p) = e {..}` / `loop {..}` are `rs_loop fuel (fun s => if c then body else Ok (Break s))`
//!     with a fuel EXPRESSION from the TARGETS table (a Coq term over the variables in scope at
//!     loop entry; one per loop in source order, macros expanded; a wrong count is an error;
//!     exhausted fuel = Panic PkFuel).  Functions with a numeric fuel keep rule 11.
//! 17. Iteration sources: `for xi in x.iter_mut()` (`rs_for_mut`: `*xi` reads, `*xi = e` / `*xi op=
//!     e` write the element variable; no `break` / `return` / `?` inside), `for p in &mut it`
//!     (`rs_for_iter`: the rest is rebound to `it`), `for p in e` with `e` a list expression:
//!     an iterator variable (consumed), `s.iter()` (`s` a slice, table or vector), `.rev()`,
//!     `.enumerate()` (`enumerate_from 0`), `.skip(k)` with literal k (`skipn k`), `a.zip(b)`
//!     (`combine a b`), `.clone()`.  These are also values (`let iter = ..`).  `it.next()` =
//!     `let '(t, v_it) := iter_next v_it`, `it.count()` = `zlen it`, `e.any(|p| pure)` = `existsb
//!     (fun p => ..) e`.  Patterns: identifiers, `&`, `_`, tuples of those.
//! 18. Places: `x[i]` on a slice / vector = `slice_get` / `vec_get` (Panic PkIndex), `&s[..n]` =
//!     `slice_to`, `x[i] = e` = `v_x <- vec_set v_x i e` (value, then index, then store), `rslc[i]`
//!     on a ReverseView = the translated `ReverseView::index`.  `let xi = x.get_mut(i).unwrap();`
//!     makes `xi` an alias: the index is evaluated once, `unwrap (slice_get_opt (vl v_x) i) ;;;`,
//!     then `*xi` reads `vec_get v_x i` and `*xi = e` is `v_x <- vec_set v_x i e`.  `x.get(i)` =
//!     `slice_get_opt`; `x.len()` / `capacity()` / `is_empty()` = `vlen` / `vcap` / `vlen x =? 0`
//!     (`zlen` on slices); `VecType::new()` = `vnew L`, `VecType::try_from(s)` = `try_from (alloc c)
//!     L s`, `x.try_push(e)` / `x.try_resize(n, e)` = `try_push / try_resize (alloc c) ..` (rule 15),
//!     `unsafe { x.set_len(n) }` = `v_x <- vec_set_len v_x n` (SrcLib: truncation, else UB).
//!     `if let Some(p) = e {A} else {B}` / `while let` = `match e with Some p => A | None => B end`.
//! 19. `match` on integers (literal arms), on `Option<int>` (`Some(&0)`, `None`) and on
//!     `cmp::Ordering` (= Coq `comparison`; `a.cmp(&b)` on integers = `Z.compare a b`): the arms
//!     are tried in order as nested `if test then .. else ..` on the scrutinee (evaluated once),
//!     `Equal` = `(match t with Eq => true | _ => false end)`, a guard is `&&`-ed (effect-free), a
//!     binding arm `ord => ..` / `_` always matches, the LAST arm is the final `else` (Rust has
//!     checked exhaustiveness).  `|` `&` `^` on bool = `||` `&&` `xorb`.
//! 20. `macro_rules!` macros of the same file are expanded before lowering (macros.rs: fragment
//!     kinds `ident`, `expr`; literal tokens such as `@mul`; recursive uses; an `expr` argument
//!     stays one operand).  No hygiene: an invocation whose arguments mention an identifier that
//!     the macro binds (`let` / `for`) is refused; the expansion is a scope of its own and may not
//!     declare top-level `let`s.  Anything else the expander does not understand is an error.
//! 21. `#[cfg(feature = "compact")]` / `#[cfg(not(feature = "compact"))]` on a statement (not a
//!     `let`) = `if compact c then .. else ..`; two adjacent statements with complementary
//!     conditions are the two branches of one `if`.  `LARGE_POW5` (the 64-bit declaration),
//!     `LARGE_POW5_STEP` = fields of `T` (declared types checked).  `a.pow(k)` on an unsigned type
//!     is evaluated by the translator when `a`, `k` are literals, casts of literals or immutable
//!     locals bound to a literal (`(5 as Limb).pow(small_step)`; checked to fit); otherwise refused.
//! 22. A method of `impl Bigint` / of the vector back-ends whose body is ONE delegating call that
//!     passes the receiver (`self`, `&self.data`, ..) first and then every parameter exactly once,
//!     in order (`bigint::small_mul(self, y)`, `self.data.hi64()`, `Self { data:
//!     VecType::from_u64(value) }`) is replaced at the call site by that call with the actual
//!     receiver / arguments (same evaluation order).  For `VecType` the bodies in stackvec.rs AND
//!     heapvec.rs (also `impl Ord`: `cmp`) must be the same call.  Anything else => the caller is
//!     omitted.  `Bigint::pow` is translated (`rs_bigint_pow`).  A free function `m::f` / `f` is the
//!     `f` of m.rs / of the same file / the only translated `f`.
//! 23. Given by name, not translated: `shl_limbs` of bigint.rs (raw pointer code) = SrcLib's
//!     `rs_shl_limbs` (the text of model/Bigint.v's `shl_limbs`; its signature is checked), and the
//!     primitives of rule 10.  Everything else that slow.rs / parse.rs call (`round`, `lemire`,
//!     `bellerophon`, `scientific_exponent`, `bh`, `extended_to_float`, `try_fast_path`, ..) is the
//!     rs_ translation in Src.v.  Closures passed to `round` / `round_nearest_tie_even` (rule 8)
//!     may capture locals and use `_` parameters.
//!
//! Rules 24-27 translate the shipped copies of the string front-end `parse_float(bytes) -> (F,
//! &[u8])` (gen/SrcFrontSimple.v, SrcFrontFuzz.v, SrcFrontTest.v, SrcFrontEtc.v).
//!
//! 24. Byte slices `&[u8]` = `list Z`: `s.len()` = `zlen s`, `s.get(i)` = `slice_get_opt s i`,
//!     `s.first()` = `hd_error s`, `s[i]` = `slice_get s i`, `&s[..n]` = `slice_to s n`, `&s[n..]`
//!     = `slice_from s n` (SrcLib: Panic PkIndex beyond the end), `s.iter()` / `for c in s` = the
//!     list; a byte string `b"NaN"` = the list of its bytes `[78; 97; 78]`.  `match` (rule 19)
//!     also takes byte literals (`Some(&b'+')` = `(match t with Some 43 => true | _ => false
//!     end)`) and or-patterns (`p | q` = `(test_p || test_q)`, no bindings); a two-armed `match`
//!     on an Option with a binding arm (`Some(v) => A, None | _ => B`, any order) is `match t with
//!     Some v_v => A | None => B end` like `if let`.
//! 25. `o.is_some()` / `o.is_none()` = `(match o with Some _ => true | None => false end)` / its
//!     negation; `o.map_or(d, |p| e)` = `(match o with Some p => e | None => d end)` with `e`
//!     effect-free (`let`s become `let .. in`); `(c as char).to_digit(10)` on a `u8` =
//!     `u8_to_digit10 c` (SrcLib; only this form, radix literal 10); `e.take_while(|p|
//!     t).count()` = `take_while_count (fun p => t) e` (SrcLib) for a list expression `e` of rule
//!     17; `-x` on the float type `F` = `f_neg f x` (model/FloatOps.v).
//! 26. A `loop { .. }` that contains no `break` of its own can only be left by `return`: it is an
//!     expression of type `!`, and the `inl` branch after it (which `rs_loop` cannot produce) is
//!     `Panic PkFuel`.
//! 27. The front-end files are read below `<src-dir>/..` (examples/simple.rs,
//!     fuzz/fuzz_targets/parse.rs, tests/integration_tests.rs,
//!     etc/correctness/test-parse-golang/main.rs); of each, the functions parse_sign to_digit
//!     add_digit_i32 sub_digit_i32 is_digit split_at_index consume_digits ltrim_zero rtrim_zero
//!     parse_exponent case_insensitive_starts_with parse_float that it defines are translated to
//!     `rs_<tag>_<fn>`, tag = simple / fuzz / test / etc (`parse_float` is required, the others
//!     are skipped when absent).  They only see the functions of their own file, plus
//!     `minimal_lexical::parse_float` = `rs_parse_float` of parse.rs (lib.rs is checked to say
//!     `pub use self::parse::parse_float;`).  A missing / unparsable front-end file, or a function
//!     that cannot be translated, is OMITTED in that front-end's output file only.
//!     Three further copies hold the same helpers among test drivers: etc/correctness/rng-tests/
//!     _common.rs (tag rng), test-parse-random/_common.rs (rand), test-parse-unittests/main.rs
//!     (unit) -> gen/SrcFrontRng.v, SrcFrontRand.v, SrcFrontUnit.v.  For these the pre-pass is
//!     LENIENT: inside the target functions every check applies; of the other items (`validate`,
//!     serde structs, `main`, `SEED`, ..) only what could shadow a name the targets use is refused:
//!     `cfg` / `cfg_attr` / `path` attributes anywhere, glob imports other than today's
//!     (`std::io::prelude::*`), an import / item / module / macro / extern crate spelled like a std
//!     name with a fixed meaning, like one of the helper functions or `minimal_lexical`, lower-case
//!     constants (constant patterns), item-position macro invocations, renamed `extern crate`s;
//!     and (stage 12) every `trait`, every `static`, every `extern` block, every attribute that is
//!     not doc / inline / allow / warn / deny / derive / macro_use / serde / test / must_use / cold
//!     (so no `no_mangle`, `link_section`, `used`, `export_name`, `global_allocator`, ..), every
//!     `impl` block whose self type is not a struct / enum / union defined in that file (no impl for
//!     `Option<u32>`, `u8`, `&T`, `[T]`, `T`, ..), and every impl function spelled like a method /
//!     function / macro-argument identifier that the target functions mention (`is_some`, `len`,
//!     `get`, `to_digit`, ..: method probing tries by-value `self` candidates, inherent then trait,
//!     before the autoref'd inherent `&self` methods that the translation maps).  Other imports and
//!     modules are not restricted (the items of a module are visited like the others).
//!
//! Rules 28-30 ("raw mode") translate the unsafe vector back-end: every function of `impl StackVec`
//! (stackvec.rs), its `Deref::deref`, and once more `bigint::shl_limbs`, over the cell-level memory
//! model of model/RawVec.v (gen/SrcStackVec.v: `rs_sv_<fn> (L : limits) (b : build) ..`; rule 23
//! stays as it is for the list level).  Everything not mentioned is as in rules 1-27.
//!
//! 28. `StackVec` / `Self` / `VecType` / `&self` / `&mut self` = `raw` (`mkRaw cells rlen`; the struct
//!     declaration `{ data: [mem::MaybeUninit<bigint::Limb>; bigint::BIGINT_LIMBS], length: u16 }`
//!     is checked).  `self.length` = `rlen r` (a u16: `as_u16`, `u16_add`, `u16_sub` = `uop b 16`,
//!     defined in the file's prelude); `self.length = e` = `mkRaw (cells r) e`; `Self { length: e,
//!     data: [mem::MaybeUninit::uninit(); bigint::BIGINT_LIMBS] }` = `mkRaw (repeat None (Z.to_nat
//!     (BIGINT_LIMBS L))) e`; `bigint::BIGINT_LIMBS` = `BIGINT_LIMBS L`; `bigint::Limb` = u64.  A
//!     method call on a raw vector is the call of the translated `rs_sv_<fn>` (`self` first; rule 7
//!     returns the updated `raw`).  An `Option<()>` result is a FLAG (`true` = `Some(())`) next to
//!     the state, which is returned in both cases (`outcome (raw * bool)`; this differs from rule 15
//!     on purpose: the StackVec functions leave the vector unchanged on `None`); `Some(())` =
//!     `true`, `None` = `false`, `e?` = `if flag then rest else return None-with-the-state`.
//!     `Option<Limb>` with `&mut self` = `outcome (raw * option Z)`.
//! 29. Raw pointers are translation-time values: `x.as_ptr()` / `x.as_mut_ptr()` / `self.data.as_ptr()`
//!     on a raw vector = the base of its own buffer (cell 0; in Rust these go through `Deref`),
//!     `p.add(k)` on a base pointer = cell `k` (`k` evaluated once, with its checks), `s.as_ptr()`
//!     on a slice parameter = that foreign slice, `p as *const T` / `*mut T` = `p`; they may be
//!     bound by an immutable `let` and used only as arguments of: `ptr::write(p, v)` = `cs <-
//!     write_cell (cells r) k v` (then `mkRaw cs (rlen r)`), `ptr::read(p)` = `read_cell (cells r)
//!     k`, `ptr::copy_nonoverlapping(s.as_ptr(), p, s.len())` = `write_cells (cells r) k s` (the
//!     count must be literally `s.len()`), `ptr::copy(p, q, n)` inside one buffer = `copy_within
//!     (cells r) k1 k2 n`, `ptr::write_bytes(base, 0, n)` = `write_zeros (cells r) n`,
//!     `slice::from_raw_parts(base, n)` = `raw_slice (cells r) n` (SrcLibRaw).  Any other use of a
//!     pointer is refused.
//! 30. `for i in a..b` (usize, effect-free bounds) = `rs_for` over `zrange a b` (SrcLibRaw).
//!
//! 31. ("heap mode", gen/SrcHeapVec.v: `rs_hv_<fn> (L : limits) (b : build) ..` for the non-delegating
//!     functions of `impl HeapVec` and its `Deref::deref`.)  `HeapVec` / `Self` = its single field
//!     `data : Vec<bigint::Limb>` (declaration checked) = the record `vec` of model/Vec.v; `.data`
//!     and `Self { data: e }` are the identity.  The `std::vec::Vec` methods are the primitives of
//!     the hand-written model/SrcLibHeap.v: `Vec::with_capacity(n)` = `std_with_capacity n`,
//!     `self.data.push(x)` = `let v_self := std_push v_self x`, `.pop()` = `let '(t, v_self) :=
//!     std_pop v_self`, `.extend_from_slice(s)` = `std_extend`, `.resize(n, x)` = `std_resize`,
//!     `unsafe .set_len(n)` = `v_self <- std_set_len v_self n`, `.len()` / `.capacity()` = `vlen` /
//!     `vcap`, `&self.data` as a slice = `vl v_self`; any other `Vec` method is refused.  `Option<()>`
//!     results are flags next to the state as in rule 28 (`outcome (vec * bool)`), `pop` =
//!     `outcome (vec * option Z)`, `try_from` = `outcome (option vec)`; `bigint::BIGINT_LIMBS` =
//!     `BIGINT_LIMBS L`; method calls on a `HeapVec` are calls of the translated `rs_hv_<fn>`.
//!
//! # CHECKS THAT MAKE THE TRANSLATION FAIL CLOSED
//!
//! The rules above read the constructs they understand and resolve names by their spelling.  The
//! following checks make sure that nothing else in the source can change what those constructs
//! and names mean.  C-ATTR .. C-MOD are the pre-pass (check.rs), run over every file that is read
//! (and, for C-MOD, the others); a problem in lib.rs, table.rs or a file that holds declarations of
//! rules 9-10 (num.rs, extended_float.rs, number.rs, bellerophon.rs, table_lemire.rs) is exit 2; a
//! problem in mask.rs, rounding.rs, lemire.rs, slow.rs, parse.rs omits every function of that file
//! (and its callers); in bigint.rs, stackvec.rs, heapvec.rs, table_small.rs everything built on the
//! limb types; in a front-end file that front-end.  The others are checks of the lowering (the
//! function is OMITTED).  redteam_check.sh / redteam_extra.sh are the regression tests.
//!
//! C-ATTR   every attribute anywhere in a file (items, statements, expressions, match arms,
//!          fields, parameters, ..) must be harmless by name (doc, inline, allow, derive, must_use,
//!          test, cold, warn, deny, deprecated, rustfmt::*) or one of the `cfg` / `cfg_attr` forms
//!          present today, whitelisted by (file, item, exact predicate) in check.rs; the statement
//!          forms of rules 12 / 21 (`#[cfg(feature = "nightly")] let`, `#[cfg([not](feature =
//!          "compact"))]` on a `return ..;` / `{ .. }` statement) are accepted everywhere.  So no
//!          `#[cfg(any())]` decoy, `#[cfg_attr(..)]`, `#[path]`, `#[macro_use]`, .. can hide or
//!          replace code.  Macro bodies and `debug_assert!` arguments are token trees the pre-pass
//!          cannot see: their expansion may contain no attribute and no item at all.
//! C-DUP    no name is defined twice in a file (fn, const, static, type, struct, enum, trait, mod,
//!          macro_rules, import; methods per impl; impl blocks per type/trait) unless every
//!          definition carries a whitelisted `cfg` (the Limb / VecType / LARGE_POW5 selections);
//!          the driver also refuses a target with two definitions, a macro defined twice, a method
//!          found both in an inherent impl and in `impl Ord` (the two delegation tables are kept
//!          apart), and (C-FIELD) a struct literal that gives a field twice.
//! C-NAME   the names with a fixed meaning - the std names `Some None Ok Err Option Result
//!          debug_assert core std Iterator Clone Fn`, the primitive type names, every translated
//!          function, `int_pow_fast_path`, `FastPathRadix`, `Float`, the struct / limb / table names
//!          of rules 9, 14, 21, `minimal_lexical` - may not be defined by any item (fn, const,
//!          static, type, struct, enum, trait, mod, type parameter; macros: `debug_assert`) outside
//!          the one file that is their home.
//! C-USE    every `use` leaf (also inside function bodies) must be one of the imports present
//!          today, whitelisted by (file, path); no `as` renames, no other globs, no `extern crate`
//!          but `alloc` (lib.rs) / `minimal_lexical` (front-ends).  So an imported name is what the
//!          translator assumes, and no trait import can change a method call.
//! C-LOCAL  no items inside function bodies (fn, static, type, struct, enum, trait, impl, mod,
//!          macro_rules), except `const NAME` with an upper-case name that is not mentioned earlier
//!          in the function (constants are visible in their whole block) and shadows nothing.
//! C-PAT    an identifier pattern may not be spelled like a constant / static / unit struct /
//!          upper-case import of the file or a local constant (it would be a constant pattern).
//! C-IMPL   every `impl` block must be one of those present today (file, trait, self type) and may
//!          only define the functions it defines today: no inherent `iter_mut` / `cmp` / `default`
//!          beating the slice / `Ord` / derived method that the translator maps, no `impl Float`
//!          overriding a translated default method, no manual `PartialEq` for `ExtendedFloat`.
//! C-MOD    lib.rs declares each file that is read exactly once as a plain `mod x;` (no `#[path]`,
//!          no body); no inline modules, no `mod x;` elsewhere, no item-position macro
//!          invocations, no `include!`.  The modules that are not read (fpu, libm,
//!          table_bellerophon, any new one) may not contain an impl for a mapped type or of `Float`
//!          (impls can live anywhere), a `mod x;` or `include!`.  `rs2coq <src-dir>` applies the
//!          pre-pass to the extension's files as well.
//! C-GENERIC  generic arguments of expression paths and method calls are not translated: only the
//!          function's own `F` and `_` are accepted (`moderate_path::<f64>(..)` is refused);
//!          qualified paths `<T as Trait>::x` are refused; a type path may have no module prefix
//!          (except `cmp::Ordering`) and generic arguments only on `Option` / `ReverseView`; bounds
//!          are `Fn`, `Iterator`, `Clone`, `Float`, `minimal_lexical::Float` by their full path.
//! C-REFMUT `&e` is transparent, `&mut e` is not: it is only accepted as the argument for a `&mut`
//!          parameter (so `f(&mut it)` for a by-value iterator parameter is refused).
//! C-STALE  operands are evaluated left to right, pure operands are kept as terms: when a later
//!          sibling operand (tuple component, call / method argument, struct field, binary operand,
//!          index, indexed store) rebinds a variable that an earlier pure operand mentions, the
//!          expression is refused (the term would read the new value).
//! C-LOST   where only the value of a sub-expression is exported - the right operand of `&&` /
//!          `||`, the argument of `debug_assert!`, match guards, closures of `any` / `map_or` /
//!          `take_while`, effect-free expressions, the condition of a rule 11 `while` - the
//!          sub-expression may not assign any variable (the update would be lost).
//! C-FORITER  no `break` of an enclosing loop from inside `for p in &mut it` (the advanced iterator
//!          only exists after the loop).
//!
//! Added after the second red-team round (the names above keep their meaning, with these changes:
//! C-ATTR: at most one `cfg` per statement / item (stacked ones are a conjunction the lowering would
//! not see); `allow` / `warn` / `deny` are harmless only for `clippy::*` and `unused_unsafe` (not
//! `overflowing_literals`, `non_upper_case_globals`, ..).  C-IMPL: associated constants / types /
//! macros of an impl block must be today's too (`Float` constants, `Output`, `Target`); trait items
//! other than functions and constants are refused.  C-LOCAL / C-PAT: constants and statics must be
//! upper-case everywhere; inside macro expansions the full constant-pattern test is applied.
//! C-MOD: lib.rs may only declare the modules it declares today; in the modules that are not read
//! EVERY impl block, type alias, macro definition and item-position macro must be one of today's
//! (`impl Drop for FPUControlWord`, `macro_rules! i`): an impl can hide behind an alias.)
//!
//! C-PIN    functions that are not translated but that translated code runs through must be, token
//!          for token, today's: `Deref::deref` / `DerefMut::deref_mut` of StackVec and HeapVec
//!          (behind `as_mut_ptr()`, `x[i] = e`, `iter_mut()`, `get_mut()`; `deref_mut` must also be
//!          `deref` up to mutability), their `PartialEq::eq`, `partial_cmp`, `Ord::cmp`,
//!          `MulAssign::mul_assign`, and `MulAssign` of Bigint.
//! C-PTRCAST  (rule 29) a pointer cast is the identity only to `*const` / `*mut` `[bigint::]Limb`;
//!          any other pointee, and `add` on a casted pointer, are refused.
//! C-CONST  the global constants resolved by name (SMALLEST_POWER_OF_FIVE, LARGEST_POWER_OF_FIVE,
//!          POWER_OF_FIVE_128, BASE10_POWERS, LIMB_BITS, LARGE_POW5, LARGE_POW5_STEP, BIGINT_LIMBS,
//!          BIGINT_BITS) may not be the name of any parameter, local, pattern variable or closure
//!          parameter in any file; `LIMB_BITS == 32` is only resolved statically (rule 14) when no
//!          binding of that name is in scope and the file is bigint.rs or imports it (slow.rs).
//!          `Self::C` is a Float constant only inside `trait Float`.
//! C-MACRO  (rule 20) only today's macros in today's files (none in lib.rs: exit 2); a macro with
//!          several rules must have them distinguished by their first tokens (`@word`; at most one
//!          rule without, starting with an `ident` fragment); matchers may contain only `@`, `,`,
//!          words and numbers besides fragments; invocation arguments only words, numbers, `as`, `,`
//!          and `@` (no `_`, no other punctuation, no groups); a use must come after the end of the
//!          definition.
//! C-OPTUPD a rule 15 value may not be a tuple component (nor, as before, be bound, discarded,
//!          wrapped or tested).
//! C-ANY    `it.any(..)` on an iterator VARIABLE is refused (`Iterator::any` advances it); it is
//!          `existsb` only on a temporary (`s.iter()..`).
//! C-MUTREF a `&mut` parameter (and `self`) is its pointee in the translation and its final value is
//!          returned under its name (rule 7): no binding of any kind may reuse its name, `p = ..`
//!          (without `*`) is refused, and `p` may only occur as the operand of `*`, `.field`, `[i]`,
//!          a method call, `&` or as a call argument - not be copied, moved, stored or returned.
//! C-LIT    an integer literal must fit its type (rustc wraps it under `#[allow(overflowing_literals)]`).
//! C-CARGO  `<src-dir>/../Cargo.toml`, when present, is read by the TOML-subset reader of
//!          manifest.rs (tables incl. quoted / dotted / array headers, bare / quoted / dotted keys,
//!          the four string forms, arrays, inline tables; all flattened to key paths, so `[lib]
//!          path`, `lib.path`, `["lib"] 'path'`, `lib = { path = .. }` are one entry) and held to a
//!          WHITELIST: top-level tables `[package]` and `[features]` only (no lib / bin / test /
//!          example / bench target, no dependency table of any kind - a dependency named `core` or
//!          `ptr` would change what the whitelisted imports mean -, no target / patch / replace /
//!          workspace / profile / lints / badges); `[package]`: `name = "minimal-lexical"`,
//!          `edition = "2018"`, `autoexamples = false`, and the descriptive keys authors categories
//!          description documentation keywords license readme repository version exclude (no
//!          `build`, `links`, `auto*`, `metadata`, ..); `[features]`: exactly `default = ["std"]` and
//!          `std compact alloc nightly lint verif = []`.  A key given twice, an unparsable manifest,
//!          `build.rs`, `.cargo/config[.toml]`, `rust-toolchain[.toml]` next to it: exit 2.
//! C-STALE  now also between the receiver of `map_or` and its default argument.
//!
//! C-NIGHTLY  rule 12 DROPS the statements under `#[cfg(feature = "nightly")]`, so they are pinned:
//!          the only accepted one is, token for token, `let _cw = set_precision::<F>();` in
//!          `Number::try_fast_path` (number.rs; with the whitelisted import of `set_precision` and
//!          fpu.rs still being `#![cfg(feature = "nightly")]`); a new or changed nightly-gated
//!          statement is exit 2 in number.rs / the declaration files, OMITTED elsewhere.
//! C-PIN32  rule 14 resolves `LIMB_BITS == 32` statically, so the 32-bit-limb code is dropped or
//!          never read, and that configuration cannot be built here: its text is pinned (table
//!          DROPPED32 of src/pins.rs): every `if LIMB_BITS == 32` branch and every match arm guarded
//!          by it (bigint.rs `from_u64`, `hi64`, `pow`; slow.rs `parse_mantissa`), the functions
//!          `u32_to_hi64_1/2/3`, the items under the not-64-bit `cfg` (`Limb`, `Wide`, `LIMB_BITS`,
//!          the 32-bit `LARGE_POW5`), the arms `@3` / `@nonzero3` of `hi!`.  Changed, missing or
//!          extra (a new `LIMB_BITS == 32` branch anywhere): bigint.rs / table_small.rs - everything
//!          built on the limb types is OMITTED; slow.rs - its functions are OMITTED.
//! C-PRIM   ("pinned primitives") the functions that the translation calls BY NAME with the meaning
//!          of a hand model (rule 10) are not translated, so their text - attributes (doc comments
//!          excepted), visibility, signature and body, as `quote!` prints them - must be, token for
//!          token, today's (table src/pins.rs; regenerate with `rs2coq --dump-pins <src-dir>` after
//!          a reviewed change): in num.rs `impl Float for f32` / `f64`: `pow_fast_path`, `from_u64`,
//!          `from_bits`, `to_bits` (no other method is allowed there: C-IMPL); `int_pow_fast_path`;
//!          the std `powf` / `powd` wrappers (the no-std variant is the whitelisted import from
//!          libm.rs); `enum FastPathRadix` and `impl From<FastPathRadix> for u64`; the hook
//!          `verif_int_pow_fast_path`.  Their meaning is model/Number.v (`pow_fast_path`,
//!          `int_pow_fast_path`), model/FloatOps.v (`f_from_u64`, `f_mul`, `f_div`, `f_neg`),
//!          model/Num.v (`from_bits`); their values on all reachable arguments are re-dumped from
//!          the compiled crate and checked by the properties C14 / C17.  Any difference: exit 2
//!          (the meaning of rule 10 would be unknown).  Already pinned elsewhere: `Number::default`
//!          is the derive (rule 14, C-IMPL), the field lists of `ExtendedFloat` / `Number` /
//!          `BellerophonPowers` (rule 9), `shl_limbs` (rule 23: tied at cell level by rule 28-30).
//!
//! Stage 12 (third red-team round):
//! C-TEXT   every comparison of source text with a table (the attribute / cfg whitelist, the
//!          statement cfgs of rules 12 / 21, `cfg_limb64`, the struct / signature checks, C-PIN,
//!          C-PRIM, C-PIN32, C-NIGHTLY, C-IMPL) is made on `check::text`: the tokens as `quote!`
//!          prints them, separated by single spaces, LITERALS VERBATIM.  White space between tokens
//!          is free; `feature = "comp act"`, `target_pointer_width = "6 4"` are not today's; `a && b`
//!          is not `a & &b`; `let ptr` is not `letptr`.  Table entries written as Rust are parsed and
//!          printed the same way (`check::canon`); the pins are regenerated by `--dump-pins`.
//! C-RAWID  no raw identifier (`r#Some` IS `Some` for rustc but not for a comparison by spelling)
//!          anywhere in a file that is read or scanned: items, bodies, attributes, macro tokens.
//! C-MACROTOK  the arguments of a macro invocation are token trees that the syn visitor does not
//!          look into, and an item is global wherever it is written (`matches!(x, 0 if { impl T {
//!          .. } true })`).  In every file that is read or scanned (unread modules, lenient
//!          front-ends), in target and non-target code, the tokens of every macro invocation and
//!          of every `macro_rules!` body (recursively through groups; `$name` / `$name:frag`
//!          excepted in bodies) may not contain `impl trait macro_rules mod use extern static const
//!          fn type struct enum union include include_str include_bytes asm global_asm`.  `asm!` /
//!          `global_asm!` / `include*!` invocations are refused by name; the two `asm!` of fpu.rs
//!          are pinned token for token.
//! C-NAME   also reserved (no item / type parameter / lenient import may be called so): the
//!          other prelude traits and types that whitelisted impls and derives mention by their bare
//!          name (`Eq PartialEq Ord PartialOrd Copy Default Debug Hash From Into TryFrom TryInto
//!          FromIterator IntoIterator DoubleEndedIterator ExactSizeIterator Extend Drop FnMut FnOnce
//!          Send Sync Sized Unpin ToOwned ToString AsRef AsMut Vec Box String drop alloc`); no
//!          `macro_rules!` may be called like a std macro (`matches assert* debug_assert* panic
//!          write* print* format* vec cfg include* ..`).  `SMALL_INT_POW5/10`, `SMALL_F32/64_POW10`
//!          have table_small.rs as their home.
//! C-DERIVE the attributes (doc comments excepted) of `StackVec`, `HeapVec`, `Bigint`,
//!          `ReverseView`, `Number`, `ExtendedFloat`, `BellerophonPowers` must be exactly today's
//!          derive lists (the derives are what `==`, `clone`, `default` mean).
//! C-USE    the other direction: every whitelisted import of a strict file must be PRESENT
//!          (`ptr::write` is core's because of `use core::{.., ptr, ..}`).
//! C-TABLE  table.rs consists of exactly today's three `#[cfg(..)] pub use crate::table_*::*;`
//!          (an item of its own would shadow a glob re-export under the pinned primitives): exit 2.
//! C-ATTR / C-MOD for the modules that are not read: every attribute must be a doc comment or one
//!          of today's, listed by (file, text); no `static`, no `extern` block; C-MACROTOK and
//!          C-RAWID apply.  In files that are read the only `static` is POWER_OF_FIVE_128.
//!          Front-end files (strict and lenient): no `trait` at all.
//!
//! Anything else (other statements, patterns, methods, macros, types, labelled blocks, `continue`,
//! …) is an error, and the translator fails closed
//! PER FUNCTION: a function that cannot be translated is omitted from the output (a comment
//! `(* OMITTED rs_<name>: <reason> *)` takes its place), and so are, transitively, the functions
//! that call it; each omission is reported on stderr, followed by `rs2coq: omitted: <names|none>`,
//! and the exit status is 0.  The equivalence proofs then fail to compile exactly where they
//! mention an omitted definition.  Exit 2 is reserved for problems that make the whole output
//! meaningless (a source file is missing or does not parse, or a struct / trait / table
//! declaration that the mapping of rules 9-10 relies on has changed).

mod check;
mod ctrl;
mod emit;
mod expr;
mod heap;
mod lower;
mod macros;
mod manifest;
mod pins;
mod raw;
mod ty;
mod vecs;

use emit::Emitter;
use lower::*;
use std::collections::HashMap;
use syn::spanned::Spanned;
use ty::*;

/// What to translate.  The order is the dependency order (a callee must come first).
#[derive(Clone, Copy)]
struct Target {
    /// index into OUT_FILES
    out: usize,
    file: &'static str,
    /// impl / trait owner or ""
    owner: &'static str,
    name: &'static str,
    /// rule 11: numeric fuel of the `while` loops (`rs_while`); 0 = none
    fuel: u32,
    /// rule 16: fuel expressions of the `while` / `loop`s, in source order
    fuels: &'static [&'static str],
    /// Gallina name when it is not `rs_<name>`
    coq: &'static str,
    /// path shown in the comment above the definition when it is not `file`
    shown: &'static str,
    /// rules 28-30: cell-level translation (`StackVec` / `VecType` = `raw`)
    raw: bool,
    /// rule 31: heapvec.rs over the std `Vec` primitives
    heap: bool,
}

const fn t(out: usize, file: &'static str, owner: &'static str, name: &'static str) -> Target {
    Target { out, file, owner, name, fuel: 0, fuels: &[], coq: "", shown: "", raw: false, heap: false }
}
const fn tf(out: usize, file: &'static str, name: &'static str, fuels: &'static [&'static str]) -> Target {
    Target { out, file, owner: "", name, fuel: 0, fuels, coq: "", shown: "", raw: false, heap: false }
}
const fn tn(out: usize, file: &'static str, owner: &'static str, name: &'static str, fuels: &'static [&'static str], coq: &'static str) -> Target {
    Target { out, file, owner, name, fuel: 0, fuels, coq, shown: "", raw: false, heap: false }
}

const OUT_FILES: [&str; 13] = [
    "Src.v",
    "SrcBigint.v",
    "SrcSlow.v",
    "SrcParse.v",
    "SrcFrontSimple.v",
    "SrcFrontFuzz.v",
    "SrcFrontTest.v",
    "SrcFrontEtc.v",
    "SrcStackVec.v",
    "SrcHeapVec.v",
    "SrcFrontRng.v",
    "SrcFrontRand.v",
    "SrcFrontUnit.v",
];

/// rule 31: gen/SrcHeapVec.v = the non-delegating functions of `impl HeapVec` (dependency order)
/// and its `Deref::deref`
const HEAP_FNS: [(&str, &str); 11] = [
    ("new", "rs_hv_new"),
    ("len", "rs_hv_len"),
    ("is_empty", "rs_hv_is_empty"),
    ("capacity", "rs_hv_capacity"),
    ("set_len", "rs_hv_set_len"),
    ("try_push", "rs_hv_try_push"),
    ("pop", "rs_hv_pop"),
    ("try_extend", "rs_hv_try_extend"),
    ("try_resize", "rs_hv_try_resize"),
    ("try_from", "rs_hv_try_from"),
    ("deref", "rs_hv_deref"),
];

/// rules 28-30: gen/SrcStackVec.v = the functions of `impl StackVec` (dependency order), its
/// `Deref::deref`, and the cell-level translation of `bigint::shl_limbs`
const RAW_FNS: [(&str, &str, &str, &str); 17] = [
    ("stackvec.rs", "StackVec", "new", "rs_sv_new"),
    ("stackvec.rs", "StackVec", "set_len", "rs_sv_set_len"),
    ("stackvec.rs", "StackVec", "len", "rs_sv_len"),
    ("stackvec.rs", "StackVec", "is_empty", "rs_sv_is_empty"),
    ("stackvec.rs", "StackVec", "capacity", "rs_sv_capacity"),
    ("stackvec.rs", "StackVec", "push_unchecked", "rs_sv_push_unchecked"),
    ("stackvec.rs", "StackVec", "try_push", "rs_sv_try_push"),
    ("stackvec.rs", "StackVec", "pop_unchecked", "rs_sv_pop_unchecked"),
    ("stackvec.rs", "StackVec", "pop", "rs_sv_pop"),
    ("stackvec.rs", "StackVec", "extend_unchecked", "rs_sv_extend_unchecked"),
    ("stackvec.rs", "StackVec", "try_extend", "rs_sv_try_extend"),
    ("stackvec.rs", "StackVec", "truncate_unchecked", "rs_sv_truncate_unchecked"),
    ("stackvec.rs", "StackVec", "resize_unchecked", "rs_sv_resize_unchecked"),
    ("stackvec.rs", "StackVec", "try_resize", "rs_sv_try_resize"),
    ("stackvec.rs", "StackVec", "try_from", "rs_sv_try_from"),
    ("stackvec.rs", "StackVec", "deref", "rs_sv_deref"),
    ("bigint.rs", "", "shl_limbs", "rs_sv_shl_limbs"),
];

/// rule 27: the shipped copies of the string front-end: (tag, path below the repository root)
/// (tag, path, output index, lenient pre-pass: only the parser helpers are guarded)
const FRONT: [(&str, &str, usize, bool); 7] = [
    ("simple", "examples/simple.rs", 4, false),
    ("fuzz", "fuzz/fuzz_targets/parse.rs", 5, false),
    ("test", "tests/integration_tests.rs", 6, false),
    ("etc", "etc/correctness/test-parse-golang/main.rs", 7, false),
    ("rng", "etc/correctness/rng-tests/_common.rs", 10, true),
    ("rand", "etc/correctness/test-parse-random/_common.rs", 11, true),
    ("unit", "etc/correctness/test-parse-unittests/main.rs", 12, true),
];
/// their functions (dependency order) with the fuel expressions of their loops
const FRONT_FNS: [(&str, &[&str]); 12] = [
    ("parse_sign", &[]),
    ("to_digit", &[]),
    ("add_digit_i32", &[]),
    ("sub_digit_i32", &[]),
    ("is_digit", &[]),
    ("split_at_index", &[]),
    ("consume_digits", &["S (length v_digits)"]),
    ("ltrim_zero", &[]),
    ("rtrim_zero", &[]),
    ("parse_exponent", &[]),
    ("case_insensitive_starts_with", &["S (length v_y)"]),
    ("parse_float", &[]),
];

const TARGETS: &[Target] = &[
    t(0, "mask.rs", "", "nth_bit"),
    t(0, "mask.rs", "", "lower_n_mask"),
    t(0, "mask.rs", "", "lower_n_halfway"),
    t(0, "num.rs", "Float", "is_denormal"),
    t(0, "num.rs", "Float", "exponent"),
    t(0, "num.rs", "Float", "mantissa"),
    t(0, "extended_float.rs", "", "extended_to_float"),
    t(0, "rounding.rs", "", "round_nearest_tie_even"),
    t(0, "rounding.rs", "", "round_down"),
    t(0, "rounding.rs", "", "round"),
    t(0, "number.rs", "Number", "is_fast_path"),
    t(0, "number.rs", "Number", "try_fast_path"),
    t(0, "lemire.rs", "", "power"),
    t(0, "lemire.rs", "", "full_multiplication"),
    t(0, "lemire.rs", "", "compute_product_approx"),
    t(0, "lemire.rs", "", "compute_error_scaled"),
    t(0, "lemire.rs", "", "compute_error"),
    t(0, "lemire.rs", "", "compute_float"),
    t(0, "lemire.rs", "", "lemire"),
    t(0, "bellerophon.rs", "", "error_scale"),
    t(0, "bellerophon.rs", "", "error_halfscale"),
    t(0, "bellerophon.rs", "", "normalize"),
    t(0, "bellerophon.rs", "", "mul"),
    t(0, "bellerophon.rs", "BellerophonPowers", "get_small"),
    t(0, "bellerophon.rs", "BellerophonPowers", "get_large"),
    t(0, "bellerophon.rs", "BellerophonPowers", "get_small_int"),
    t(0, "bellerophon.rs", "", "error_is_accurate"),
    t(0, "bellerophon.rs", "", "bellerophon"),
    t(0, "slow.rs", "", "b"),
    t(0, "slow.rs", "", "bh"),
    Target { out: 0, file: "slow.rs", owner: "", name: "scientific_exponent", fuel: 20, fuels: &[], coq: "", shown: "", raw: false, heap: false },
    // ---- gen/SrcBigint.v
    t(1, "bigint.rs", "", "scalar_add"),
    t(1, "bigint.rs", "", "scalar_mul"),
    t(1, "bigint.rs", "", "compare"),
    tn(1, "bigint.rs", "", "normalize", &["S (length (vl v_x))"], "rs_bigint_normalize"),
    t(1, "bigint.rs", "", "is_normalized"),
    t(1, "bigint.rs", "", "from_u64"),
    t(1, "bigint.rs", "", "nonzero"),
    t(1, "bigint.rs", "", "u64_to_hi64_1"),
    t(1, "bigint.rs", "", "u64_to_hi64_2"),
    tn(1, "bigint.rs", "ReverseView", "index", &[], "rs_rview_index"),
    t(1, "bigint.rs", "", "rview"),
    t(1, "bigint.rs", "", "hi64"),
    tf(1, "bigint.rs", "small_add_from", &["S (length (vl v_x))"]),
    t(1, "bigint.rs", "", "small_add"),
    t(1, "bigint.rs", "", "small_mul"),
    t(1, "bigint.rs", "", "large_add_from"),
    t(1, "bigint.rs", "", "large_add"),
    t(1, "bigint.rs", "", "long_mul"),
    t(1, "bigint.rs", "", "large_mul"),
    t(1, "bigint.rs", "", "shl_bits"),
    t(1, "bigint.rs", "", "shl"),
    t(1, "bigint.rs", "", "leading_zeros"),
    t(1, "bigint.rs", "", "bit_length"),
    tf(1, "bigint.rs", "pow", &["S (Z.to_nat (v_exp / LARGE_POW5_STEP T))", "S (Z.to_nat (v_exp / 27))"]),
    tn(1, "bigint.rs", "Bigint", "pow", &[], "rs_bigint_pow"),
    // ---- gen/SrcSlow.v
    tf(
        2,
        "slow.rs",
        "parse_mantissa",
        &["S (S (length v_integer))", "S (length v_integer)", "S (S (length v_fraction))", "S (length v_fraction)"],
    ),
    t(2, "slow.rs", "", "positive_digit_comp"),
    t(2, "slow.rs", "", "negative_digit_comp"),
    t(2, "slow.rs", "", "slow"),
    // ---- gen/SrcParse.v
    t(3, "parse.rs", "", "into_i32"),
    t(3, "parse.rs", "", "add_digit"),
    t(3, "parse.rs", "", "parse_number_fast"),
    tf(3, "parse.rs", "parse_number", &["S (length v_integer)"]),
    t(3, "parse.rs", "", "moderate_path"),
    t(3, "parse.rs", "", "parse_float"),
];

/// source files of the original targets (Src.v) and of the extension
const FILES_SRC: &[&str] =
    &["mask.rs", "num.rs", "extended_float.rs", "rounding.rs", "number.rs", "lemire.rs", "bellerophon.rs", "slow.rs", "table_lemire.rs"];
const FILES_EXT: &[&str] = &["bigint.rs", "stackvec.rs", "heapvec.rs", "parse.rs", "table_small.rs"];

fn fail(msg: String) -> ! {
    eprintln!("rs2coq: ERROR: {}", msg);
    std::process::exit(2)
}

fn parse_file(dir: &str, name: &str) -> syn::File {
    let path = format!("{}/{}", dir, name);
    let src = std::fs::read_to_string(&path).unwrap_or_else(|e| fail(format!("cannot read {}: {}", path, e)));
    syn::parse_file(&src).unwrap_or_else(|e| fail(format!("{}: parse error: {}", path, e)))
}

fn has_derive(attrs: &[syn::Attribute], what: &str) -> bool {
    attrs.iter().any(|a| {
        a.path().is_ident("derive")
            && a.meta.require_list().map(|l| l.tokens.to_string().split(',').any(|t| t.trim() == what)).unwrap_or(false)
    })
}

fn struct_fields<'a>(file: &'a syn::File, name: &str) -> Option<(Vec<(String, String)>, &'a syn::ItemStruct)> {
    for it in &file.items {
        if let syn::Item::Struct(s) = it {
            if s.ident == name {
                let got: Vec<(String, String)> = s
                    .fields
                    .iter()
                    .map(|f| {
                        let t = &f.ty;
                        (f.ident.as_ref().unwrap().to_string(), check::text(t))
                    })
                    .collect();
                return Some((got, s));
            }
        }
    }
    None
}

/// check a struct declaration against the field mapping hard-wired in `field_of`
fn check_struct(file: &syn::File, fname: &str, name: &str, fields: &[(&str, &str)], need_eq: bool) {
    match struct_fields(file, name) {
        Some((got, s)) => {
            let want: Vec<(String, String)> = fields.iter().map(|(a, b)| (a.to_string(), check::canon::<syn::Type>(b))).collect();
            if got != want {
                fail(format!("{}: struct {} is {:?}, the translator expects {:?}", fname, name, got, want));
            }
            if need_eq && !has_derive(&s.attrs, "PartialEq") {
                fail(format!("{}: struct {} no longer derives PartialEq", fname, name));
            }
        }
        None => fail(format!("{}: struct {} not found", fname, name)),
    }
}

/// `#[cfg(..)]` selecting the 64-bit limb: Some(true) = the 64-bit side, Some(false) = the other
/// side, None = no such attribute
fn cfg_limb64(attrs: &[syn::Attribute]) -> Option<bool> {
    const C64: &str = "all (target_pointer_width = \"64\" , not (target_arch = \"sparc\"))";
    for a in attrs {
        if a.path().is_ident("cfg") {
            if let Ok(l) = a.meta.require_list() {
                let s: String = l.tokens.to_string();
                if s == C64 {
                    return Some(true);
                }
                if s == format!("not ({})", C64) {
                    return Some(false);
                }
            }
        }
    }
    None
}

fn ty_str(t: &syn::Type) -> String {
    check::text(t)
}

fn expr_str(e: &syn::Expr) -> String {
    check::text(e)
}

/// rule 14: the declarations behind `Limb`, `Wide`, `LIMB_BITS`, `VecType`, `Bigint`, `ReverseView`
fn check_limb_decls(bigint: &syn::File) -> Result<(), String> {
    let mut limb = None;
    let mut wide = None;
    let mut bits = None;
    let mut vec_stack = false;
    let mut vec_heap = false;
    let cfg_str = |attrs: &[syn::Attribute]| -> String {
        attrs
            .iter()
            .filter(|a| a.path().is_ident("cfg"))
            .filter_map(|a| a.meta.require_list().ok().map(|l| l.tokens.to_string()))
            .collect::<Vec<_>>()
            .join(";")
    };
    for it in &bigint.items {
        match it {
            syn::Item::Type(t) if t.ident == "Limb" && cfg_limb64(&t.attrs) == Some(true) => limb = Some(ty_str(&t.ty)),
            syn::Item::Type(t) if t.ident == "Wide" && cfg_limb64(&t.attrs) == Some(true) => wide = Some(ty_str(&t.ty)),
            syn::Item::Const(c) if c.ident == "LIMB_BITS" && cfg_limb64(&c.attrs) == Some(true) => {
                bits = Some((ty_str(&c.ty), expr_str(&c.expr)))
            }
            syn::Item::Type(t) if t.ident == "VecType" => match (cfg_str(&t.attrs).as_str(), ty_str(&t.ty).as_str()) {
                ("not (feature = \"alloc\")", "StackVec") => vec_stack = true,
                ("feature = \"alloc\"", "HeapVec") => vec_heap = true,
                (c, t) => return Err(format!("bigint.rs: unexpected `type VecType = {}` under cfg({})", t, c)),
            },
            _ => {}
        }
    }
    if limb.as_deref() != Some("u64") || wide.as_deref() != Some("u128") {
        return Err("bigint.rs: the 64-bit configuration no longer declares `Limb = u64` / `Wide = u128`".into());
    }
    if bits != Some(("usize".to_string(), "64".to_string())) {
        return Err("bigint.rs: the 64-bit configuration no longer declares `LIMB_BITS: usize = 64`".into());
    }
    if !vec_stack || !vec_heap {
        return Err("bigint.rs: `VecType` is no longer `StackVec` / `HeapVec` selected by feature `alloc`".into());
    }
    match struct_fields(bigint, "Bigint") {
        Some((f, _)) if f == vec![("data".to_string(), "VecType".to_string())] => {}
        _ => return Err("bigint.rs: `struct Bigint` is no longer `{ data: VecType }`".into()),
    }
    match struct_fields(bigint, "ReverseView") {
        Some((f, _)) if f == vec![("inner".to_string(), check::canon::<syn::Type>("&'a [T]"))] => {}
        _ => return Err("bigint.rs: `struct ReverseView` is no longer `{ inner: &'a [T] }`".into()),
    }
    // `ReverseView<T>` is only built by `rview`, at `T = Limb`
    match find_fn(bigint, "", "rview") {
        Some((sig, _)) => {
            let ins: Vec<String> = sig
                .inputs
                .iter()
                .map(|a| match a {
                    syn::FnArg::Typed(pt) => ty_str(&pt.ty),
                    _ => "self".into(),
                })
                .collect();
            let out = match &sig.output {
                syn::ReturnType::Type(_, t) => ty_str(t),
                _ => String::new(),
            };
            if ins != vec![check::canon::<syn::Type>("&[Limb]")] || out != check::canon::<syn::Type>("ReverseView<Limb>") {
                return Err("bigint.rs: `rview` is no longer `fn(&[Limb]) -> ReverseView<Limb>`".into());
            }
        }
        None => return Err("bigint.rs: `rview` not found".into()),
    }
    Ok(())
}

fn find_fn<'a>(file: &'a syn::File, owner: &str, name: &str) -> Option<(&'a syn::Signature, &'a syn::Block)> {
    for it in &file.items {
        match it {
            syn::Item::Fn(f) if owner.is_empty() && f.sig.ident == name => return Some((&f.sig, &f.block)),
            syn::Item::Trait(t) if t.ident == owner => {
                for ti in &t.items {
                    if let syn::TraitItem::Fn(f) = ti {
                        if f.sig.ident == name {
                            return f.default.as_ref().map(|b| (&f.sig, b));
                        }
                    }
                }
            }
            // inherent impls, `impl ops::Index<usize> for ReverseView` (its `index`), and
            // `impl ops::Deref for StackVec` (its `deref`)
            syn::Item::Impl(im) if im.trait_.is_none() || (owner == "ReverseView" && name == "index") || is_deref_impl(im, owner, name) => {
                if let syn::Type::Path(p) = &*im.self_ty {
                    if p.path.segments.last().map(|s| s.ident == owner).unwrap_or(false) {
                        for ii in &im.items {
                            if let syn::ImplItem::Fn(f) = ii {
                                if f.sig.ident == name {
                                    return Some((&f.sig, &f.block));
                                }
                            }
                        }
                    }
                }
            }
            _ => {}
        }
    }
    None
}

fn is_deref_impl(im: &syn::ItemImpl, owner: &str, name: &str) -> bool {
    (owner == "StackVec" || owner == "HeapVec")
        && name == "deref"
        && im.trait_.as_ref().map(|(_, p, _)| check::text(p) == "ops :: Deref").unwrap_or(false)
}

/// C-CARGO: the manifest must not redirect what is compiled nor add anything to it: it is read with
/// the TOML-subset reader of manifest.rs and held to a whitelist (only `[package]` and `[features]`,
/// see `manifest::check`); no build script; no `.cargo/config[.toml]` / `rust-toolchain[.toml]` next
/// to it (a missing manifest, as in a bare copy of `src/`, redirects nothing)
fn check_cargo(dir: &str) -> Result<(), String> {
    let root = format!("{}/..", dir);
    for f in ["build.rs", ".cargo/config", ".cargo/config.toml", "rust-toolchain", "rust-toolchain.toml"] {
        if std::path::Path::new(&format!("{}/{}", root, f)).exists() {
            return Err(match f {
                "build.rs" => "a build script `build.rs` exists".to_string(),
                f => format!("`{}` exists next to the manifest (it can change how the crate is compiled)", f),
            });
        }
    }
    let path = format!("{}/Cargo.toml", root);
    if !std::path::Path::new(&path).exists() {
        return Ok(());
    }
    match std::fs::read_to_string(&path) {
        Ok(t) => manifest::check(&t),
        Err(e) => Err(format!("cannot read {}: {}", path, e)),
    }
}

/// how many definitions `find_fn` could have picked (more than one: refuse, rustc takes the one
/// whose `cfg` holds)
fn count_fn(file: &syn::File, owner: &str, name: &str) -> usize {
    let mut n = 0;
    for it in &file.items {
        match it {
            syn::Item::Fn(f) if owner.is_empty() && f.sig.ident == name => n += 1,
            syn::Item::Trait(t) if t.ident == owner => {
                n += t.items.iter().filter(|ti| matches!(ti, syn::TraitItem::Fn(f) if f.sig.ident == name)).count();
            }
            syn::Item::Impl(im) if im.trait_.is_none() || (owner == "ReverseView" && name == "index") || is_deref_impl(im, owner, name) => {
                if let syn::Type::Path(p) = &*im.self_ty {
                    if p.path.segments.last().map(|s| s.ident == owner).unwrap_or(false) {
                        n += im.items.iter().filter(|ii| matches!(ii, syn::ImplItem::Fn(f) if f.sig.ident == name)).count();
                    }
                }
            }
            _ => {}
        }
    }
    n
}

/// the names with a fixed meaning in the library files (check C-NAME / C-USE)
fn known_lib() -> check::Known {
    let mut k = check::Known::new();
    for t in TARGETS {
        if t.owner.is_empty() {
            k.define(t.name, t.file);
        }
    }
    for (n, f) in [
        ("int_pow_fast_path", "num.rs"),
        ("FastPathRadix", "num.rs"),
        ("Float", "num.rs"),
        ("ExtendedFloat", "extended_float.rs"),
        ("Number", "number.rs"),
        ("BellerophonPowers", "bellerophon.rs"),
        ("Limb", "bigint.rs"),
        ("Wide", "bigint.rs"),
        ("LIMB_BITS", "bigint.rs"),
        ("VecType", "bigint.rs"),
        ("Bigint", "bigint.rs"),
        ("ReverseView", "bigint.rs"),
        ("shl_limbs", "bigint.rs"),
        ("BIGINT_LIMBS", "bigint.rs"),
        ("StackVec", "stackvec.rs"),
        ("HeapVec", "heapvec.rs"),
        ("SMALLEST_POWER_OF_FIVE", "table_lemire.rs"),
        ("LARGEST_POWER_OF_FIVE", "table_lemire.rs"),
        ("POWER_OF_FIVE_128", "table_lemire.rs"),
        ("LARGE_POW5", "table_small.rs"),
        ("LARGE_POW5_STEP", "table_small.rs"),
        ("SMALL_INT_POW5", "table_small.rs"),
        ("SMALL_INT_POW10", "table_small.rs"),
        ("SMALL_F32_POW10", "table_small.rs"),
        ("SMALL_F64_POW10", "table_small.rs"),
    ] {
        k.define(n, f);
    }
    // defined in files that are not read (or in core): nobody may define them, only import them
    k.external("BASE10_POWERS", &["crate::table::BASE10_POWERS"]);
    k.external("bigint", &["crate::bigint"]);
    k.external("cmp", &["core::cmp"]);
    // rule 29: `ptr::write`, `slice::from_raw_parts`, `mem::MaybeUninit` are recognised by their path
    k.external("ptr", &["core::ptr"]);
    k.external("slice", &["core::slice"]);
    k.external("mem", &["core::mem"]);
    // rule 31: `Vec::with_capacity` and the `Vec` methods are std's
    k.external("Vec", &["std::vec::Vec", "alloc::vec::Vec"]);
    k.external("minimal_lexical", &[]);
    // the public re-exports of lib.rs
    k.import("Float", "self::num::Float");
    k.import("parse_float", "self::parse::parse_float");
    k
}

/// the names with a fixed meaning in one front-end file
fn known_front(fkey: &str) -> check::Known {
    let mut k = check::Known::new();
    for (n, _) in FRONT_FNS.iter() {
        k.home.entry(n.to_string()).or_default().push(fkey.to_string());
    }
    for n in ["minimal_lexical", "Float", "cmp"] {
        k.external(n, &[]);
    }
    k
}

/// generic parameters: `Cb: Fn(&mut ExtendedFloat, i32)` bounds → callback types,
/// `Iter: Iterator<Item = &'a u8> [+ Clone]` → a digit iterator (rule 14)
fn generic_types(sig: &syn::Signature) -> R<HashMap<String, Ty>> {
    let mut m = HashMap::new();
    let mut add = |name: String, bounds: &syn::punctuated::Punctuated<syn::TypeParamBound, syn::Token![+]>| -> R<()> {
        for b in bounds {
            if let syn::TypeParamBound::Trait(tb) = b {
                let seg = tb.path.segments.last().unwrap();
                let full: Vec<String> = tb.path.segments.iter().map(|s| s.ident.to_string()).collect();
                let full = full.join("::");
                if !matches!(full.as_str(), "Fn" | "Iterator" | "Clone" | "Float" | "minimal_lexical::Float") {
                    return err(tb.span(), format!("unsupported bound `{}`", full));
                }
                if seg.ident == "Fn" {
                    if let syn::PathArguments::Parenthesized(pa) = &seg.arguments {
                        let mut ps = vec![];
                        for i in &pa.inputs {
                            ps.push((conv_ty(i)?, is_mut_ref(i)));
                        }
                        let r = match &pa.output {
                            syn::ReturnType::Default => Ty::Unit,
                            syn::ReturnType::Type(_, t) => conv_ty(t)?,
                        };
                        m.insert(name.clone(), Ty::Fun(ps, Box::new(r)));
                    }
                } else if seg.ident == "Iterator" {
                    let args: String = check::text(seg);
                    let ok = match args.strip_prefix("Iterator < Item = & '").and_then(|r| r.strip_suffix(" u8 >")) {
                        Some(lt) => !lt.is_empty() && lt.chars().all(|c| c.is_ascii_lowercase()),
                        None => false,
                    };
                    if !ok {
                        return err(tb.span(), format!("unsupported iterator bound `{}`", args));
                    }
                    m.insert(name.clone(), Ty::Seq(Box::new(Ty::Int(IntTy::U8))));
                } else if seg.ident != "Float" && seg.ident != "Clone" {
                    return err(tb.span(), format!("unsupported bound `{}`", seg.ident));
                }
            }
        }
        Ok(())
    };
    for gp in &sig.generics.params {
        match gp {
            syn::GenericParam::Type(tp) => add(tp.ident.to_string(), &tp.bounds)?,
            syn::GenericParam::Lifetime(_) => {}
            _ => return err(gp.span(), "unsupported generic parameter"),
        }
    }
    if let Some(w) = &sig.generics.where_clause {
        for p in &w.predicates {
            if let syn::WherePredicate::Type(pt) = p {
                if let syn::Type::Path(tp) = &pt.bounded_ty {
                    if let Some(id) = tp.path.get_ident() {
                        add(id.to_string(), &pt.bounds)?;
                    }
                }
            }
        }
    }
    Ok(m)
}

fn translate(g: &Globals, tg: &Target, sig: &syn::Signature, body: &syn::Block) -> R<(FnInfo, String)> {
    let owner = tg.owner;
    let name = sig.ident.to_string();
    let mut cx = Cx::new(g);
    cx.tparams = generic_types(sig)?;
    cx.float_param = sig.generics.params.iter().any(|gp| matches!(gp, syn::GenericParam::Type(tp) if tp.ident == "F"));
    cx.loop_fuel = tg.fuel;
    cx.fuels = tg.fuels.iter().map(|s| s.to_string()).collect();
    cx.file = tg.file.to_string();
    cx.self_kind = if owner.is_empty() { None } else { Some(owner.to_string()) };
    cx.raw_mode = tg.raw;
    cx.heap_mode = tg.heap;
    if tg.heap {
        // rule 31: every definition of gen/SrcHeapVec.v takes `L`
        cx.needs.l = true;
        if let Err(m) = &g.heapvec_ok {
            return err(sig.span(), m);
        }
    }
    if tg.raw {
        // rule 28: every definition of gen/SrcStackVec.v takes `L`
        cx.needs.l = true;
        if let Err(m) = &g.stackvec_ok {
            return err(sig.span(), m);
        }
    }
    let mut params: Vec<(Ty, bool)> = vec![];
    let mut self_param: Option<(Ty, bool)> = None;
    let mut binders: Vec<String> = vec![];
    for inp in &sig.inputs {
        match inp {
            syn::FnArg::Receiver(r) => {
                let mutref = r.mutability.is_some() && r.reference.is_some();
                let ty = match owner {
                    "Float" => Ty::Float,
                    "Number" => Ty::Num,
                    "Bigint" => Ty::Big,
                    "ReverseView" => Ty::RView,
                    "StackVec" if tg.raw => Ty::Raw,
                    "HeapVec" if tg.heap => Ty::Hv,
                    "BellerophonPowers" => continue, // `self` is the constant BASE10_POWERS = BT
                    _ => return err(r.span(), "`self` in an unknown impl"),
                };
                if mutref && ty != Ty::Big && ty != Ty::Raw && ty != Ty::Hv {
                    return err(r.span(), "`&mut self` is unsupported");
                }
                if matches!(ty, Ty::Big | Ty::RView) {
                    if let Err(m) = &g.limb_ok {
                        return err(r.span(), m);
                    }
                }
                if owner == "Float" {
                    cx.needs.f = true;
                }
                cx.scopes[0].insert("self".into(), Var::plain(ty.clone(), mutref, vname("self")));
                if mutref {
                    cx.mut_params.push("self".into());
                }
                binders.push(format!("(v_self : {})", ty.coq()));
                self_param = Some((ty, mutref));
            }
            syn::FnArg::Typed(pt) => {
                let id = match &*pt.pat {
                    syn::Pat::Ident(pi) if pi.by_ref.is_none() && pi.subpat.is_none() => pi.ident.to_string(),
                    p => return err(p.span(), "unsupported parameter pattern"),
                };
                if check::GLOBAL_CONSTS.contains(&id.as_str()) {
                    return err(pt.span(), format!("the parameter `{}` is spelled like a global constant that is resolved by name", id));
                }
                let mutref = is_mut_ref(&pt.ty);
                let ty = cx.conv_ty(&pt.ty)?;
                if ty == Ty::Float {
                    cx.needs.f = true;
                }
                cx.scopes[0].insert(id.clone(), Var::plain(ty.clone(), mutref, vname(&id)));
                if mutref {
                    cx.mut_params.push(id.clone());
                }
                binders.push(format!("({} : {})", vname(&id), ty.coq()));
                params.push((ty, mutref));
            }
        }
    }
    let ret = match &sig.output {
        syn::ReturnType::Default => Ty::Unit,
        // raw mode (rule 28): `Option<()>` is a flag next to the (always returned) state
        syn::ReturnType::Type(_, t) if (tg.raw || tg.heap) && check::text(t) == check::canon::<syn::Type>("Option<()>") => Ty::Flag,
        syn::ReturnType::Type(_, t) => cx.conv_ty(t)?,
    };
    if ret == Ty::Float {
        cx.needs.f = true;
    }
    if !tg.raw && !tg.heap && matches!(ret, Ty::Opt(_)) && ret != Ty::Opt(Box::new(Ty::Unit)) && !cx.mut_params.is_empty() {
        return err(sig.span(), "a function with `&mut` parameters returning `Option<T>`, T other than `()`");
    }
    cx.ret_ty = ret.clone();
    // the body is lowered in the parameter scope (Rust allows `let x = …` to shadow a parameter)
    let v = cx.lower_stmts(&body.stmts, Some(&ret))?;
    // rule 31: `&self.data` returned as a slice
    let v = if tg.heap { cx.coerce(v, &ret) } else { v };
    if !v.never {
        if !cx.ret_compatible(&v, &ret) {
            return err(body.span(), format!("body has type {} but the function returns {}", v.ty, ret));
        }
        let t = cx.ret_term(&v);
        cx.push(emit::S::Ret(t));
    }
    if cx.fuel_ix != cx.fuels.len() {
        return err(body.span(), format!("the target table gives {} fuel expressions but the function has {} `while` / `loop`s", cx.fuels.len(), cx.fuel_ix));
    }
    let mut em = Emitter::new();
    let text = cx.finish(&mut em, 2);
    if let Some(e) = em.errors.first() {
        return Err(e.clone());
    }
    let mut all = params.clone();
    if let Some(sp) = &self_param {
        all.insert(0, sp.clone());
    }
    let res_ty = fun_result(&all, &ret);
    let coq_name = if tg.coq.is_empty() { format!("rs_{}", name) } else { tg.coq.to_string() };
    let needs = cx.needs;
    let def = format!(
        "Definition {} {}{}{} : outcome {} :=\n{}.\n",
        coq_name,
        needs.binders(),
        if binders.is_empty() { "" } else { " " },
        binders.join(" "),
        res_ty.coq(),
        text
    );
    Ok((FnInfo { coq_name, needs, params, ret, self_param }, def))
}

const GENERATED: &str = "(* GENERATED by tools/rs2coq from the Rust source (see tools/rs2coq/src/main.rs for the\n   translation rules).  DO NOT EDIT; regenerate with tools/rs2coq/run.sh. *)\n";

fn prelude() -> String {
    let mut s = String::new();
    s.push_str(GENERATED);
    s.push_str("From Coq Require Import ZArith List Bool.\n");
    s.push_str("From ML Require Import base.RustSem model.Fmt model.FloatOps model.Num model.Number.\n");
    s.push_str("Import ListNotations.\nOpen Scope Z_scope.\nOpen Scope rust_scope.\n\n");
    s.push_str("(** ** operator instances that base/RustSem.v does not name *)\n");
    for t in IntTy::ALL {
        let n = t.name();
        let w = t.bits();
        let core = if t.signed() { "sop" } else { "uop" };
        let mut def = |op: &str, body: String| {
            let name = format!("{}_{}", n, op);
            if !RUSTSEM_HAS.contains(&name.as_str()) {
                s.push_str(&format!("Definition {} (b : build) {} := {}.\n", name, if op == "neg" { "(x : Z)" } else { "(x y : Z)" }, body));
            }
        };
        def("add", format!("{} b {} (x + y)", core, w));
        def("sub", format!("{} b {} (x - y)", core, w));
        def("mul", format!("{} b {} (x * y)", core, w));
        if t.signed() {
            def("neg", format!("{} b {} (- x)", core, w));
            def("shr", format!("shr_s b {} x y", w));
            def(
                "div",
                format!("if y =? 0 then Panic PkOverflow else if (x =? - 2 ^ {}) && (y =? -1) then Panic PkOverflow else Ok (Z.quot x y)", w - 1),
            );
            def(
                "rem",
                format!("if y =? 0 then Panic PkOverflow else if (x =? - 2 ^ {}) && (y =? -1) then Panic PkOverflow else Ok (Z.rem x y)", w - 1),
            );
        } else {
            def("shl", format!("shl_u b {} x y", w));
            def("shr", format!("shr_u b {} x y", w));
            def("div", "if y =? 0 then Panic PkOverflow else Ok (x / y)".to_string());
            def("rem", "if y =? 0 then Panic PkOverflow else Ok (x mod y)".to_string());
        }
    }
    s.push_str("Definition as_u128 (x : Z) := wrapu 128 x.\n");
    s.push_str("Definition u64_saturating_add (x y : Z) : Z := Z.min u64_max (x + y).\n");
    s.push_str("(** `#[derive(PartialEq)]` on ExtendedFloat: field-wise comparison *)\n");
    s.push_str("Definition ext_derived_eqb (x y : extfloat) : bool := (mant x =? mant y) && (exp x =? exp y).\n");
    s.push_str("(** `while` with fuel *)\n");
    s.push_str("Fixpoint rs_while {A : Type} (fuel : nat) (cond : A -> outcome bool) (body : A -> outcome A) (s : A)\n    : outcome A :=\n  c <- cond s ;;\n  if c then\n    match fuel with\n    | O => Panic PkFuel\n    | S fuel' => s' <- body s ;; rs_while fuel' cond body s'\n    end\n  else Ok s.\n\n");
    s
}

/// header of gen/SrcBigint.v, gen/SrcSlow.v, gen/SrcParse.v, gen/SrcFront*.v
fn prelude_ext(out: usize) -> String {
    let mut s = String::new();
    s.push_str(GENERATED);
    s.push_str("From Coq Require Import ZArith List Bool.\n");
    match out {
        1 => s.push_str("From ML Require Import base.RustSem model.Fmt model.Vec model.Number model.SrcLib gen.Src.\n"),
        2 => s.push_str(
            "From ML Require Import base.RustSem model.Fmt model.FloatOps model.Num model.Number model.Vec model.SrcLib\n  gen.Src gen.SrcBigint.\n",
        ),
        3 => s.push_str(
            "From ML Require Import base.RustSem model.Fmt model.FloatOps model.Num model.Number model.Vec model.SrcLib\n  gen.Src gen.SrcBigint gen.SrcSlow.\n",
        ),
        8 => s.push_str("From ML Require Import base.RustSem model.Fmt model.Vec model.Bigint model.RawVec model.SrcLib model.SrcLibRaw.\n"),
        9 => s.push_str("From ML Require Import base.RustSem model.Fmt model.Vec model.SrcLib model.SrcLibHeap.\n"),
        _ => s.push_str(
            "From ML Require Import base.RustSem model.Fmt model.FloatOps model.Num model.Number model.Vec model.SrcLib\n  model.SrcLibFront gen.Src gen.SrcBigint gen.SrcSlow gen.SrcParse.\n",
        ),
    }
    s.push_str("Import ListNotations.\nOpen Scope Z_scope.\nOpen Scope rust_scope.\n\n");
    if out == 8 {
        s.push_str("(** ** `u16` arithmetic of the `length` field (this file does not import gen/Src.v) *)\n");
        s.push_str("Definition u16_add (b : build) (x y : Z) := uop b 16 (x + y).\n");
        s.push_str("Definition u16_sub (b : build) (x y : Z) := uop b 16 (x - y).\n\n");
    }
    s
}

/// the delegating methods of the two vector back-ends (they must agree) and of `impl Bigint`
fn collect_delegations(files: &HashMap<String, syn::File>, g: &mut Globals) {
    use vecs::{deleg_of, Deleg};
    let methods = |file: &syn::File, owner: &str, vec_like: bool| -> HashMap<String, Result<Deleg, String>> {
        let mut m = HashMap::new();
        for it in &file.items {
            if let syn::Item::Impl(im) = it {
                let is_owner = matches!(&*im.self_ty, syn::Type::Path(p) if p.path.is_ident(owner));
                let ok_trait = match &im.trait_ {
                    None => true,
                    Some((_, p, _)) => p.segments.last().map(|s| s.ident == "Ord").unwrap_or(false),
                };
                if is_owner && ok_trait {
                    for ii in &im.items {
                        if let syn::ImplItem::Fn(f) = ii {
                            let self_ty = if vec_like { Ty::Vec } else { Ty::Big };
                            // an inherent method beats the trait method of the same name: the two
                            // tables must not overlap (and no name may occur twice)
                            if m.contains_key(&f.sig.ident.to_string()) {
                                m.insert(f.sig.ident.to_string(), Err("defined more than once (inherent / `Ord` / repeated impl)".to_string()));
                                continue;
                            }
                            let d = deleg_of(&f.sig, &f.block, vec_like).map(|mut d| {
                                d.ret = match &f.sig.output {
                                    syn::ReturnType::Default => Some(Ty::Unit),
                                    syn::ReturnType::Type(_, t) => conv_ty_in(t, &self_ty, false).ok(),
                                };
                                d
                            });
                            m.insert(f.sig.ident.to_string(), d);
                        }
                    }
                }
            }
        }
        m
    };
    let st = methods(&files["stackvec.rs"], "StackVec", true);
    let hp = methods(&files["heapvec.rs"], "HeapVec", true);
    for (name, a) in &st {
        let r = match (a, hp.get(name)) {
            (Ok(x), Some(Ok(y))) => {
                if x.body.show() == y.body.show() && x.self_mut == y.self_mut && x.nparams == y.nparams {
                    Ok(x.clone())
                } else {
                    Err(format!("stackvec.rs delegates to `{}` but heapvec.rs to `{}`", x.body.show(), y.body.show()))
                }
            }
            (Err(e), _) => Err(format!("stackvec.rs: {}", e)),
            (_, Some(Err(e))) => Err(format!("heapvec.rs: {}", e)),
            (_, None) => Err("not defined in heapvec.rs".to_string()),
        };
        g.deleg.insert(format!("VecType::{}", name), r);
    }
    for (name, d) in methods(&files["bigint.rs"], "Bigint", false) {
        g.deleg.insert(format!("Bigint::{}", name), d);
    }
}

fn main() {
    let args: Vec<String> = std::env::args().collect();
    if args.len() < 2 {
        fail("usage: rs2coq <src-dir> [<out-dir> | only-function ...]".into());
    }
    if args[1] == "--dump-pins" && args.len() == 3 {
        // maintenance: print the pinnable texts of num.rs (to regenerate src/pins.rs)
        let f = parse_file(&args[2], "num.rs");
        println!("pub const PRIMITIVES: &[(&str, &str, &str, &str)] = &[");
        for (o, n, t) in check::pinnable(&f) {
            println!("    (\"num.rs\", {:?}, {:?}, {:?}),", o, n, t);
        }
        println!("];\n\npub const DROPPED32: &[(&str, &str, &str)] = &[");
        for name in ["bigint.rs", "slow.rs", "table_small.rs"] {
            let f = parse_file(&args[2], name);
            for (k, t) in check::dropped32(&f) {
                println!("    ({:?}, {:?}, {:?}),", name, k, t);
            }
        }
        println!("];");
        return;
    }
    let dir = &args[1];
    // `rs2coq <src-dir> <out-dir>`: all four files; `rs2coq <src-dir>`: gen/Src.v on stdout
    let out_dir: Option<&String> = if args.len() == 3 && std::path::Path::new(&args[2]).is_dir() { Some(&args[2]) } else { None };
    let ext = out_dir.is_some();
    let mut files: HashMap<String, syn::File> = HashMap::new();
    for n in FILES_SRC {
        files.insert(n.to_string(), parse_file(dir, n));
    }
    if ext {
        for n in FILES_EXT {
            files.insert(n.to_string(), parse_file(dir, n));
        }
    }
    // ---- the pre-pass: checks that make the translation fail closed (check.rs).  A problem in
    // lib.rs / table.rs or in a file that holds declarations of rules 9-10 makes the whole output
    // meaningless (exit 2); a problem in another file omits the functions of that file (and, through
    // `limb_ok`, everything built on the vector types for bigint.rs / stackvec.rs / heapvec.rs /
    // table_small.rs).
    if let Err(e) = check_cargo(dir) {
        fail(e);
    }
    let known = known_lib();
    let mut file_problems: HashMap<String, String> = HashMap::new();
    {
        let lib = parse_file(dir, "lib.rs");
        let table = parse_file(dir, "table.rs");
        let mut modules: Vec<&str> = FILES_SRC.iter().map(|f| f.trim_end_matches(".rs")).collect();
        modules.push("table");
        if ext {
            modules.extend(FILES_EXT.iter().map(|f| f.trim_end_matches(".rs")));
        }
        let mut p = check::check_file("lib.rs", &lib, &known);
        p.extend(check::check_modules(&lib, &modules));
        // the modules that are not read may not contain impls for the mapped types
        for m in check::declared_modules(&lib) {
            // C-MOD: no module that is not known today
            if !check::KNOWN_MODULES.contains(&m.as_str()) {
                fail(format!("lib.rs: unknown module `mod {};` (its items are not checked)", m));
            }
            if modules.contains(&m.as_str()) {
                continue;
            }
            let f = parse_file(dir, &format!("{}.rs", m));
            if FILES_EXT.contains(&format!("{}.rs", m).as_str()) {
                // `rs2coq <src-dir>` (Src.v only) does not translate these files, but an impl in
                // them can still change what a method of a shared type means: same pre-pass
                if let Some(e) = check::check_file(&format!("{}.rs", m), &f, &known).first() {
                    fail(format!("{}.rs: {}", m, e));
                }
            } else if let Some(e) = check::check_unread(&format!("{}.rs", m), &f).first() {
                fail(format!("{}.rs: {}", m, e));
            }
        }
        if let Some(e) = p.first() {
            fail(format!("lib.rs: {}", e));
        }
        if let Some(e) = check::check_file("table.rs", &table, &known).first() {
            fail(format!("table.rs: {}", e));
        }
        if let Some(e) = check::check_table_rs(&table).first() {
            fail(e.clone());
        }
        let mut names: Vec<&String> = files.keys().collect();
        names.sort();
        for name in names {
            let mut p = check::check_file(name, &files[name], &known);
            p.extend(check::check_pinned_primitives(name, &files[name]));
            p.extend(check::check_dropped32(name, &files[name]));
            if let Some(e) = p.first() {
                if matches!(name.as_str(), "num.rs" | "extended_float.rs" | "number.rs" | "bellerophon.rs" | "table_lemire.rs") {
                    fail(format!("{}: {}", name, e));
                }
                eprintln!("rs2coq: {}: {} (the functions of this file are omitted)", name, e);
                file_problems.insert(name.clone(), e.clone());
            }
        }
    }
    // ---- declarations the translation relies on
    check_struct(&files["extended_float.rs"], "extended_float.rs", "ExtendedFloat", &[("mant", "u64"), ("exp", "i32")], true);
    check_struct(
        &files["number.rs"],
        "number.rs",
        "Number",
        &[("exponent", "i32"), ("mantissa", "u64"), ("many_digits", "bool")],
        false,
    );
    check_struct(
        &files["bellerophon.rs"],
        "bellerophon.rs",
        "BellerophonPowers",
        &[
            ("small", "&'static[u64]"),
            ("large", "&'static[u64]"),
            ("small_int", "&'static[u64]"),
            ("step", "i32"),
            ("bias", "i32"),
            ("log2", "i64"),
            ("log2_shift", "i32"),
        ],
        false,
    );
    let mut g = Globals {
        float_consts: HashMap::new(),
        fns: HashMap::new(),
        consts: HashMap::new(),
        omitted: Default::default(),
        macros: HashMap::new(),
        deleg: HashMap::new(),
        limb_ok: Err("the extension (rules 14-23) is not active in this run".into()),
        number_default: struct_fields(&files["number.rs"], "Number").map(|(_, s)| has_derive(&s.attrs, "Default")).unwrap_or(false),
        shl_limbs_ok: false,
        export_parse_float: false,
        stackvec_ok: Err("the cell-level translation (rules 28-30) is not active in this run".into()),
        heapvec_ok: Err("the translation of heapvec.rs (rule 31) is not active in this run".into()),
        value_names: files.iter().map(|(n, f)| (n.clone(), check::value_names(f))).collect(),
    };
    for it in &files["num.rs"].items {
        if let syn::Item::Trait(t) = it {
            if t.ident == "Float" {
                for ti in &t.items {
                    if let syn::TraitItem::Const(c) = ti {
                        match conv_ty(&c.ty) {
                            Ok(Ty::Int(i)) => {
                                g.float_consts.insert(c.ident.to_string(), i);
                            }
                            _ => fail(format!("num.rs: constant Float::{} has an unsupported type", c.ident)),
                        }
                    }
                }
            }
        }
    }
    if g.float_consts.is_empty() {
        fail("num.rs: trait Float not found".into());
    }
    let tneeds = Needs { c: false, t: true, bt: false, l: false, f: false };
    for (name, want) in [
        ("SMALLEST_POWER_OF_FIVE", Ty::Int(IntTy::I32)),
        ("LARGEST_POWER_OF_FIVE", Ty::Int(IntTy::I32)),
        ("POWER_OF_FIVE_128", Ty::Table2),
    ] {
        let mut found = false;
        for it in &files["table_lemire.rs"].items {
            let (id, ty) = match it {
                syn::Item::Const(c) => (c.ident.to_string(), &*c.ty),
                syn::Item::Static(c) => (c.ident.to_string(), &*c.ty),
                _ => continue,
            };
            if id == name {
                match conv_ty(ty) {
                    Ok(t) if t == want => found = true,
                    _ => fail(format!("table_lemire.rs: {} does not have the expected type {}", name, want)),
                }
            }
        }
        if !found {
            fail(format!("table_lemire.rs: {} not found", name));
        }
        g.consts.insert(name.to_string(), GConst { ty: want, term: format!("({} T)", name), needs: tneeds });
    }
    g.consts.insert(
        "BASE10_POWERS".into(),
        GConst { ty: Ty::Powers, term: "BT".into(), needs: Needs { c: false, t: false, bt: true, l: false, f: false } },
    );
    if ext {
        // rules 14, 20, 21, 22: what the extension relies on.  A declaration that changed does not
        // invalidate Src.v: the functions that depend on it are omitted instead.
        g.limb_ok = check_limb_decls(&files["bigint.rs"]);
        for f in ["bigint.rs", "stackvec.rs", "heapvec.rs", "table_small.rs"] {
            if let Some(e) = file_problems.get(f) {
                g.limb_ok = Err(format!("{}: {}", f, e));
            }
        }
        if let Err(e) = &g.limb_ok {
            eprintln!("rs2coq: {}", e);
        }
        if g.limb_ok.is_ok() {
            g.consts.insert("LIMB_BITS".into(), GConst { ty: Ty::Int(IntTy::Usize), term: "64".into(), needs: Needs::default() });
        }
        g.stackvec_ok = match struct_fields(&files["stackvec.rs"], "StackVec") {
            Some((f, _))
                if f == vec![
                    ("data".to_string(), check::canon::<syn::Type>("[mem::MaybeUninit<bigint::Limb>; bigint::BIGINT_LIMBS]")),
                    ("length".to_string(), "u16".to_string()),
                ] =>
            {
                g.limb_ok.clone()
            }
            _ => Err("stackvec.rs: `struct StackVec` is no longer `{ data: [mem::MaybeUninit<bigint::Limb>; bigint::BIGINT_LIMBS], length: u16 }`".into()),
        };
        g.heapvec_ok = match struct_fields(&files["heapvec.rs"], "HeapVec") {
            Some((f, _)) if f == vec![("data".to_string(), check::canon::<syn::Type>("Vec<bigint::Limb>"))] => g.limb_ok.clone(),
            _ => Err("heapvec.rs: `struct HeapVec` is no longer `{ data: Vec<bigint::Limb> }`".into()),
        };
        g.shl_limbs_ok = match find_fn(&files["bigint.rs"], "", "shl_limbs") {
            Some((sig, _)) => {
                check::text(sig) == check::canon::<syn::Signature>("fn shl_limbs(x: &mut VecType, n: usize) -> Option<()>")
            }
            None => false,
        };
        // LARGE_POW5 (the 64-bit one) and LARGE_POW5_STEP are fields of `T`
        for it in &files["table_small.rs"].items {
            if let syn::Item::Const(c) = it {
                let ok = match c.ident.to_string().as_str() {
                    "LARGE_POW5" => cfg_limb64(&c.attrs) == Some(true) && conv_ty(&c.ty).ok() == Some(Ty::Table),
                    "LARGE_POW5_STEP" => cfg_limb64(&c.attrs).is_none() && conv_ty(&c.ty).ok() == Some(Ty::Int(IntTy::U32)),
                    _ => false,
                };
                if ok {
                    let ty = if c.ident == "LARGE_POW5" { Ty::Table } else { Ty::Int(IntTy::U32) };
                    g.consts.insert(c.ident.to_string(), GConst { ty, term: format!("({} T)", c.ident), needs: tneeds });
                }
            }
        }
        for (fname, file) in &files {
            let mut m = HashMap::new();
            let mut dup: Vec<String> = vec![];
            for it in &file.items {
                if let syn::Item::Macro(im) = it {
                    if im.mac.path.is_ident("macro_rules") {
                        match macros::parse_macro_rules(im) {
                            Ok((n, d)) => {
                                if m.insert(n.clone(), d).is_some() {
                                    // rustc uses the textually preceding definition
                                    dup.push(n);
                                }
                            }
                            Err(e) => eprintln!("rs2coq: {}: {} (its uses will not be translated)", fname, e),
                        }
                    }
                }
            }
            for n in dup {
                m.remove(&n);
            }
            g.macros.insert(fname.clone(), m);
        }
        collect_delegations(&files, &mut g);
    }

    // ---- translate (keep going: a function that cannot be translated is omitted, and so are,
    // transitively, its callers; the proofs then fail exactly where they mention it)
    let only: Vec<String> = if ext { vec![] } else { args[2..].to_vec() };
    let mut outs: Vec<String> = vec![prelude()];
    for i in 1..OUT_FILES.len() {
        outs.push(prelude_ext(i));
    }
    let mut omitted: Vec<String> = vec![];
    // rule 27: the string front-ends, below `<src-dir>/..`.  A missing / unparsable file or an
    // untranslatable function only affects that front-end's output file.
    let mut targets: Vec<Target> = TARGETS.iter().map(|t| Target { ..*t }).collect();
    if ext {
        for (file, owner, name, coq) in RAW_FNS.iter() {
            targets.push(Target { out: 8, file, owner, name, fuel: 0, fuels: &[], coq, shown: "", raw: true, heap: false });
        }
        for (name, coq) in HEAP_FNS.iter() {
            targets.push(Target { out: 9, file: "heapvec.rs", owner: "HeapVec", name, fuel: 0, fuels: &[], coq, shown: "", raw: false, heap: true });
        }
    }
    if ext {
        // `minimal_lexical::parse_float` is parse.rs's `parse_float`
        if let Ok(src) = std::fs::read_to_string(format!("{}/lib.rs", dir)) {
            if let Ok(f) = syn::parse_file(&src) {
                g.export_parse_float = f.items.iter().any(|it| match it {
                    syn::Item::Use(u) if matches!(u.vis, syn::Visibility::Public(_)) => {
                        let t = &u.tree;
                        check::text(t) == "self :: parse :: parse_float"
                    }
                    _ => false,
                });
            }
        }
        for (tag, rel, out, lenient) in FRONT.iter() {
            let out = *out;
            let fkey: &'static str = Box::leak(format!("front_{}", tag).into_boxed_str());
            let path = format!("{}/../{}", dir, rel);
            let parsed = std::fs::read_to_string(&path)
                .map_err(|e| format!("cannot read {}: {}", path, e))
                .and_then(|src| syn::parse_file(&src).map_err(|e| format!("{}: parse error: {}", path, e)));
            // the pre-pass, with the front-end's own names
            let names: Vec<&str> = FRONT_FNS.iter().map(|(n, _)| *n).collect();
            let mode = if *lenient { Some(names.as_slice()) } else { None };
            let parsed = parsed.and_then(|f| match check::check_file_mode(fkey, &f, &known_front(fkey), mode).first() {
                Some(e) => Err(format!("{}: {}", rel, e)),
                None => Ok(f),
            });
            match parsed {
                Ok(f) => {
                    for (name, fuels) in FRONT_FNS.iter() {
                        // a helper that this copy does not have is simply absent; `parse_float` is required
                        if find_fn(&f, "", name).is_none() && *name != "parse_float" {
                            continue;
                        }
                        let coq: &'static str = Box::leak(format!("rs_{}_{}", tag, name).into_boxed_str());
                        targets.push(Target { out, file: fkey, owner: "", name, fuel: 0, fuels, coq, shown: rel, raw: false, heap: false });
                    }
                    files.insert(fkey.to_string(), f);
                }
                Err(e) => {
                    let reason = e.replace("(*", "( *").replace("*)", "* )").replace('\n', " ");
                    eprintln!("rs2coq: OMITTED {}: {}", fkey, reason);
                    outs[out].push_str(&format!("(* OMITTED {}: {} *)\n\n", fkey, reason));
                    omitted.push(fkey.to_string());
                }
            }
        }
    }
    for tg in targets.iter() {
        if !ext && tg.out != 0 {
            continue;
        }
        let (file, owner, name) = (tg.file, tg.owner, tg.name);
        if !only.is_empty() && !only.contains(&name.to_string()) {
            continue;
        }
        let key = if owner.is_empty() { name.to_string() } else { format!("{}::{}", owner, name) };
        let table_key = if owner.is_empty() { format!("{}:{}", if tg.raw { "raw.rs" } else { file }, name) } else { key.clone() };
        let res = match find_fn(&files[file], owner, name) {
            _ if file_problems.contains_key(file) => Err(file_problems[file].clone()),
            Some(_) if count_fn(&files[file], owner, name) != 1 => Err("the function is defined more than once".to_string()),
            Some((sig, body)) => translate(&g, tg, sig, body),
            None => Err("function not found in the source file".to_string()),
        };
        let out = &mut outs[tg.out];
        match res {
            Ok((fi, def)) => {
                out.push_str(&format!("(** {} : `{}` *)\n", if tg.shown.is_empty() { file } else { tg.shown }, key));
                out.push_str(&def);
                out.push('\n');
                g.fns.insert(table_key, fi);
            }
            Err(e) => {
                let reason = format!("{}: {}", if tg.shown.is_empty() { file } else { tg.shown }, e).replace("(*", "( *").replace("*)", "* )").replace('\n', " ");
                let cname = if tg.coq.is_empty() { format!("rs_{}", name) } else { tg.coq.to_string() };
                eprintln!("rs2coq: OMITTED {}: {}", cname, reason);
                out.push_str(&format!("(* OMITTED {}: {} *)\n\n", cname, reason));
                g.omitted.insert(table_key);
                omitted.push(if tg.coq.is_empty() { name.to_string() } else { tg.coq.trim_start_matches("rs_").to_string() });
            }
        }
    }
    if omitted.is_empty() {
        eprintln!("rs2coq: omitted: none");
    } else {
        eprintln!("rs2coq: omitted: {}", omitted.join(" "));
    }
    match out_dir {
        None => print!("{}", outs[0]),
        Some(d) => {
            for (i, f) in OUT_FILES.iter().enumerate() {
                let path = format!("{}/{}", d, f);
                if let Err(e) = std::fs::write(&path, &outs[i]) {
                    fail(format!("cannot write {}: {}", path, e));
                }
            }
        }
    }
}
