//! rs2coq — regenerate Gallina definitions for the arithmetic core of minimal-lexical directly
//! from the Rust source (parsed with `syn`), to be proved equal to the hand-written model
//! (/verif/coq/model/*.v) in /verif/coq/proofs/SrcEquiv*.v.
//!
//! Usage:  rs2coq <src-dir>      (prints gen/Src.v on stdout; see run.sh)
//!
//! # TRANSLATION RULES (this program is part of the trusted base; the rules are deliberately dumb)
//!
//! Target language: the outcome monad of base/RustSem.v (`Ok | Panic | UB`, `bind`), values are
//! `Z` with the width kept in the operator name; `b : build` carries `ovf` / `dbg`.
//!
//!  1. Every translated Rust function `name` becomes `Definition rs_name [c] [T] [BT] [f] b args :
//!     outcome R`.  `c : config`, `T : tables`, `BT : btables` (= the constant `BASE10_POWERS`),
//!     `f : format` (= the type parameter `F: Float` / `Self`) are present iff used (transitively).
//!     Locals are named `v_<rust name>`, temporaries `t<n>`, join points `k<n>`.  Rust shadowing
//!     and assignment both become Gallina shadowing (`let v_x := … in`): that is the SSA renaming.
//!  2. `+ - * / %  << >>` and unary `-` on a fixed-width integer become `<ty>_<op> b x y`
//!     (`u64_add`, `i32_sub`, `u64_shl`, `i32_neg`, `u128_mul`, `i32_div`, …: checked operators;
//!     the ones missing in RustSem.v are defined in the prelude of Src.v from `uop/sop/shl_u/shr_u/
//!     shr_s`; `/` and `%` panic on a zero divisor and, signed, on `MIN / -1`).  Operands are
//!     evaluated left to right, each effectful sub-expression is bound (`t <- op ;;`) before the
//!     operator that uses it.  Compound assignment `x op= e` evaluates `e` first (primitive types).
//!     A negated integer literal `-27` is the literal `(-27)`.  The operator width is the operand
//!     type found by the type inference (parameter / local / field / constant types, literal
//!     suffixes, casts, method results; unsuffixed literals take the type of the other operand,
//!     then the expected type, then `i32`).  usize is 64 bits.
//!  3. Pure: comparisons (`a > b` is `(b <? a)`, `a >= b` is `(b <=? a)`, `!=` is `negb (=?)`),
//!     `& | ^` (`Z.land/lor/lxor`), `!` (`negb`; on u64 `u64_not`), `as` casts (`as_<ty> x`;
//!     identity when source and target type agree; `bool as int` is `if c then 1 else 0`),
//!     `wrapping_* / overflowing_* / saturating_* / checked_*` (`<ty>_<method> x y`),
//!     `leading_zeros` on u64 (`lz64`), `min/max` (`Z.min/Z.max`), `.len()` of a table (`zlen`),
//!     tuples, `.0/.1` (`fst/snd`), `Some/None`, `==`/`!=` on ExtendedFloat (`ext_derived_eqb`,
//!     field-wise, justified by `#[derive(PartialEq)]`, which is checked).
//!  4. `a && b` / `a || b`: pure when `b` is effect-free, else `t <- (if a then <b> else Ok false)`.
//!  5. `debug_assert!(c)` is `debug_assert b c ;;;`; if `c` has effects they are executed under
//!     `if dbg b` only.  Other macros are refused.
//!  6. `if/else`, `match` on `bool` and on `(x, true|false)`: (a) both branches pure and nothing
//!     assigned: a Gallina `if`; (b) no `return` inside: `'(outs) <- (if c then … Ok outs else …
//!     Ok outs) ;;` where `outs` are the outer variables assigned in a branch (sorted by name)
//!     followed by the value of the `if`; (c) one branch always returns: the rest of the block is
//!     appended to the other branch; (d) otherwise the rest of the block becomes a join point
//!     `let k := fun outs => rest in`.  `return e` / the final expression is `Ok e`.
//!     `e?` on an Option is `match e with None => Ok None | Some t => rest end`.
//!  7. `&mut T` parameters: the function returns the updated values (in parameter order) followed
//!     by its Rust result (omitted when `()`), as a tuple.  A call `g(&mut x, a)` is
//!     `'(v_x, t) <- rs_g b v_x a ;;`.  `&T` is `T`.  Field assignment on `ExtendedFloat` rebuilds
//!     the record (`mkExt new (exp v_x)`).
//!  8. Callbacks (`Cb: Fn(..)`) are Gallina function arguments: monadic iff they take a `&mut`
//!     parameter, otherwise pure (the closure body must then be effect-free).
//!  9. Structs: `ExtendedFloat {mant, exp}` = `mkExt`/`mant`/`exp`; `Number {exponent, mantissa,
//!     many_digits}` = `nexp`/`nmant`/`many`; `BellerophonPowers` fields = `BELL_* BT` (the struct
//!     declarations in the source are checked against this mapping).  `F::NAME` = `NAME f` with
//!     the type declared in `trait Float`.  Module constants SMALLEST_POWER_OF_FIVE,
//!     LARGEST_POWER_OF_FIVE, POWER_OF_FIVE_128 = fields of `T` (declared types checked).
//!     `TABLE[i]` = `index_checked(2) TABLE i`.
//! 10. Primitives (given, not translated): `F::from_bits x` = `from_bits f b x` (model/Num.v),
//!     `x.to_bits()` = `x` (floats are bit patterns), `F::from_u64 x` = `f_from_u64 f x`,
//!     float `*` `/` = `f_mul f` / `f_div f` (model/FloatOps.v), `F::pow_fast_path k` =
//!     `pow_fast_path c T f k`, `int_pow_fast_path(k, FastPathRadix::Ten|Five)` =
//!     `int_pow_fast_path c T b k true|false` (model/Number.v).
//! 11. `while c { body }` (only in functions given a fuel in the target list) is
//!     `rs_while fuel (fun vars => c) (fun vars => body) vars` (prelude; `Panic PkFuel` when the
//!     fuel runs out), `vars` = the outer variables assigned in the body.
//! 12. Statements under `#[cfg(feature = "nightly")]` are dropped (no verified configuration
//!     enables it).  `unsafe { e }` is `e`.
//! 13. `u64::MAX`, `i32::MIN`, `u32::BITS`, … and `<int>::max_value()` / `min_value()` are the literal
//!     values (of that integer type; `BITS` is a `u32`).
//! Anything else (other statements, patterns, methods, macros, types, nested shadowing of an
//! outer variable, labelled blocks, `loop`, `for`, …) is an error, and the translator fails closed
//! PER FUNCTION: a function that cannot be translated is omitted from the output (a comment
//! `(* OMITTED rs_<name>: <reason> *)` takes its place), and so are, transitively, the functions
//! that call it; each omission is reported on stderr, followed by `rs2coq: omitted: <names|none>`,
//! and the exit status is 0.  The equivalence proofs then fail to compile exactly where they
//! mention an omitted definition.  Exit 2 is reserved for problems that make the whole output
//! meaningless (a source file is missing or does not parse, or a struct / trait / table
//! declaration that the mapping of rules 9-10 relies on has changed).

mod emit;
mod expr;
mod lower;
mod ty;

use emit::Emitter;
use lower::*;
use std::collections::HashMap;
use syn::spanned::Spanned;
use ty::*;

/// What to translate: (file, impl/trait owner or "", function, loop fuel).  The order is the
/// dependency order (a callee must come first).
const TARGETS: &[(&str, &str, &str, u32)] = &[
    ("mask.rs", "", "nth_bit", 0),
    ("mask.rs", "", "lower_n_mask", 0),
    ("mask.rs", "", "lower_n_halfway", 0),
    ("num.rs", "Float", "is_denormal", 0),
    ("num.rs", "Float", "exponent", 0),
    ("num.rs", "Float", "mantissa", 0),
    ("extended_float.rs", "", "extended_to_float", 0),
    ("rounding.rs", "", "round_nearest_tie_even", 0),
    ("rounding.rs", "", "round_down", 0),
    ("rounding.rs", "", "round", 0),
    ("number.rs", "Number", "is_fast_path", 0),
    ("number.rs", "Number", "try_fast_path", 0),
    ("lemire.rs", "", "power", 0),
    ("lemire.rs", "", "full_multiplication", 0),
    ("lemire.rs", "", "compute_product_approx", 0),
    ("lemire.rs", "", "compute_error_scaled", 0),
    ("lemire.rs", "", "compute_error", 0),
    ("lemire.rs", "", "compute_float", 0),
    ("lemire.rs", "", "lemire", 0),
    ("bellerophon.rs", "", "error_scale", 0),
    ("bellerophon.rs", "", "error_halfscale", 0),
    ("bellerophon.rs", "", "normalize", 0),
    ("bellerophon.rs", "", "mul", 0),
    ("bellerophon.rs", "BellerophonPowers", "get_small", 0),
    ("bellerophon.rs", "BellerophonPowers", "get_large", 0),
    ("bellerophon.rs", "BellerophonPowers", "get_small_int", 0),
    ("bellerophon.rs", "", "error_is_accurate", 0),
    ("bellerophon.rs", "", "bellerophon", 0),
    ("slow.rs", "", "b", 0),
    ("slow.rs", "", "bh", 0),
    ("slow.rs", "", "scientific_exponent", 20),
];

fn fail(msg: String) -> ! {
    eprintln!("rs2coq: ERROR: {}", msg);
    std::process::exit(2)
}

fn parse_file(dir: &str, name: &str) -> syn::File {
    let path = format!("{}/{}", dir, name);
    let src = std::fs::read_to_string(&path).unwrap_or_else(|e| fail(format!("cannot read {}: {}", path, e)));
    syn::parse_file(&src).unwrap_or_else(|e| fail(format!("{}: parse error: {}", path, e)))
}

fn has_derive(attrs: &[syn::Attribute], what: &str) -> bool {
    attrs.iter().any(|a| {
        a.path().is_ident("derive")
            && a.meta.require_list().map(|l| l.tokens.to_string().split(',').any(|t| t.trim() == what)).unwrap_or(false)
    })
}

/// check a struct declaration against the field mapping hard-wired in `field_of`
fn check_struct(file: &syn::File, fname: &str, name: &str, fields: &[(&str, &str)], need_eq: bool) {
    for it in &file.items {
        if let syn::Item::Struct(s) = it {
            if s.ident == name {
                let got: Vec<(String, String)> = s
                    .fields
                    .iter()
                    .map(|f| {
                        let t = &f.ty;
                        (f.ident.as_ref().unwrap().to_string(), quote::quote!(#t).to_string().replace(' ', ""))
                    })
                    .collect();
                let want: Vec<(String, String)> = fields.iter().map(|(a, b)| (a.to_string(), b.to_string())).collect();
                if got != want {
                    fail(format!("{}: struct {} is {:?}, the translator expects {:?}", fname, name, got, want));
                }
                if need_eq && !has_derive(&s.attrs, "PartialEq") {
                    fail(format!("{}: struct {} no longer derives PartialEq", fname, name));
                }
                return;
            }
        }
    }
    fail(format!("{}: struct {} not found", fname, name));
}

fn find_fn<'a>(file: &'a syn::File, owner: &str, name: &str) -> Option<(&'a syn::Signature, &'a syn::Block)> {
    for it in &file.items {
        match it {
            syn::Item::Fn(f) if owner.is_empty() && f.sig.ident == name => return Some((&f.sig, &f.block)),
            syn::Item::Trait(t) if t.ident == owner => {
                for ti in &t.items {
                    if let syn::TraitItem::Fn(f) = ti {
                        if f.sig.ident == name {
                            return f.default.as_ref().map(|b| (&f.sig, b));
                        }
                    }
                }
            }
            syn::Item::Impl(im) if im.trait_.is_none() => {
                if let syn::Type::Path(p) = &*im.self_ty {
                    if p.path.is_ident(owner) {
                        for ii in &im.items {
                            if let syn::ImplItem::Fn(f) = ii {
                                if f.sig.ident == name {
                                    return Some((&f.sig, &f.block));
                                }
                            }
                        }
                    }
                }
            }
            _ => {}
        }
    }
    None
}

/// `Cb: Fn(&mut ExtendedFloat, i32)` bounds → callback types
fn callback_types(sig: &syn::Signature) -> R<HashMap<String, Ty>> {
    let mut m = HashMap::new();
    let mut add = |name: String, bounds: &syn::punctuated::Punctuated<syn::TypeParamBound, syn::Token![+]>| -> R<()> {
        for b in bounds {
            if let syn::TypeParamBound::Trait(tb) = b {
                let seg = tb.path.segments.last().unwrap();
                if seg.ident == "Fn" {
                    if let syn::PathArguments::Parenthesized(pa) = &seg.arguments {
                        let mut ps = vec![];
                        for i in &pa.inputs {
                            ps.push((conv_ty(i)?, is_mut_ref(i)));
                        }
                        let r = match &pa.output {
                            syn::ReturnType::Default => Ty::Unit,
                            syn::ReturnType::Type(_, t) => conv_ty(t)?,
                        };
                        m.insert(name.clone(), Ty::Fun(ps, Box::new(r)));
                    }
                } else if seg.ident != "Float" {
                    return err(tb.span(), format!("unsupported bound `{}`", seg.ident));
                }
            }
        }
        Ok(())
    };
    for gp in &sig.generics.params {
        match gp {
            syn::GenericParam::Type(tp) => add(tp.ident.to_string(), &tp.bounds)?,
            syn::GenericParam::Lifetime(_) => {}
            _ => return err(gp.span(), "unsupported generic parameter"),
        }
    }
    if let Some(w) = &sig.generics.where_clause {
        for p in &w.predicates {
            if let syn::WherePredicate::Type(pt) = p {
                if let syn::Type::Path(tp) = &pt.bounded_ty {
                    if let Some(id) = tp.path.get_ident() {
                        add(id.to_string(), &pt.bounds)?;
                    }
                }
            }
        }
    }
    Ok(m)
}

fn translate(g: &Globals, owner: &str, sig: &syn::Signature, body: &syn::Block, fuel: u32) -> R<(FnInfo, String)> {
    let name = sig.ident.to_string();
    let cbs = callback_types(sig)?;
    let mut cx = Cx::new(g);
    cx.loop_fuel = fuel;
    cx.self_kind = if owner.is_empty() { None } else { Some(owner.to_string()) };
    let mut params: Vec<(Ty, bool)> = vec![];
    let mut binders: Vec<String> = vec![];
    for inp in &sig.inputs {
        match inp {
            syn::FnArg::Receiver(r) => {
                if r.mutability.is_some() && r.reference.is_some() {
                    return err(r.span(), "`&mut self` is unsupported");
                }
                let ty = match owner {
                    "Float" => Ty::Float,
                    "Number" => Ty::Num,
                    "BellerophonPowers" => continue, // `self` is the constant BASE10_POWERS = BT
                    _ => return err(r.span(), "`self` in an unknown impl"),
                };
                if owner == "Float" {
                    cx.needs.f = true;
                }
                cx.scopes[0].insert("self".into(), Var { ty: ty.clone(), mutref: false });
                binders.push(format!("(v_self : {})", ty.coq()));
            }
            syn::FnArg::Typed(pt) => {
                let id = match &*pt.pat {
                    syn::Pat::Ident(pi) if pi.by_ref.is_none() && pi.subpat.is_none() => pi.ident.to_string(),
                    p => return err(p.span(), "unsupported parameter pattern"),
                };
                let mutref = is_mut_ref(&pt.ty);
                let ty = match &*pt.ty {
                    syn::Type::Path(p) if p.path.get_ident().map(|i| cbs.contains_key(&i.to_string())).unwrap_or(false) => {
                        cbs[&p.path.get_ident().unwrap().to_string()].clone()
                    }
                    t => conv_ty(t)?,
                };
                if ty == Ty::Float {
                    cx.needs.f = true;
                }
                cx.scopes[0].insert(id.clone(), Var { ty: ty.clone(), mutref });
                if mutref {
                    cx.mut_params.push(id.clone());
                }
                binders.push(format!("({} : {})", vname(&id), ty.coq()));
                params.push((ty, mutref));
            }
        }
    }
    let ret = match &sig.output {
        syn::ReturnType::Default => Ty::Unit,
        syn::ReturnType::Type(_, t) => conv_ty(t)?,
    };
    if ret == Ty::Float {
        cx.needs.f = true;
    }
    cx.ret_ty = ret.clone();
    // the body is lowered in the parameter scope (Rust allows `let x = …` to shadow a parameter)
    let v = cx.lower_stmts(&body.stmts, Some(&ret))?;
    if !v.never {
        if v.ty != ret {
            return err(body.span(), format!("body has type {} but the function returns {}", v.ty, ret));
        }
        let t = cx.ret_term(&v);
        cx.push(emit::S::Ret(t));
    }
    let mut em = Emitter::new();
    let text = cx.finish(&mut em, 2);
    if let Some(e) = em.errors.first() {
        return Err(e.clone());
    }
    let res_ty = fun_result(&params, &ret);
    let coq_name = format!("rs_{}", name);
    let needs = cx.needs;
    let def = format!(
        "Definition {} {}{}{} : outcome {} :=\n{}.\n",
        coq_name,
        needs.binders(),
        if binders.is_empty() { "" } else { " " },
        binders.join(" "),
        res_ty.coq(),
        text
    );
    Ok((FnInfo { coq_name, needs, params, ret }, def))
}

fn prelude() -> String {
    let mut s = String::new();
    s.push_str("(* GENERATED by tools/rs2coq from the Rust source (see tools/rs2coq/src/main.rs for the\n   translation rules).  DO NOT EDIT; regenerate with tools/rs2coq/run.sh. *)\n");
    s.push_str("From Coq Require Import ZArith List Bool.\n");
    s.push_str("From ML Require Import base.RustSem model.Fmt model.FloatOps model.Num model.Number.\n");
    s.push_str("Import ListNotations.\nOpen Scope Z_scope.\nOpen Scope rust_scope.\n\n");
    s.push_str("(** ** operator instances that base/RustSem.v does not name *)\n");
    for t in IntTy::ALL {
        let n = t.name();
        let w = t.bits();
        let core = if t.signed() { "sop" } else { "uop" };
        let mut def = |op: &str, body: String| {
            let name = format!("{}_{}", n, op);
            if !RUSTSEM_HAS.contains(&name.as_str()) {
                s.push_str(&format!("Definition {} (b : build) {} := {}.\n", name, if op == "neg" { "(x : Z)" } else { "(x y : Z)" }, body));
            }
        };
        def("add", format!("{} b {} (x + y)", core, w));
        def("sub", format!("{} b {} (x - y)", core, w));
        def("mul", format!("{} b {} (x * y)", core, w));
        if t.signed() {
            def("neg", format!("{} b {} (- x)", core, w));
            def("shr", format!("shr_s b {} x y", w));
            def(
                "div",
                format!("if y =? 0 then Panic PkOverflow else if (x =? - 2 ^ {}) && (y =? -1) then Panic PkOverflow else Ok (Z.quot x y)", w - 1),
            );
            def(
                "rem",
                format!("if y =? 0 then Panic PkOverflow else if (x =? - 2 ^ {}) && (y =? -1) then Panic PkOverflow else Ok (Z.rem x y)", w - 1),
            );
        } else {
            def("shl", format!("shl_u b {} x y", w));
            def("shr", format!("shr_u b {} x y", w));
            def("div", "if y =? 0 then Panic PkOverflow else Ok (x / y)".to_string());
            def("rem", "if y =? 0 then Panic PkOverflow else Ok (x mod y)".to_string());
        }
    }
    s.push_str("Definition as_u128 (x : Z) := wrapu 128 x.\n");
    s.push_str("Definition u64_saturating_add (x y : Z) : Z := Z.min u64_max (x + y).\n");
    s.push_str("(** `#[derive(PartialEq)]` on ExtendedFloat: field-wise comparison *)\n");
    s.push_str("Definition ext_derived_eqb (x y : extfloat) : bool := (mant x =? mant y) && (exp x =? exp y).\n");
    s.push_str("(** `while` with fuel *)\n");
    s.push_str("Fixpoint rs_while {A : Type} (fuel : nat) (cond : A -> outcome bool) (body : A -> outcome A) (s : A)\n    : outcome A :=\n  c <- cond s ;;\n  if c then\n    match fuel with\n    | O => Panic PkFuel\n    | S fuel' => s' <- body s ;; rs_while fuel' cond body s'\n    end\n  else Ok s.\n\n");
    s
}

fn main() {
    let args: Vec<String> = std::env::args().collect();
    if args.len() < 2 {
        fail("usage: rs2coq <src-dir> [only-function ...]".into());
    }
    let dir = &args[1];
    let mut files: HashMap<String, syn::File> = HashMap::new();
    for n in ["mask.rs", "num.rs", "extended_float.rs", "rounding.rs", "number.rs", "lemire.rs", "bellerophon.rs", "slow.rs", "table_lemire.rs"] {
        files.insert(n.to_string(), parse_file(dir, n));
    }
    // ---- declarations the translation relies on
    check_struct(&files["extended_float.rs"], "extended_float.rs", "ExtendedFloat", &[("mant", "u64"), ("exp", "i32")], true);
    check_struct(
        &files["number.rs"],
        "number.rs",
        "Number",
        &[("exponent", "i32"), ("mantissa", "u64"), ("many_digits", "bool")],
        false,
    );
    check_struct(
        &files["bellerophon.rs"],
        "bellerophon.rs",
        "BellerophonPowers",
        &[
            ("small", "&'static[u64]"),
            ("large", "&'static[u64]"),
            ("small_int", "&'static[u64]"),
            ("step", "i32"),
            ("bias", "i32"),
            ("log2", "i64"),
            ("log2_shift", "i32"),
        ],
        false,
    );
    let mut g = Globals {
        float_consts: HashMap::new(),
        fns: HashMap::new(),
        consts: HashMap::new(),
        omitted: Default::default(),
    };
    for it in &files["num.rs"].items {
        if let syn::Item::Trait(t) = it {
            if t.ident == "Float" {
                for ti in &t.items {
                    if let syn::TraitItem::Const(c) = ti {
                        match conv_ty(&c.ty) {
                            Ok(Ty::Int(i)) => {
                                g.float_consts.insert(c.ident.to_string(), i);
                            }
                            _ => fail(format!("num.rs: constant Float::{} has an unsupported type", c.ident)),
                        }
                    }
                }
            }
        }
    }
    if g.float_consts.is_empty() {
        fail("num.rs: trait Float not found".into());
    }
    let tneeds = Needs { c: false, t: true, bt: false, f: false };
    for (name, want) in [
        ("SMALLEST_POWER_OF_FIVE", Ty::Int(IntTy::I32)),
        ("LARGEST_POWER_OF_FIVE", Ty::Int(IntTy::I32)),
        ("POWER_OF_FIVE_128", Ty::Table2),
    ] {
        let mut found = false;
        for it in &files["table_lemire.rs"].items {
            let (id, ty) = match it {
                syn::Item::Const(c) => (c.ident.to_string(), &*c.ty),
                syn::Item::Static(c) => (c.ident.to_string(), &*c.ty),
                _ => continue,
            };
            if id == name {
                match conv_ty(ty) {
                    Ok(t) if t == want => found = true,
                    _ => fail(format!("table_lemire.rs: {} does not have the expected type {}", name, want)),
                }
            }
        }
        if !found {
            fail(format!("table_lemire.rs: {} not found", name));
        }
        g.consts.insert(name.to_string(), GConst { ty: want, term: format!("({} T)", name), needs: tneeds });
    }
    g.consts.insert(
        "BASE10_POWERS".into(),
        GConst { ty: Ty::Powers, term: "BT".into(), needs: Needs { c: false, t: false, bt: true, f: false } },
    );

    // ---- translate (keep going: a function that cannot be translated is omitted, and so are,
    // transitively, its callers; the proofs then fail exactly where they mention it)
    let only: Vec<String> = args[2..].to_vec();
    let mut out = prelude();
    let mut omitted: Vec<String> = vec![];
    for (file, owner, name, fuel) in TARGETS {
        if !only.is_empty() && !only.contains(&name.to_string()) {
            continue;
        }
        let key = if owner.is_empty() { name.to_string() } else { format!("{}::{}", owner, name) };
        let res = match find_fn(&files[*file], owner, name) {
            Some((sig, body)) => translate(&g, owner, sig, body, *fuel),
            None => Err("function not found in the source file".to_string()),
        };
        match res {
            Ok((fi, def)) => {
                out.push_str(&format!("(** {} : `{}` *)\n", file, key));
                out.push_str(&def);
                out.push('\n');
                g.fns.insert(key, fi);
            }
            Err(e) => {
                let reason = format!("{}: {}", file, e).replace("(*", "( *").replace("*)", "* )").replace('\n', " ");
                eprintln!("rs2coq: OMITTED rs_{}: {}", name, reason);
                out.push_str(&format!("(* OMITTED rs_{}: {} *)\n\n", name, reason));
                g.omitted.insert(key);
                omitted.push(name.to_string());
            }
        }
    }
    if omitted.is_empty() {
        eprintln!("rs2coq: omitted: none");
    } else {
        eprintln!("rs2coq: omitted: {}", omitted.join(" "));
    }
    print!("{}", out);
}
