//! C-CARGO: a reader for the subset of TOML that a Cargo manifest uses, and the whitelist that the
//! manifest of the translated crate must satisfy.
//!
//! The reader knows: comments; `[table]` and `[[array-of-tables]]` headers; keys that are bare,
//! "basic" or 'literal' strings, joined by dots (`lib.path`, `"lib".'path'`); values that are
//! strings (basic / literal / the two multi-line forms), bare scalars (booleans, numbers, dates),
//! arrays (over several lines) and inline tables.  Everything is flattened into entries
//! `(path of keys, value)`, so `[lib] path = ".."`, `lib.path = ".."`, `["lib"] 'path' = ".."` and
//! `lib = { path = ".." }` are the same entry.  Anything the reader does not understand is an
//! error (exit 2): the manifest is then not known to say what the whitelist allows.

#[derive(Clone, Debug, PartialEq)]
pub enum Value {
    Str(String),
    /// a boolean / number / date, as written
    Bare(String),
    Arr(Vec<Value>),
    /// an inline table
    Table(Vec<(Vec<String>, Value)>),
}

struct P<'a> {
    s: &'a [char],
    i: usize,
    line: usize,
}

type R<T> = Result<T, String>;

impl<'a> P<'a> {
    fn err<T>(&self, msg: &str) -> R<T> {
        Err(format!("Cargo.toml line {}: {}", self.line, msg))
    }
    fn peek(&self) -> Option<char> {
        self.s.get(self.i).copied()
    }
    fn starts(&self, t: &str) -> bool {
        let t: Vec<char> = t.chars().collect();
        self.s.len() >= self.i + t.len() && self.s[self.i..self.i + t.len()] == t[..]
    }
    fn bump(&mut self) -> Option<char> {
        let c = self.peek();
        if let Some(ch) = c {
            self.i += 1;
            if ch == '\n' {
                self.line += 1;
            }
        }
        c
    }
    /// blanks and tabs
    fn ws(&mut self) {
        while matches!(self.peek(), Some(' ') | Some('\t')) {
            self.i += 1;
        }
    }
    /// blanks, newlines and comments
    fn ws_nl(&mut self) {
        loop {
            match self.peek() {
                Some(' ') | Some('\t') | Some('\r') | Some('\n') => {
                    self.bump();
                }
                Some('#') => self.comment(),
                _ => return,
            }
        }
    }
    fn comment(&mut self) {
        while let Some(c) = self.peek() {
            if c == '\n' {
                return;
            }
            self.i += 1;
        }
    }
    /// the rest of a line after a header / key-value pair: blanks, an optional comment, newline / end
    fn eol(&mut self) -> R<()> {
        self.ws();
        if self.peek() == Some('#') {
            self.comment();
        }
        if self.peek() == Some('\r') {
            self.i += 1;
        }
        match self.peek() {
            None => Ok(()),
            Some('\n') => {
                self.bump();
                Ok(())
            }
            Some(c) => self.err(&format!("unexpected `{}` after a value", c)),
        }
    }
    fn basic_string(&mut self) -> R<String> {
        // the opening quote(s) are consumed by the caller; single-line form
        let mut out = String::new();
        loop {
            match self.bump() {
                None | Some('\n') => return self.err("unterminated string"),
                Some('"') => return Ok(out),
                Some('\\') => out.push(self.escape()?),
                Some(c) => out.push(c),
            }
        }
    }
    fn escape(&mut self) -> R<char> {
        match self.bump() {
            Some('b') => Ok('\u{8}'),
            Some('t') => Ok('\t'),
            Some('n') => Ok('\n'),
            Some('f') => Ok('\u{c}'),
            Some('r') => Ok('\r'),
            Some('"') => Ok('"'),
            Some('\\') => Ok('\\'),
            Some(u @ ('u' | 'U')) => {
                let n = if u == 'u' { 4 } else { 8 };
                let mut v: u32 = 0;
                for _ in 0..n {
                    match self.bump().and_then(|c| c.to_digit(16)) {
                        Some(d) => v = v * 16 + d,
                        None => return self.err("bad \\u escape"),
                    }
                }
                match char::from_u32(v) {
                    Some(c) => Ok(c),
                    None => self.err("bad \\u escape"),
                }
            }
            _ => self.err("unknown escape in a string"),
        }
    }
    fn literal_string(&mut self) -> R<String> {
        let mut out = String::new();
        loop {
            match self.bump() {
                None | Some('\n') => return self.err("unterminated string"),
                Some('\'') => return Ok(out),
                Some(c) => out.push(c),
            }
        }
    }
    fn multiline(&mut self, q: char) -> R<String> {
        // after the three opening quotes; a newline right after them is dropped
        if self.peek() == Some('\r') {
            self.i += 1;
        }
        if self.peek() == Some('\n') {
            self.bump();
        }
        let mut out = String::new();
        loop {
            // a run of n >= 3 quotes closes the string; up to two of them belong to its text
            let mut n = 0;
            while self.s.get(self.i + n) == Some(&q) {
                n += 1;
            }
            if n >= 3 {
                if n > 5 {
                    return self.err("too many quotes at the end of a multi-line string");
                }
                for _ in 0..n - 3 {
                    out.push(q);
                }
                self.i += n;
                return Ok(out);
            }
            match self.bump() {
                None => return self.err("unterminated multi-line string"),
                Some('\\') if q == '"' => {
                    // line-ending backslash: skip white space up to the next non-blank character
                    let save = self.i;
                    self.ws();
                    if matches!(self.peek(), Some('\n') | Some('\r')) {
                        self.ws_nl_plain();
                    } else {
                        self.i = save;
                        out.push(self.escape()?);
                    }
                }
                Some(c) => out.push(c),
            }
        }
    }
    fn ws_nl_plain(&mut self) {
        while matches!(self.peek(), Some(' ') | Some('\t') | Some('\r') | Some('\n')) {
            self.bump();
        }
    }
    /// one key: bare, "basic" or 'literal'
    fn simple_key(&mut self) -> R<String> {
        match self.peek() {
            Some('"') => {
                self.i += 1;
                if self.peek() == Some('"') && self.starts("\"\"") {
                    return self.err("multi-line string as a key");
                }
                self.basic_string()
            }
            Some('\'') => {
                self.i += 1;
                self.literal_string()
            }
            _ => {
                let mut k = String::new();
                while let Some(c) = self.peek() {
                    if c.is_ascii_alphanumeric() || c == '_' || c == '-' {
                        k.push(c);
                        self.i += 1;
                    } else {
                        break;
                    }
                }
                if k.is_empty() {
                    return self.err("a key was expected");
                }
                Ok(k)
            }
        }
    }
    /// a dotted key
    fn key(&mut self) -> R<Vec<String>> {
        let mut v = vec![];
        loop {
            self.ws();
            v.push(self.simple_key()?);
            self.ws();
            if self.peek() == Some('.') {
                self.i += 1;
            } else {
                return Ok(v);
            }
        }
    }
    fn value(&mut self) -> R<Value> {
        self.ws();
        match self.peek() {
            None => self.err("a value was expected"),
            Some('"') => {
                if self.starts("\"\"\"") {
                    self.i += 3;
                    Ok(Value::Str(self.multiline('"')?))
                } else {
                    self.i += 1;
                    Ok(Value::Str(self.basic_string()?))
                }
            }
            Some('\'') => {
                if self.starts("'''") {
                    self.i += 3;
                    Ok(Value::Str(self.multiline('\'')?))
                } else {
                    self.i += 1;
                    Ok(Value::Str(self.literal_string()?))
                }
            }
            Some('[') => {
                self.i += 1;
                let mut items = vec![];
                loop {
                    self.ws_nl();
                    if self.peek() == Some(']') {
                        self.i += 1;
                        return Ok(Value::Arr(items));
                    }
                    items.push(self.value()?);
                    self.ws_nl();
                    match self.peek() {
                        Some(',') => self.i += 1,
                        Some(']') => {}
                        _ => return self.err("`,` or `]` expected in an array"),
                    }
                }
            }
            Some('{') => {
                self.i += 1;
                let mut items = vec![];
                self.ws();
                if self.peek() == Some('}') {
                    self.i += 1;
                    return Ok(Value::Table(items));
                }
                loop {
                    let k = self.key()?;
                    if self.peek() != Some('=') {
                        return self.err("`=` expected in an inline table");
                    }
                    self.i += 1;
                    let v = self.value()?;
                    items.push((k, v));
                    self.ws();
                    match self.peek() {
                        Some(',') => self.i += 1,
                        Some('}') => {
                            self.i += 1;
                            return Ok(Value::Table(items));
                        }
                        _ => return self.err("`,` or `}` expected in an inline table"),
                    }
                }
            }
            Some(_) => {
                let mut b = String::new();
                while let Some(c) = self.peek() {
                    if c.is_ascii_alphanumeric() || matches!(c, '+' | '-' | '_' | '.' | ':') {
                        b.push(c);
                        self.i += 1;
                    } else {
                        break;
                    }
                }
                if b.is_empty() {
                    return self.err("a value was expected");
                }
                Ok(Value::Bare(b))
            }
        }
    }
}

fn flatten(prefix: &[String], k: &[String], v: Value, out: &mut Vec<(Vec<String>, Value)>) {
    let mut path = prefix.to_vec();
    path.extend(k.iter().cloned());
    match v {
        Value::Table(items) => {
            if items.is_empty() {
                out.push((path.clone(), Value::Table(vec![])));
            }
            for (k2, v2) in items {
                flatten(&path, &k2, v2, out);
            }
        }
        v => out.push((path, v)),
    }
}

/// the entries of a manifest, flattened: (key path from the root, value).  A table header without
/// entries gives `(path, Table([]))`, so that an empty `[lib]` is seen as well.
pub fn parse(text: &str) -> R<Vec<(Vec<String>, Value)>> {
    let chars: Vec<char> = text.chars().collect();
    let mut p = P { s: &chars, i: 0, line: 1 };
    let mut out = vec![];
    let mut table: Vec<String> = vec![];
    loop {
        p.ws_nl();
        match p.peek() {
            None => return Ok(out),
            Some('[') => {
                p.i += 1;
                let double = p.peek() == Some('[');
                if double {
                    p.i += 1;
                }
                table = p.key()?;
                if p.peek() != Some(']') {
                    return p.err("`]` expected in a table header");
                }
                p.i += 1;
                if double {
                    if p.peek() != Some(']') {
                        return p.err("`]]` expected in a table header");
                    }
                    p.i += 1;
                }
                p.eol()?;
                out.push((table.clone(), Value::Table(vec![])));
            }
            Some(_) => {
                let k = p.key()?;
                if p.peek() != Some('=') {
                    return p.err("`=` expected after a key");
                }
                p.i += 1;
                let v = p.value()?;
                p.eol()?;
                flatten(&table, &k, v, &mut out);
            }
        }
    }
}

fn strs(v: &Value) -> Option<Vec<String>> {
    match v {
        Value::Arr(items) => items
            .iter()
            .map(|x| match x {
                Value::Str(s) => Some(s.clone()),
                _ => None,
            })
            .collect(),
        _ => None,
    }
}

/// The whitelist.  Top-level tables: `[package]` and `[features]` only (no `lib` / `bin` / `test` /
/// `example` / `bench` target that could redirect a source file, no dependency of any kind - a
/// dependency called `core` or `ptr` would change what the whitelisted imports mean -, no `target`,
/// `patch`, `replace`, `workspace`, `profile`, `lints`, `badges`).  `[package]`: descriptive keys,
/// `name`, `edition = "2018"`, `autoexamples = false`; no `build`, `links`, `auto*`, `metadata`, ...
/// `[features]`: exactly today's.
pub fn check(text: &str) -> R<()> {
    const PACKAGE_FREE: &[&str] =
        &["authors", "categories", "description", "documentation", "keywords", "license", "readme", "repository", "version", "exclude"];
    const FEATURES: &[(&str, &[&str])] =
        &[("default", &["std"]), ("std", &[]), ("compact", &[]), ("alloc", &[]), ("nightly", &[]), ("lint", &[]), ("verif", &[])];
    let entries = parse(text)?;
    let mut seen: Vec<Vec<String>> = vec![];
    for (path, v) in &entries {
        let shown = path.join(".");
        if matches!(v, Value::Table(t) if t.is_empty()) && path.len() == 1 && (path[0] == "package" || path[0] == "features") {
            continue; // the headers themselves
        }
        if seen.contains(path) {
            return Err(format!("Cargo.toml: `{}` is given more than once", shown));
        }
        seen.push(path.clone());
        match path[0].as_str() {
            "package" => {
                if path.len() != 2 {
                    return Err(format!("Cargo.toml: unexpected `{}`", shown));
                }
                let k = path[1].as_str();
                let ok = match k {
                    "name" => *v == Value::Str("minimal-lexical".into()),
                    "edition" => *v == Value::Str("2018".into()),
                    "autoexamples" => *v == Value::Bare("false".into()),
                    _ if PACKAGE_FREE.contains(&k) => matches!(v, Value::Str(_)) || strs(v).is_some(),
                    _ => false,
                };
                if !ok {
                    return Err(format!("Cargo.toml: `{} = {:?}` is not one of the [package] entries of today (no build script, `links`, `auto*`, other edition, ..)", shown, v));
                }
            }
            "features" => {
                let want = if path.len() == 2 { FEATURES.iter().find(|(n, _)| *n == path[1]) } else { None };
                let got = strs(v);
                match (want, got) {
                    (Some((_, w)), Some(g)) if g.iter().map(|s| s.as_str()).collect::<Vec<_>>() == w.to_vec() => {}
                    _ => return Err(format!("Cargo.toml: feature `{} = {:?}` is not one of today's (default = [\"std\"]; std, compact, alloc, nightly, lint, verif = [])", shown, v)),
                }
            }
            other => {
                return Err(format!(
                    "Cargo.toml: `{}`: only [package] and [features] are accepted (a `{}` entry could redirect a source file, add a dependency that shadows `core`, or change how the crate is built)",
                    shown, other
                ))
            }
        }
    }
    for (n, _) in FEATURES {
        if !seen.iter().any(|p| p.len() == 2 && p[0] == "features" && p[1] == *n) {
            return Err(format!("Cargo.toml: feature `{}` is missing", n));
        }
    }
    for k in ["name", "edition"] {
        if !seen.iter().any(|p| p.len() == 2 && p[0] == "package" && p[1] == k) {
            return Err(format!("Cargo.toml: `package.{}` is missing", k));
        }
    }
    Ok(())
}
