//! The pre-pass: checks that make the translation fail closed (see the section of that name in the
//! top comment of main.rs).  The translator resolves names by their spelling and reads only the
//! constructs it understands; this pass makes sure that nothing else in a source file can change
//! what those names and constructs mean: attributes (`cfg`, `cfg_attr`, `path`, ..), duplicate
//! definitions, redefinitions / renamed imports of the names with a fixed meaning, local items,
//! constant patterns, the shape of the `impl` blocks, and the module tree.
use quote::ToTokens;
use std::collections::{HashMap, HashSet};
use syn::spanned::Spanned;
use syn::visit::Visit;

const C: &str = "cfg (feature = \"compact\")";
const NC: &str = "cfg (not (feature = \"compact\"))";
const NIGHTLY: &str = "cfg (feature = \"nightly\")";
const VERIF: &str = "cfg (feature = \"verif\")";
const ALLOC: &str = "cfg (feature = \"alloc\")";
const NALLOC: &str = "cfg (not (feature = \"alloc\"))";
const L64: &str = "cfg (all (target_pointer_width = \"64\" , not (target_arch = \"sparc\")))";
const NL64: &str = "cfg (not (all (target_pointer_width = \"64\" , not (target_arch = \"sparc\"))))";
const CFGATTR_INLINE: &str = "cfg_attr (not (feature = \"compact\") , inline)";

/// the `cfg` / `cfg_attr` attributes present in the source today: (file, where, attribute).
/// Statement forms of rules 12 / 21 are accepted separately (see `approve_stmt`).
const CFG_WHITELIST: &[(&str, &str, &str)] = &[
    ("num.rs", "use:crate :: libm :: { powd , powf }", "cfg (all (not (feature = \"std\") , feature = \"compact\"))"),
    ("num.rs", "use:crate :: table :: { SMALL_F32_POW10 , SMALL_F64_POW10 , SMALL_INT_POW10 , SMALL_INT_POW5 }", NC),
    ("num.rs", "fn:powf", "cfg (all (feature = \"std\" , feature = \"compact\"))"),
    ("num.rs", "fn:powd", "cfg (all (feature = \"std\" , feature = \"compact\"))"),
    ("num.rs", "fn:verif_int_pow_fast_path", VERIF),
    ("number.rs", "use:crate :: fpu :: set_precision", NIGHTLY),
    ("lemire.rs", "file", NC),
    ("lemire.rs", "fn:verif_compute_product_approx", VERIF),
    ("lemire.rs", "fn:verif_power", VERIF),
    ("bellerophon.rs", "file", C),
    ("bellerophon.rs", "fn:verif_error_is_accurate", VERIF),
    ("table_lemire.rs", "file", NC),
    ("table_small.rs", "file", NC),
    ("table_small.rs", "const:LARGE_POW5", L64),
    ("table_small.rs", "const:LARGE_POW5", NL64),
    ("bigint.rs", "use:crate :: heapvec :: HeapVec", ALLOC),
    ("bigint.rs", "use:crate :: stackvec :: StackVec", NALLOC),
    ("bigint.rs", "use:crate :: table :: { LARGE_POW5 , LARGE_POW5_STEP }", NC),
    ("bigint.rs", "type:VecType", ALLOC),
    ("bigint.rs", "type:VecType", NALLOC),
    ("bigint.rs", "type:Limb", L64),
    ("bigint.rs", "type:Limb", NL64),
    ("bigint.rs", "type:Wide", L64),
    ("bigint.rs", "type:Wide", NL64),
    ("bigint.rs", "const:LIMB_BITS", L64),
    ("bigint.rs", "const:LIMB_BITS", NL64),
    ("stackvec.rs", "file", NALLOC),
    ("heapvec.rs", "file", ALLOC),
    ("heapvec.rs", "use:alloc :: vec :: Vec", "cfg (not (feature = \"std\"))"),
    ("heapvec.rs", "use:std :: vec :: Vec", "cfg (feature = \"std\")"),
    ("parse.rs", "use:crate :: bellerophon :: bellerophon", C),
    ("parse.rs", "use:crate :: lemire :: lemire", NC),
    ("parse.rs", "fn:verif_parse_number", VERIF),
    ("table.rs", "use:crate :: table_bellerophon :: *", C),
    ("table.rs", "use:crate :: table_lemire :: *", NC),
    ("table.rs", "use:crate :: table_small :: *", NC),
    ("lib.rs", "file", "cfg_attr (feature = \"lint\" , warn (unsafe_op_in_unsafe_fn))"),
    ("lib.rs", "file", "cfg_attr (not (feature = \"std\") , no_std)"),
    ("lib.rs", "extern:alloc", "cfg (all (feature = \"alloc\" , not (feature = \"std\")))"),
    ("rounding.rs", "fn:round", CFGATTR_INLINE),
    ("rounding.rs", "fn:round_nearest_tie_even", CFGATTR_INLINE),
    ("rounding.rs", "fn:round_down", CFGATTR_INLINE),
];

/// the statements dropped by rule 12, as they are today: (file, function, token text)
const NIGHTLY_STMTS: &[(&str, &str, &str)] = &[("number.rs", "try_fast_path", "# [cfg (feature = \"nightly\")] let _cw = set_precision :: < F > () ;")];

/// the imports present today: (file, path).  Every `use` leaf must be one of these: an import can
/// change what a name means (C-USE), and a trait import can change what a method call means.
const USE_WHITELIST: &[(&str, &str)] = &[
    ("bellerophon.rs", "crate::extended_float::ExtendedFloat"),
    ("bellerophon.rs", "crate::mask::lower_n_halfway"),
    ("bellerophon.rs", "crate::mask::lower_n_mask"),
    ("bellerophon.rs", "crate::num::Float"),
    ("bellerophon.rs", "crate::number::Number"),
    ("bellerophon.rs", "crate::rounding::round"),
    ("bellerophon.rs", "crate::rounding::round_nearest_tie_even"),
    ("bellerophon.rs", "crate::table::BASE10_POWERS"),
    ("bigint.rs", "crate::heapvec::HeapVec"),
    ("bigint.rs", "crate::num::int_pow_fast_path"),
    ("bigint.rs", "crate::num::FastPathRadix"),
    ("bigint.rs", "crate::stackvec::StackVec"),
    ("bigint.rs", "crate::table::LARGE_POW5"),
    ("bigint.rs", "crate::table::LARGE_POW5_STEP"),
    ("bigint.rs", "core::cmp"),
    ("bigint.rs", "core::ops"),
    ("bigint.rs", "core::ptr"),
    ("extended_float.rs", "crate::num::Float"),
    ("heapvec.rs", "crate::bigint"),
    ("heapvec.rs", "alloc::vec::Vec"),
    ("heapvec.rs", "core::cmp"),
    ("heapvec.rs", "core::ops"),
    ("heapvec.rs", "std::vec::Vec"),
    ("heapvec.rs", "core::ops::Deref"),
    ("lemire.rs", "crate::extended_float::ExtendedFloat"),
    ("lemire.rs", "crate::num::Float"),
    ("lemire.rs", "crate::number::Number"),
    ("lemire.rs", "crate::table::LARGEST_POWER_OF_FIVE"),
    ("lemire.rs", "crate::table::POWER_OF_FIVE_128"),
    ("lemire.rs", "crate::table::SMALLEST_POWER_OF_FIVE"),
    ("lib.rs", "self::num::Float"),
    ("lib.rs", "self::parse::parse_float"),
    ("num.rs", "crate::libm::powd"),
    ("num.rs", "crate::libm::powf"),
    ("num.rs", "crate::table::SMALL_F32_POW10"),
    ("num.rs", "crate::table::SMALL_F64_POW10"),
    ("num.rs", "crate::table::SMALL_INT_POW10"),
    ("num.rs", "crate::table::SMALL_INT_POW5"),
    ("num.rs", "core::ops"),
    ("number.rs", "crate::fpu::set_precision"),
    ("number.rs", "crate::num::int_pow_fast_path"),
    ("number.rs", "crate::num::FastPathRadix"),
    ("number.rs", "crate::num::Float"),
    ("parse.rs", "crate::bellerophon::bellerophon"),
    ("parse.rs", "crate::extended_float::extended_to_float"),
    ("parse.rs", "crate::extended_float::ExtendedFloat"),
    ("parse.rs", "crate::lemire::lemire"),
    ("parse.rs", "crate::num::Float"),
    ("parse.rs", "crate::number::Number"),
    ("parse.rs", "crate::slow::slow"),
    ("rounding.rs", "crate::extended_float::ExtendedFloat"),
    ("rounding.rs", "crate::mask::lower_n_halfway"),
    ("rounding.rs", "crate::mask::lower_n_mask"),
    ("rounding.rs", "crate::num::Float"),
    ("slow.rs", "crate::bigint::Bigint"),
    ("slow.rs", "crate::bigint::Limb"),
    ("slow.rs", "crate::bigint::LIMB_BITS"),
    ("slow.rs", "crate::extended_float::extended_to_float"),
    ("slow.rs", "crate::extended_float::ExtendedFloat"),
    ("slow.rs", "crate::num::int_pow_fast_path"),
    ("slow.rs", "crate::num::FastPathRadix"),
    ("slow.rs", "crate::num::Float"),
    ("slow.rs", "crate::number::Number"),
    ("slow.rs", "crate::rounding::round"),
    ("slow.rs", "crate::rounding::round_down"),
    ("slow.rs", "crate::rounding::round_nearest_tie_even"),
    ("slow.rs", "core::cmp"),
    ("stackvec.rs", "crate::bigint"),
    ("stackvec.rs", "core::cmp"),
    ("stackvec.rs", "core::mem"),
    ("stackvec.rs", "core::ops"),
    ("stackvec.rs", "core::ptr"),
    ("stackvec.rs", "core::slice"),
    ("stackvec.rs", "core::ops::Deref"),
    ("table.rs", "crate::table_bellerophon::*"),
    ("table.rs", "crate::table_lemire::*"),
    ("table.rs", "crate::table_small::*"),
    ("front_etc", "std::io::prelude::*"),
    ("front_rand", "std::io::prelude::*"),
    ("front_etc", "std::path::PathBuf"),
    ("front_etc", "std::env"),
    ("front_etc", "std::fs"),
    ("front_etc", "std::io"),
];

/// attributes without influence on what the code means
const HARMLESS_ATTRS: &[&str] = &["doc", "inline", "derive", "must_use", "test", "cold", "deprecated"];

/// `#[allow(..)]` / `#[warn(..)]` / `#[deny(..)]` are harmless only for lints that cannot hide a
/// change of meaning: the clippy lints and `unused_unsafe` (NOT `overflowing_literals`,
/// `non_upper_case_globals`, `arithmetic_overflow`, ..)
fn lint_attr_ok(a: &syn::Attribute) -> bool {
    let lints = match a.parse_args_with(syn::punctuated::Punctuated::<syn::Path, syn::Token![,]>::parse_terminated) {
        Ok(l) => l,
        Err(_) => return false,
    };
    !lints.is_empty()
        && lints.iter().all(|l| l.is_ident("unused_unsafe") || (l.leading_colon.is_none() && l.segments.len() == 2 && l.segments[0].ident == "clippy"))
}

/// the global constants that the translator resolves by name (rules 9, 14, 21): no parameter,
/// local, pattern or item anywhere may be spelled like one of them (check C-CONST)
pub const GLOBAL_CONSTS: &[&str] = &[
    "SMALLEST_POWER_OF_FIVE", "LARGEST_POWER_OF_FIVE", "POWER_OF_FIVE_128", "BASE10_POWERS", "LIMB_BITS", "LARGE_POW5", "LARGE_POW5_STEP",
    "BIGINT_LIMBS", "BIGINT_BITS",
];

/// the `macro_rules!` definitions present today: (file, name)
const MACROS: &[(&str, &str)] = &[
    ("slow.rs", "add_digit"),
    ("slow.rs", "add_temporary"),
    ("slow.rs", "round_up_truncated"),
    ("slow.rs", "round_up_nonzero"),
    ("bigint.rs", "hi"),
    ("front_test", "b"),
];

/// functions of the vector back-ends that are not translated but that translated code runs
/// through (`DerefMut` behind `as_mut_ptr()`, `x[i] = e`, `iter_mut()`, `get_mut()`; `PartialEq`,
/// `PartialOrd`, `Ord`, `MulAssign`): their bodies must be, token for token, today's (check C-PIN)
const PINNED: &[(&str, &str, &str, &str)] = &[
    ("stackvec.rs", "ops::Deref", "deref", "{ unsafe { let ptr = self.data.as_ptr() as *const bigint::Limb; slice::from_raw_parts(ptr, self.len()) } }"),
    ("stackvec.rs", "ops::DerefMut", "deref_mut", "{ unsafe { let ptr = self.data.as_mut_ptr() as *mut bigint::Limb; slice::from_raw_parts_mut(ptr, self.len()) } }"),
    ("stackvec.rs", "PartialEq", "eq", "{ use core::ops::Deref; self.len() == other.len() && self.deref() == other.deref() }"),
    ("stackvec.rs", "cmp::PartialOrd", "partial_cmp", "{ Some(bigint::compare(self, other)) }"),
    ("stackvec.rs", "cmp::Ord", "cmp", "{ bigint::compare(self, other) }"),
    ("stackvec.rs", "ops::MulAssign<&[bigint::Limb]>", "mul_assign", "{ bigint::large_mul(self, rhs).unwrap(); }"),
    ("heapvec.rs", "ops::Deref", "deref", "{ &self.data }"),
    ("heapvec.rs", "ops::DerefMut", "deref_mut", "{ &mut self.data }"),
    ("heapvec.rs", "PartialEq", "eq", "{ use core::ops::Deref; self.len() == other.len() && self.deref() == other.deref() }"),
    ("heapvec.rs", "cmp::PartialOrd", "partial_cmp", "{ Some(bigint::compare(self, other)) }"),
    ("heapvec.rs", "cmp::Ord", "cmp", "{ bigint::compare(self, other) }"),
    ("heapvec.rs", "ops::MulAssign<&[bigint::Limb]>", "mul_assign", "{ bigint::large_mul(self, rhs).unwrap(); }"),
    ("bigint.rs", "ops::MulAssign<&Bigint>", "mul_assign", "{ self.data *= &rhs.data; }"),
];

/// `deref_mut` must be `deref` up to mutability (check C-PIN)
fn deref_mut_as_deref(t: &str) -> String {
    t.replace("as_mut_ptr", "as_ptr").replace("* mut", "* const").replace("from_raw_parts_mut", "from_raw_parts").replace("& mut self . data", "& self . data")
}

/// the `impl` blocks present today: (file, trait ("" = inherent), self type, the functions it may
/// define).  Any other `impl` block, or any other function in one of these, is refused: an
/// inherent method would beat the slice / trait method of the same name that the translator maps
/// (`iter_mut`, `cmp`, `default`, ..), an `impl Float` could override a translated default method.
const FLOAT_CONSTS: &[&str] = &[
    "MAX_DIGITS", "SIGN_MASK", "EXPONENT_MASK", "HIDDEN_BIT_MASK", "MANTISSA_MASK", "MANTISSA_SIZE", "EXPONENT_BIAS", "DENORMAL_EXPONENT",
    "MAX_EXPONENT", "CARRY_MASK", "MIN_EXPONENT_ROUND_TO_EVEN", "MAX_EXPONENT_ROUND_TO_EVEN", "MINIMUM_EXPONENT", "SMALLEST_POWER_OF_TEN",
    "LARGEST_POWER_OF_TEN", "MIN_EXPONENT_FAST_PATH", "MAX_EXPONENT_FAST_PATH", "MAX_EXPONENT_DISGUISED_FAST_PATH",
];

/// the associated constants / types an impl block may contain besides its functions: (trait, self type, names)
fn impl_other_items(tr: &str, ty: &str) -> &'static [&'static str] {
    match (tr, ty) {
        ("Float", "f32") | ("Float", "f64") => FLOAT_CONSTS,
        ("ops :: Index < usize >", "ReverseView < 'a , T >") => &["Output"],
        ("ops :: Deref", "StackVec") | ("ops :: Deref", "HeapVec") => &["Target"],
        _ => &[],
    }
}

const IMPLS: &[(&str, &str, &str, &[&str])] = &[
    ("num.rs", "Float", "f32", &["pow_fast_path", "from_u64", "from_bits", "to_bits"]),
    ("num.rs", "Float", "f64", &["pow_fast_path", "from_u64", "from_bits", "to_bits"]),
    ("num.rs", "From<FastPathRadix>", "u64", &["from"]),
    ("number.rs", "", "Number", &["is_fast_path", "try_fast_path"]),
    ("bellerophon.rs", "", "BellerophonPowers", &["get_small", "get_large", "get_small_int"]),
    ("bigint.rs", "", "Bigint", &["new", "from_u64", "hi64", "pow", "bit_length"]),
    ("bigint.rs", "ops::MulAssign<&Bigint>", "Bigint", &["mul_assign"]),
    ("bigint.rs", "ops::Index<usize>", "ReverseView<'a,T>", &["index"]),
    (
        "stackvec.rs",
        "",
        "StackVec",
        &[
            "new", "try_from", "set_len", "len", "is_empty", "capacity", "push_unchecked", "try_push", "pop_unchecked", "pop",
            "extend_unchecked", "try_extend", "truncate_unchecked", "resize_unchecked", "try_resize", "hi64", "from_u64", "normalize",
            "is_normalized", "add_small", "mul_small",
        ],
    ),
    ("stackvec.rs", "PartialEq", "StackVec", &["eq"]),
    ("stackvec.rs", "Eq", "StackVec", &[]),
    ("stackvec.rs", "cmp::PartialOrd", "StackVec", &["partial_cmp"]),
    ("stackvec.rs", "cmp::Ord", "StackVec", &["cmp"]),
    ("stackvec.rs", "ops::Deref", "StackVec", &["deref"]),
    ("stackvec.rs", "ops::DerefMut", "StackVec", &["deref_mut"]),
    ("stackvec.rs", "ops::MulAssign<&[bigint::Limb]>", "StackVec", &["mul_assign"]),
    (
        "heapvec.rs",
        "",
        "HeapVec",
        &[
            "new", "try_from", "set_len", "len", "is_empty", "capacity", "try_push", "pop", "try_extend", "try_resize", "hi64", "from_u64",
            "normalize", "is_normalized", "add_small", "mul_small",
        ],
    ),
    ("heapvec.rs", "PartialEq", "HeapVec", &["eq"]),
    ("heapvec.rs", "Eq", "HeapVec", &[]),
    ("heapvec.rs", "cmp::PartialOrd", "HeapVec", &["partial_cmp"]),
    ("heapvec.rs", "cmp::Ord", "HeapVec", &["cmp"]),
    ("heapvec.rs", "ops::Deref", "HeapVec", &["deref"]),
    ("heapvec.rs", "ops::DerefMut", "HeapVec", &["deref_mut"]),
    ("heapvec.rs", "ops::MulAssign<&[bigint::Limb]>", "HeapVec", &["mul_assign"]),
];

/// names of the std prelude / language that the translator gives a fixed meaning: no item, import
/// or macro of a source file may be called like this
const RESERVED: &[&str] = &[
    "Some", "None", "Ok", "Err", "Option", "Result", "debug_assert", "core", "std", "alloc", "Iterator", "Clone", "Fn", "Self", "u8", "u16", "u32",
    "u64", "u128", "usize", "i8", "i16", "i32", "i64", "i128", "isize", "bool", "char", "f32", "f64", "str",
    // the other traits / types of the std prelude: the whitelisted `impl Eq for HeapVec`, `derive(..)`,
    // `impl From<..>` mention them by their bare name
    "Eq", "PartialEq", "Ord", "PartialOrd", "Copy", "Default", "Debug", "Hash", "From", "Into", "TryFrom", "TryInto", "FromIterator",
    "IntoIterator", "DoubleEndedIterator", "ExactSizeIterator", "Extend", "Drop", "FnMut", "FnOnce", "Send", "Sync", "Sized", "Unpin",
    "ToOwned", "ToString", "AsRef", "AsMut", "Vec", "Box", "String", "drop",
];

/// the macros of the std prelude (macros have their own namespace: no `macro_rules!` may be called
/// like one of them)
const RESERVED_MACROS: &[&str] = &[
    "debug_assert", "debug_assert_eq", "debug_assert_ne", "assert", "assert_eq", "assert_ne", "panic", "unreachable", "unimplemented", "todo",
    "matches", "write", "writeln", "print", "println", "eprint", "eprintln", "format", "format_args", "vec", "cfg", "env", "option_env", "concat",
    "stringify", "include", "include_str", "include_bytes", "line", "column", "file", "module_path", "compile_error", "dbg", "try",
    "thread_local", "asm", "global_asm", "derive", "test", "macro_rules",
];

/// C-MACROTOK: the arguments of a macro invocation are token trees that the syn visitor does not look
/// into, and an item is global wherever it is written (`matches!(x, 0 if { impl T { .. } true })`): the
/// words that start an item (or pull in another file / assembly) may not occur in them
const MACRO_FORBIDDEN: &[&str] = &[
    "impl", "trait", "macro_rules", "mod", "use", "extern", "static", "const", "fn", "type", "struct", "enum", "union", "include", "include_str",
    "include_bytes", "asm", "global_asm",
];

/// the forbidden words / raw identifiers among the tokens of a macro invocation (`defn`: the body of a
/// `macro_rules!` definition, where `$name` / `$name:fragment` are metavariables, not words)
pub fn scan_macro_tokens(ts: proc_macro2::TokenStream, defn: bool, out: &mut Vec<String>) {
    let mut after_dollar = false;
    for t in ts {
        match t {
            proc_macro2::TokenTree::Ident(i) => {
                let n = i.to_string();
                if n.starts_with("r#") {
                    out.push(format!("raw identifier `{}` among the tokens of a macro", n));
                } else if MACRO_FORBIDDEN.contains(&n.as_str()) && !(defn && after_dollar) {
                    out.push(format!("`{}` among the tokens of a macro (an item there is global, and the pre-pass does not see it)", n));
                }
                after_dollar = false;
            }
            proc_macro2::TokenTree::Group(g) => {
                scan_macro_tokens(g.stream(), defn, out);
                after_dollar = false;
            }
            proc_macro2::TokenTree::Punct(p) => after_dollar = p.as_char() == '$',
            proc_macro2::TokenTree::Literal(_) => after_dollar = false,
        }
    }
}

/// the last segment of a macro's path
fn macro_name(m: &syn::Macro) -> String {
    m.path.segments.last().map(|s| s.ident.to_string()).unwrap_or_default()
}

/// the attributes (doc comments excepted) of the structs that the translation maps to fixed Coq
/// types, as they are today: `derive(PartialEq)` is the `==` of rule 9, `derive(Default)` is rule 14's
/// `Number::default()`, and a derive list names prelude traits (C-DERIVE)
const STRUCT_ATTRS: &[(&str, &str, &[&str])] = &[
    ("stackvec.rs", "StackVec", &["derive(Clone)"]),
    ("heapvec.rs", "HeapVec", &["derive(Clone)"]),
    ("bigint.rs", "Bigint", &["derive(Clone, PartialEq, Eq)"]),
    ("bigint.rs", "ReverseView", &[]),
    ("number.rs", "Number", &["derive(Clone, Copy, Debug, Default, PartialEq, Eq)"]),
    ("extended_float.rs", "ExtendedFloat", &["derive(Clone, Copy, Debug, PartialEq, Eq)"]),
    ("bellerophon.rs", "BellerophonPowers", &[]),
];

/// attributes accepted outside the target functions of a lenient file (test drivers, serde structs):
/// everything else (`no_mangle`, `link_section`, `used`, `export_name`, `global_allocator`, `link`, ..)
/// goes through the strict whitelist, i.e. is refused
const LENIENT_ATTRS: &[&str] = &["doc", "inline", "allow", "warn", "deny", "derive", "macro_use", "serde", "test", "must_use", "cold"];

/// What the names with a fixed meaning are, for one family of files (the library / one front-end).
pub struct Known {
    /// name -> the files that may define it (an item of that name anywhere else is refused)
    pub home: HashMap<String, Vec<String>>,
    /// name -> the paths from which a `use` may import it
    pub import_paths: HashMap<String, Vec<String>>,
}

impl Known {
    pub fn new() -> Known {
        Known { home: HashMap::new(), import_paths: HashMap::new() }
    }
    /// `name` is defined in `file` (imported as `crate::<module>::name`)
    pub fn define(&mut self, name: &str, file: &str) {
        let e = self.home.entry(name.to_string()).or_default();
        if !e.iter().any(|f| f == file) {
            e.push(file.to_string());
        }
        if let Some(m) = file.strip_suffix(".rs") {
            // the tables are re-exported by table.rs
            let m = if m == "table_lemire" || m == "table_small" || m == "table_bellerophon" { "table" } else { m };
            self.import(name, &format!("crate::{}::{}", m, name));
        }
    }
    pub fn import(&mut self, name: &str, path: &str) {
        let e = self.import_paths.entry(name.to_string()).or_default();
        if !e.iter().any(|p| p == path) {
            e.push(path.to_string());
        }
    }
    /// nobody may define `name`; it may only be imported from `paths`
    pub fn external(&mut self, name: &str, paths: &[&str]) {
        self.home.entry(name.to_string()).or_default();
        for p in paths {
            self.import(name, p);
        }
    }
}

/// the text of a piece of syntax for every comparison with a table: the tokens as `quote!` prints
/// them, separated by single spaces, literals verbatim (white space INSIDE a string literal is kept:
/// `feature = "comp act"` is not `feature = "compact"`)
pub fn text<T: ToTokens>(t: &T) -> String {
    t.to_token_stream().to_string()
}

/// a table entry written as ordinary Rust, in the same form: parsed and printed like the source
pub fn canon<T: syn::parse::Parse + ToTokens>(s: &str) -> String {
    match syn::parse_str::<T>(s) {
        Ok(t) => text(&t),
        Err(_) => String::from("<unparsable table entry>"),
    }
}

fn canon_trait(s: &str) -> String {
    if s.is_empty() {
        String::new()
    } else {
        canon::<syn::Path>(s)
    }
}

fn attr_text(a: &syn::Attribute) -> String {
    text(&a.meta)
}

fn attr_name(a: &syn::Attribute) -> String {
    a.path().segments.iter().map(|s| s.ident.to_string()).collect::<Vec<_>>().join("::")
}

/// one leaf of a `use` tree
struct Leaf {
    path: String,
    /// the name it introduces (None: a glob)
    name: Option<String>,
    renamed: bool,
}

fn use_leaves(t: &syn::UseTree, prefix: &str, out: &mut Vec<Leaf>) {
    let join = |a: &str, b: &str| if a.is_empty() { b.to_string() } else { format!("{}::{}", a, b) };
    match t {
        syn::UseTree::Path(p) => use_leaves(&p.tree, &join(prefix, &p.ident.to_string()), out),
        syn::UseTree::Name(n) => {
            let id = n.ident.to_string();
            if id == "self" {
                // `use a::b::{self}` introduces `b`
                let name = prefix.rsplit("::").next().unwrap_or("").to_string();
                out.push(Leaf { path: prefix.to_string(), name: Some(name), renamed: false });
            } else {
                out.push(Leaf { path: join(prefix, &id), name: Some(id), renamed: false });
            }
        }
        syn::UseTree::Rename(r) => out.push(Leaf { path: join(prefix, &r.ident.to_string()), name: Some(r.rename.to_string()), renamed: true }),
        syn::UseTree::Glob(_) => out.push(Leaf { path: join(prefix, "*"), name: None, renamed: false }),
        syn::UseTree::Group(g) => {
            for x in &g.items {
                use_leaves(x, prefix, out);
            }
        }
    }
}

struct Pre<'a> {
    fname: &'a str,
    known: &'a Known,
    /// Some(targets): a file of which only these functions are translated and whose other items
    /// (test drivers, serde structs, ..) are only checked as far as they could shadow a name that
    /// the targets use (the rng / rand / unit front-ends)
    lenient: Option<&'a [&'a str]>,
    is_lib_rs: bool,
    problems: Vec<String>,
    approved: HashSet<*const syn::Attribute>,
    /// names of the value namespace that a pattern identifier must not coincide with
    value_names: HashSet<String>,
    /// the enclosing functions (innermost last): name, identifiers of the body with their positions
    fns: Vec<(String, Vec<(String, (usize, usize))>)>,
    local_consts: Vec<Vec<String>>,
    /// lenient files: the structs / enums / unions the file defines, and the names of the methods /
    /// functions that the target functions call
    local_types: HashSet<String>,
    target_calls: HashSet<String>,
}

/// the names a function body calls: methods, the last segment of called paths, and (macro arguments
/// are token trees) every identifier inside a macro invocation
struct Calls(HashSet<String>);

impl<'ast> Visit<'ast> for Calls {
    fn visit_expr_method_call(&mut self, m: &'ast syn::ExprMethodCall) {
        self.0.insert(m.method.to_string());
        syn::visit::visit_expr_method_call(self, m);
    }
    fn visit_expr_path(&mut self, p: &'ast syn::ExprPath) {
        if let Some(s) = p.path.segments.last() {
            self.0.insert(s.ident.to_string());
        }
        syn::visit::visit_expr_path(self, p);
    }
    fn visit_macro(&mut self, m: &'ast syn::Macro) {
        let mut ids = vec![];
        idents_with_pos(m.tokens.clone(), &mut ids);
        for (i, _) in ids {
            self.0.insert(i);
        }
    }
}

struct LocalTypes(HashSet<String>);

impl<'ast> Visit<'ast> for LocalTypes {
    fn visit_item_struct(&mut self, s: &'ast syn::ItemStruct) {
        self.0.insert(s.ident.to_string());
    }
    fn visit_item_enum(&mut self, s: &'ast syn::ItemEnum) {
        self.0.insert(s.ident.to_string());
    }
    fn visit_item_union(&mut self, s: &'ast syn::ItemUnion) {
        self.0.insert(s.ident.to_string());
    }
}

fn idents_with_pos(ts: proc_macro2::TokenStream, out: &mut Vec<(String, (usize, usize))>) {
    for t in ts {
        match t {
            proc_macro2::TokenTree::Ident(i) => {
                let s = i.span().start();
                out.push((i.to_string(), (s.line, s.column)));
            }
            proc_macro2::TokenTree::Group(g) => idents_with_pos(g.stream(), out),
            _ => {}
        }
    }
}

impl<'a> Pre<'a> {
    fn problem(&mut self, sp: proc_macro2::Span, msg: String) {
        let lc = sp.start();
        self.problems.push(format!("line {}:{}: {}", lc.line, lc.column + 1, msg));
    }

    /// approve the `cfg` / `cfg_attr` attributes of a construct described by `ctx`
    fn approve(&mut self, attrs: &[syn::Attribute], ctx: &str) {
        // at most one `cfg` / `cfg_attr` per construct (stacked ones are a conjunction that the
        // lowering would not see)
        if attrs.iter().filter(|a| attr_name(a) == "cfg").count() > 1 {
            return;
        }
        for a in attrs {
            let n = attr_name(a);
            if n == "cfg" || n == "cfg_attr" {
                let t = attr_text(a);
                if CFG_WHITELIST.iter().any(|(f, c, x)| *f == self.fname && *c == ctx && *x == t) {
                    self.approved.insert(a as *const _);
                }
            }
        }
    }

    /// is the visitor inside one of the target functions of a lenient file (or is the file strict)
    fn strict_here(&self) -> bool {
        match self.lenient {
            None => true,
            Some(ts) => self.fns.first().map(|(n, _)| ts.contains(&n.as_str())).unwrap_or(false),
        }
    }

    /// rules 12 / 21: `#[cfg([not](feature = "compact"))]` on a `return ..;` / `{ .. }` statement is
    /// understood by the lowering; the statements that rule 12 DROPS (`#[cfg(feature = "nightly")]
    /// let ..;`) must be today's, token for token (NIGHTLY_STMTS)
    fn approve_stmt(&mut self, st: &syn::Stmt) {
        let (attrs, kind): (&[syn::Attribute], &str) = match st {
            syn::Stmt::Local(l) => (&l.attrs, "let"),
            syn::Stmt::Expr(syn::Expr::Return(r), _) => (&r.attrs, "stmt"),
            syn::Stmt::Expr(syn::Expr::Block(b), _) => (&b.attrs, "stmt"),
            _ => return,
        };
        if attrs.iter().filter(|a| attr_name(a) == "cfg").count() > 1 {
            return;
        }
        for a in attrs {
            if attr_name(a) == "cfg" {
                let t = attr_text(a);
                let ok = if kind == "let" {
                    let cur = self.fns.last().map(|(n, _)| n.as_str()).unwrap_or("");
                    let text = text(&st);
                    t == NIGHTLY && NIGHTLY_STMTS.iter().any(|(f, func, x)| *f == self.fname && *func == cur && *x == text)
                } else {
                    t == C || t == NC
                };
                if ok {
                    self.approved.insert(a as *const _);
                }
            }
        }
    }

    /// an item / import called `name` is introduced in this file
    fn defines(&mut self, sp: proc_macro2::Span, name: &str, what: &str) {
        if RESERVED.contains(&name) {
            self.problem(sp, format!("{} `{}` redefines a name of the language / std prelude that the translator gives a fixed meaning", what, name));
            return;
        }
        if let Some(files) = self.known.home.get(name) {
            if !files.iter().any(|f| f == self.fname) {
                self.problem(sp, format!("{} `{}` shadows the `{}` that the translator resolves by name", what, name, name));
            }
        }
    }

    fn check_use(&mut self, u: &syn::ItemUse) {
        let mut leaves = vec![];
        let lead = if u.leading_colon.is_some() { "::" } else { "" };
        use_leaves(&u.tree, "", &mut leaves);
        for l in leaves {
            let path = format!("{}{}", lead, l.path);
            if self.lenient.is_some() {
                // only imports that could shadow a name the targets use: globs (they shadow the
                // prelude) unless whitelisted, and guarded names
                match &l.name {
                    None => {
                        if !USE_WHITELIST.iter().any(|(f, p)| *f == self.fname && *p == path) {
                            self.problem(u.span(), format!("glob import `{}`: what it brings into scope is not checked", path));
                        }
                    }
                    Some(n) => {
                        if n != "_" && (RESERVED.contains(&n.as_str()) || self.known.home.contains_key(n)) {
                            self.problem(u.span(), format!("import `{}` introduces `{}`, a name that the translated functions use", path, n));
                        }
                    }
                }
                continue;
            }
            if !(l.renamed) && !USE_WHITELIST.iter().any(|(f, p)| *f == self.fname && *p == path) {
                self.problem(u.span(), format!("unexpected import `{}`: it could change what a name or a method call means", path));
                continue;
            }
            match &l.name {
                None => {}
                Some(n) => {
                    if l.renamed && n != "_" {
                        self.problem(u.span(), format!("`use {} as {}`: renamed imports are unsupported (names are resolved by their spelling)", path, n));
                        continue;
                    }
                    if n == "_" {
                        continue;
                    }
                    // (the import is one of today's, path by path: `std::vec::Vec` may bring in `Vec`)
                    if self.known.home.contains_key(n) {
                        let ok = self.known.import_paths.get(n).map(|ps| ps.iter().any(|p| *p == path)).unwrap_or(false);
                        if !ok {
                            self.problem(u.span(), format!("`{}` is imported from `{}`, not from where the translator expects it", n, path));
                        }
                    }
                }
            }
        }
    }

    fn check_impl(&mut self, im: &syn::ItemImpl) {
        if self.lenient.is_some() {
            // method probing tries by-value candidates (inherent, then trait) before autoref, so a
            // local trait impl for `Option<u32>` with `fn is_some(self)` beats the inherent
            // `Option::is_some(&self)`: impl blocks only for the structs / enums of this file, and
            // none of their functions may be called like something the targets call
            let local = match &*im.self_ty {
                syn::Type::Path(p) if p.qself.is_none() && p.path.leading_colon.is_none() && p.path.segments.len() == 1 => {
                    let n = p.path.segments[0].ident.to_string();
                    self.local_types.contains(&n) && !RESERVED.contains(&n.as_str()) && !im.generics.params.iter().any(|g| matches!(g, syn::GenericParam::Type(t) if t.ident == n))
                }
                _ => false,
            };
            if !local {
                self.problem(im.span(), format!("`impl` block for `{}`, which is not a struct / enum defined in this file (it could change what a method call of the translated functions means)", text(&im.self_ty)));
            }
            for ii in &im.items {
                match ii {
                    syn::ImplItem::Fn(f) => {
                        let n = f.sig.ident.to_string();
                        if self.target_calls.contains(&n) {
                            self.problem(f.span(), format!("the impl function `{}` is called like a method / function that the translated functions call", n));
                        }
                    }
                    syn::ImplItem::Macro(m) => self.problem(m.span(), "macro in impl-item position".into()),
                    _ => {}
                }
            }
            return;
        }
        let tr = match &im.trait_ {
            None => String::new(),
            Some((bang, p, _)) => format!("{}{}", if bang.is_some() { "!" } else { "" }, text(&p)),
        };
        let ty = text(&im.self_ty);
        let entry = IMPLS.iter().find(|(f, t, s, _)| *f == self.fname && canon_trait(t) == tr && canon::<syn::Type>(s) == ty);
        match entry {
            None => self.problem(
                im.span(),
                format!("unexpected `impl {}{}{}`: it could change the meaning of a method / operator that the translator maps", tr, if tr.is_empty() { "" } else { " for " }, ty),
            ),
            Some((_, _, _, allowed)) => {
                let others = impl_other_items(&tr, &ty);
                for ii in &im.items {
                    match ii {
                        syn::ImplItem::Fn(f) => {
                            let n = f.sig.ident.to_string();
                            if !allowed.contains(&n.as_str()) {
                                self.problem(
                                    f.span(),
                                    format!("unexpected function `{}` in `impl {}{}{}` (it could shadow / override what the translator maps)", n, tr, if tr.is_empty() { "" } else { " for " }, ty),
                                );
                            }
                            // C-PIN: untranslated functions that translated code runs through
                            if let Some((_, _, _, want)) = PINNED.iter().find(|(f2, t2, n2, _)| *f2 == self.fname && canon_trait(t2) == tr && *n2 == n) {
                                let got = text(&f.block);
                                if got != canon::<syn::Block>(want) {
                                    self.problem(f.span(), format!("the body of `{}` (not translated, but translated code runs through it) is no longer today's `{}`", n, want));
                                }
                                if n == "deref_mut" {
                                    let d = PINNED.iter().find(|(f2, _, n2, _)| *f2 == self.fname && *n2 == "deref").map(|x| canon::<syn::Block>(x.3)).unwrap_or_default();
                                    if deref_mut_as_deref(&got) != d {
                                        self.problem(f.span(), "`deref_mut` is not `deref` up to mutability".into());
                                    }
                                }
                            }
                        }
                        // C-IMPL: associated constants / types are looked up before the trait's
                        // (`Self::C`), macros in item position can expand to anything
                        syn::ImplItem::Const(c) if others.contains(&c.ident.to_string().as_str()) => {}
                        syn::ImplItem::Type(t) if others.contains(&t.ident.to_string().as_str()) => {}
                        other => self.problem(other.span(), format!("unexpected associated item in `impl {}{}{}` (a constant / type / macro the translator does not know)", tr, if tr.is_empty() { "" } else { " for " }, ty)),
                    }
                }
                // every pinned function of this impl must still be there
                for (f2, t2, n2, _) in PINNED.iter() {
                    if *f2 == self.fname && canon_trait(t2) == tr && !im.items.iter().any(|ii| matches!(ii, syn::ImplItem::Fn(f) if f.sig.ident == n2)) {
                        self.problem(im.span(), format!("`{}` is missing from `impl {} for {}`", n2, tr, ty));
                    }
                }
            }
        }
    }
}

impl<'a, 'ast> Visit<'ast> for Pre<'a> {
    fn visit_attribute(&mut self, a: &'ast syn::Attribute) {
        let n = attr_name(a);
        // lenient files: outside the target functions only attributes that can hide or duplicate
        // a definition matter
        if !self.strict_here() && LENIENT_ATTRS.contains(&n.as_str()) {
            return;
        }
        if HARMLESS_ATTRS.contains(&n.as_str()) || n.starts_with("rustfmt::") {
            return;
        }
        if (n == "allow" || n == "warn" || n == "deny") && lint_attr_ok(a) {
            return;
        }
        if (n == "cfg" || n == "cfg_attr") && self.approved.contains(&(a as *const _)) {
            return;
        }
        self.problem(a.span(), format!("attribute `#[{}]` here is not one of the forms the translator knows", attr_text(a)));
    }

    fn visit_item(&mut self, it: &'ast syn::Item) {
        use syn::Item as I;
        let in_fn = !self.fns.is_empty();
        match it {
            I::Use(u) => {
                let ctx = format!("use:{}", text(&u.tree));
                self.approve(&u.attrs, &ctx);
                // (a `use` inside a function body is held to the same whitelist)
                self.check_use(u);
            }
            I::Fn(f) => {
                self.approve(&f.attrs, &format!("fn:{}", f.sig.ident));
                if in_fn {
                    self.problem(f.span(), format!("local function `{}` inside a function body", f.sig.ident));
                }
                self.defines(f.sig.ident.span(), &f.sig.ident.to_string(), "function");
            }
            I::Const(c) => {
                self.approve(&c.attrs, &format!("const:{}", c.ident));
                self.defines(c.ident.span(), &c.ident.to_string(), "constant");
                if c.ident.to_string().chars().any(|ch| ch.is_lowercase()) {
                    // C-PAT: a lower-case constant turns binding patterns into constant patterns,
                    // also inside macro bodies, which the pre-pass cannot see
                    self.problem(c.ident.span(), format!("constant `{}` is not an upper-case name", c.ident));
                }
                if in_fn {
                    // a local constant is visible in its whole block, and turns identifier patterns
                    // of its name into constant patterns: only upper-case names, declared before
                    // any other mention of the name in the function, are accepted
                    let n = c.ident.to_string();
                    let s = c.span().start();
                    let upper = n.chars().all(|ch| ch.is_ascii_uppercase() || ch.is_ascii_digit() || ch == '_') && n.chars().any(|ch| ch.is_ascii_uppercase());
                    let early = self.fns.last().map(|(_, ids)| ids.iter().any(|(x, p)| *x == n && *p < (s.line, s.column))).unwrap_or(false);
                    if !upper {
                        self.problem(c.span(), format!("local constant `{}` is not an upper-case name (it could turn a binding pattern into a constant pattern)", n));
                    } else if early {
                        self.problem(c.span(), format!("local constant `{}` is mentioned before its declaration (constants are visible in their whole block)", n));
                    } else if self.value_names.contains(&n) {
                        self.problem(c.span(), format!("local constant `{}` shadows an item / import of the file", n));
                    }
                    if let Some(l) = self.local_consts.last_mut() {
                        l.push(n);
                    }
                }
            }
            I::Static(c) => {
                self.approve(&c.attrs, &format!("static:{}", c.ident));
                self.defines(c.ident.span(), &c.ident.to_string(), "static");
                if c.ident.to_string().chars().any(|ch| ch.is_lowercase()) {
                    self.problem(c.ident.span(), format!("static `{}` is not an upper-case name", c.ident));
                }
                // (`#[used] #[link_section = ".init_array"] static ..` runs code before main)
                if !(self.fname == "table_lemire.rs" && c.ident == "POWER_OF_FIVE_128" && !in_fn) {
                    self.problem(c.span(), format!("`static {}`: the only static today is the table POWER_OF_FIVE_128", c.ident));
                }
            }
            I::Type(t) => {
                self.approve(&t.attrs, &format!("type:{}", t.ident));
                self.defines(t.ident.span(), &t.ident.to_string(), "type alias");
                if in_fn {
                    self.problem(t.span(), "`type` inside a function body".into());
                }
            }
            I::Struct(s) => {
                self.approve(&s.attrs, &format!("struct:{}", s.ident));
                self.defines(s.ident.span(), &s.ident.to_string(), "struct");
                if in_fn {
                    self.problem(s.span(), "`struct` inside a function body".into());
                }
            }
            I::Enum(s) => {
                self.approve(&s.attrs, &format!("enum:{}", s.ident));
                self.defines(s.ident.span(), &s.ident.to_string(), "enum");
                if in_fn {
                    self.problem(s.span(), "`enum` inside a function body".into());
                }
            }
            I::Trait(s) => {
                for ti in &s.items {
                    if !matches!(ti, syn::TraitItem::Fn(_) | syn::TraitItem::Const(_)) {
                        self.problem(ti.span(), format!("unexpected item in `trait {}` (a macro / type the translator does not know)", s.ident));
                    }
                }
                self.approve(&s.attrs, &format!("trait:{}", s.ident));
                self.defines(s.ident.span(), &s.ident.to_string(), "trait");
                if self.fname.starts_with("front_") {
                    // a trait method taking `self` by value is probed before the inherent `&self`
                    // methods of `Option` / integers that the translation maps
                    self.problem(s.span(), format!("`trait {}` in a front-end file (none today; its methods could be probed before the inherent ones the translator maps)", s.ident));
                }
                if in_fn {
                    self.problem(s.span(), "`trait` inside a function body".into());
                }
            }
            I::Impl(im) => {
                self.approve(&im.attrs, "impl");
                if in_fn {
                    self.problem(im.span(), "`impl` inside a function body".into());
                }
                self.check_impl(im);
            }
            I::Mod(m) => {
                self.approve(&m.attrs, &format!("mod:{}", m.ident));
                // modules live in the type namespace: `mod slow;` in lib.rs does not shadow `fn slow`
                if !(self.is_lib_rs && m.content.is_none()) || RESERVED.contains(&m.ident.to_string().as_str()) {
                    self.defines(m.ident.span(), &m.ident.to_string(), "module");
                }
                if self.lenient.is_some() {
                    // a module keeps its items to itself (glob imports are refused, its name is guarded)
                } else if m.content.is_some() {
                    self.problem(m.span(), format!("inline module `{}` (its items and imports are not checked)", m.ident));
                } else if !self.is_lib_rs {
                    self.problem(m.span(), format!("module declaration `mod {};` outside lib.rs", m.ident));
                }
            }
            I::ExternCrate(e) => {
                self.approve(&e.attrs, &format!("extern:{}", e.ident));
                let ok = e.rename.is_none()
                    && ((self.is_lib_rs && e.ident == "alloc")
                        || (self.fname.starts_with("front_") && e.ident == "minimal_lexical")
                        || (self.lenient.is_some() && !RESERVED.contains(&e.ident.to_string().as_str())));
                if !ok {
                    self.problem(e.span(), format!("unexpected `extern crate {}`", e.ident));
                }
            }
            I::Macro(m) => {
                self.approve(&m.attrs, "macro");
                if m.mac.path.is_ident("macro_rules") {
                    // C-MACRO: only today's macros, in today's files (none in lib.rs: a macro
                    // defined there is in textual scope of every later module)
                    let name = m.ident.as_ref().map(|i| i.to_string()).unwrap_or_default();
                    // (lenient files: the targets may not invoke any macro of the file - the
                    // lowering has no macro table for them)
                    if self.lenient.is_none() && !MACROS.iter().any(|(f, n)| *f == self.fname && *n == name) {
                        self.problem(m.span(), format!("unexpected `macro_rules! {}` (macros are looked up per file and by name)", name));
                    }
                    if let Some(id) = &m.ident {
                        // macros have their own namespace: only the std macros with a fixed meaning
                        if RESERVED_MACROS.contains(&id.to_string().as_str()) {
                            self.problem(id.span(), format!("macro `{}` redefines a macro of the std prelude", id));
                        }
                    }
                    if in_fn {
                        self.problem(m.span(), "`macro_rules!` inside a function body".into());
                    }
                } else {
                    // an item-position macro can expand to anything (items, `include!`, ..);
                    // in statement position syn reports macros as Stmt::Macro, not as items
                    self.problem(m.span(), format!("macro invocation `{}!` in item position", m.mac.path.to_token_stream()));
                }
            }
            other => self.problem(other.span(), "unsupported kind of item".into()),
        }
        syn::visit::visit_item(self, it);
    }

    fn visit_item_fn(&mut self, f: &'ast syn::ItemFn) {
        let mut ids = vec![];
        idents_with_pos(f.block.to_token_stream(), &mut ids);
        self.fns.push((f.sig.ident.to_string(), ids));
        self.local_consts.push(vec![]);
        syn::visit::visit_item_fn(self, f);
        self.local_consts.pop();
        self.fns.pop();
    }

    fn visit_impl_item_fn(&mut self, f: &'ast syn::ImplItemFn) {
        let mut ids = vec![];
        idents_with_pos(f.block.to_token_stream(), &mut ids);
        self.fns.push((f.sig.ident.to_string(), ids));
        self.local_consts.push(vec![]);
        syn::visit::visit_impl_item_fn(self, f);
        self.local_consts.pop();
        self.fns.pop();
    }

    fn visit_trait_item_fn(&mut self, f: &'ast syn::TraitItemFn) {
        let mut ids = vec![];
        if let Some(b) = &f.default {
            idents_with_pos(b.to_token_stream(), &mut ids);
        }
        self.fns.push((f.sig.ident.to_string(), ids));
        self.local_consts.push(vec![]);
        syn::visit::visit_trait_item_fn(self, f);
        self.local_consts.pop();
        self.fns.pop();
    }

    fn visit_type_param(&mut self, tp: &'ast syn::TypeParam) {
        // a type parameter called like a type with a fixed meaning (`fn f<u64>(..)`) shadows it
        let n = tp.ident.to_string();
        if RESERVED.contains(&n.as_str()) || (self.known.home.contains_key(&n) && n != "F") {
            self.problem(tp.span(), format!("type parameter `{}` shadows a name that the translator gives a fixed meaning", n));
        }
        syn::visit::visit_type_param(self, tp);
    }

    fn visit_stmt(&mut self, st: &'ast syn::Stmt) {
        self.approve_stmt(st);
        syn::visit::visit_stmt(self, st);
    }

    fn visit_pat_ident(&mut self, p: &'ast syn::PatIdent) {
        let n = p.ident.to_string();
        if GLOBAL_CONSTS.contains(&n.as_str()) {
            self.problem(p.span(), format!("the binding `{}` is spelled like a global constant that the translator resolves by name", n));
        }
        if n != "None" {
            let local = self.local_consts.iter().any(|l| l.contains(&n));
            if local || self.value_names.contains(&n) {
                self.problem(p.span(), format!("the pattern identifier `{}` is also a constant / item / import in scope: it may be a constant pattern, not a binding", n));
            }
        }
        syn::visit::visit_pat_ident(self, p);
    }

    fn visit_macro(&mut self, m: &'ast syn::Macro) {
        let n = macro_name(m);
        if n.starts_with("include") {
            self.problem(m.span(), format!("`{}!`: text from another file is not checked", n));
        }
        if n == "asm" || n == "global_asm" || n == "llvm_asm" {
            self.problem(m.span(), format!("`{}!`: assembly is not read", n));
        }
        // C-MACROTOK
        let mut found = vec![];
        scan_macro_tokens(m.tokens.clone(), m.path.is_ident("macro_rules"), &mut found);
        if let Some(f) = found.first() {
            self.problem(m.span(), format!("`{}!`: {}", n, f));
        }
        syn::visit::visit_macro(self, m);
    }
}

/// names of a file's value namespace that may make an identifier pattern a constant pattern:
/// constants, statics, unit / tuple structs, enum variants cannot be imported without a `use`, so
/// the `use` leaves are included
pub fn value_names(file: &syn::File) -> HashSet<String> {
    let mut s = HashSet::new();
    for it in &file.items {
        match it {
            syn::Item::Const(c) => {
                s.insert(c.ident.to_string());
            }
            syn::Item::Static(c) => {
                s.insert(c.ident.to_string());
            }
            syn::Item::Struct(c) if !matches!(c.fields, syn::Fields::Named(_)) => {
                s.insert(c.ident.to_string());
            }
            syn::Item::Use(u) => {
                let mut l = vec![];
                use_leaves(&u.tree, "", &mut l);
                for x in l {
                    if let Some(n) = x.name {
                        // the imports are whitelisted one by one: the lower-case ones are functions
                        // and modules, which cannot be constant patterns
                        if n.chars().next().map(|c| c.is_uppercase()).unwrap_or(false) {
                            s.insert(n);
                        }
                    }
                }
            }
            _ => {}
        }
    }
    s
}

/// duplicate definitions: rustc takes the one whose `cfg` holds, the translator would take the
/// first / last.  Two definitions of one name are only accepted when each carries one of the
/// whitelisted `cfg`s (the Limb / VecType / LARGE_POW5 selections, the two `Vec` imports).
fn duplicates(fname: &str, file: &syn::File, problems: &mut Vec<String>) {
    let cfgd = |attrs: &[syn::Attribute], ctx: &str| -> bool {
        attrs.iter().any(|a| {
            let n = attr_name(a);
            (n == "cfg") && CFG_WHITELIST.iter().any(|(f, c, x)| *f == fname && *c == ctx && *x == attr_text(a))
        })
    };
    // (namespace, name) -> (count, all under a whitelisted cfg)
    let mut seen: HashMap<(u8, String), (usize, bool)> = HashMap::new();
    let mut add = |ns: u8, name: String, ok: bool| {
        let e = seen.entry((ns, name)).or_insert((0, true));
        e.0 += 1;
        e.1 &= ok;
    };
    let mut impls: HashMap<(String, String), usize> = HashMap::new();
    let mut methods: HashMap<(String, String, String), usize> = HashMap::new();
    for it in &file.items {
        use syn::Item as I;
        match it {
            I::Fn(f) => add(1, f.sig.ident.to_string(), cfgd(&f.attrs, &format!("fn:{}", f.sig.ident))),
            I::Const(c) => add(1, c.ident.to_string(), cfgd(&c.attrs, &format!("const:{}", c.ident))),
            I::Static(c) => add(1, c.ident.to_string(), false),
            I::Type(t) => add(0, t.ident.to_string(), cfgd(&t.attrs, &format!("type:{}", t.ident))),
            I::Struct(s) => {
                add(0, s.ident.to_string(), false);
                if !matches!(s.fields, syn::Fields::Named(_)) {
                    add(1, s.ident.to_string(), false);
                }
            }
            I::Enum(s) => add(0, s.ident.to_string(), false),
            I::Trait(s) => add(0, s.ident.to_string(), false),
            I::Mod(m) => add(0, m.ident.to_string(), false),
            I::Macro(m) => {
                if let Some(id) = &m.ident {
                    add(2, id.to_string(), false);
                }
            }
            I::Use(u) => {
                let ctx = format!("use:{}", text(&u.tree));
                let ok = cfgd(&u.attrs, &ctx);
                let mut l = vec![];
                use_leaves(&u.tree, "", &mut l);
                for x in l {
                    if let Some(n) = x.name {
                        // an import is in both namespaces
                        add(0, n.clone(), ok);
                        add(1, n, ok);
                    }
                }
            }
            I::Impl(im) => {
                let tr = im.trait_.as_ref().map(|(_, p, _)| text(&p)).unwrap_or_default();
                let ty = text(&im.self_ty);
                *impls.entry((tr.clone(), ty.clone())).or_insert(0) += 1;
                for ii in &im.items {
                    let n = match ii {
                        syn::ImplItem::Fn(f) => f.sig.ident.to_string(),
                        syn::ImplItem::Const(c) => c.ident.to_string(),
                        syn::ImplItem::Type(t) => t.ident.to_string(),
                        _ => continue,
                    };
                    *methods.entry((tr.clone(), ty.clone(), n)).or_insert(0) += 1;
                }
            }
            _ => {}
        }
    }
    let mut names: Vec<_> = seen.iter().filter(|(_, (n, ok))| *n > 1 && !*ok).map(|((_, name), _)| name.clone()).collect();
    names.sort();
    names.dedup();
    for n in names {
        problems.push(format!("`{}` is defined more than once in the file", n));
    }
    let mut v: Vec<_> = impls.iter().filter(|(_, n)| **n > 1).map(|((t, s), _)| format!("impl {} for {}", t, s)).collect();
    v.sort();
    for n in v {
        problems.push(format!("`{}` appears more than once", n.replace("impl  for ", "impl ")));
    }
    let mut v: Vec<_> = methods.iter().filter(|(_, n)| **n > 1).map(|((_, s, m), _)| format!("{}::{}", s, m)).collect();
    v.sort();
    for n in v {
        problems.push(format!("`{}` is defined more than once", n));
    }
    // trait items: a default method defined twice
    for it in &file.items {
        if let syn::Item::Trait(t) = it {
            let mut c: HashMap<String, usize> = HashMap::new();
            for ti in &t.items {
                let n = match ti {
                    syn::TraitItem::Fn(f) => f.sig.ident.to_string(),
                    syn::TraitItem::Const(x) => x.ident.to_string(),
                    _ => continue,
                };
                *c.entry(n).or_insert(0) += 1;
            }
            for (n, k) in c {
                if k > 1 {
                    problems.push(format!("`{}::{}` is defined more than once", t.ident, n));
                }
            }
        }
    }
}

/// The pre-pass over one source file.  Returns the problems found (empty: the file is fine).
pub fn check_file(fname: &str, file: &syn::File, known: &Known) -> Vec<String> {
    check_file_mode(fname, file, known, None)
}

/// `lenient` = Some(target function names): see `Pre::lenient`
pub fn check_file_mode(fname: &str, file: &syn::File, known: &Known, lenient: Option<&[&str]>) -> Vec<String> {
    let mut local_types = LocalTypes(HashSet::new());
    let mut target_calls = Calls(HashSet::new());
    if let Some(ts) = lenient {
        local_types.visit_file(file);
        for it in &file.items {
            if let syn::Item::Fn(f) = it {
                if ts.contains(&f.sig.ident.to_string().as_str()) {
                    target_calls.visit_item_fn(f);
                }
            }
        }
    }
    let mut p = Pre {
        local_types: local_types.0,
        target_calls: target_calls.0,
        fname,
        known,
        lenient,
        is_lib_rs: fname == "lib.rs",
        problems: vec![],
        approved: HashSet::new(),
        value_names: value_names(file),
        fns: vec![],
        local_consts: vec![],
    };
    p.approve(&file.attrs, "file");
    p.visit_file(file);
    let mut problems = p.problems;
    duplicates(fname, file, &mut problems);
    raw_idents(file.to_token_stream(), &mut problems);
    if lenient.is_none() {
        // C-USE, the other direction: the imports the translation relies on (`ptr::write` is
        // core's because of `use core::{.., ptr, ..}`) must be PRESENT - without the import the
        // path would resolve to a dependency crate of that name
        let mut uses = AllUses(vec![]);
        uses.visit_file(file);
        for (f, path) in USE_WHITELIST {
            if *f == fname && !uses.0.iter().any(|p| p == path) {
                problems.push(format!("the import `{}` of today is missing (the names it brings in would resolve to something else)", path));
            }
        }
    }
    // C-DERIVE
    for (f, name, want) in STRUCT_ATTRS {
        if *f != fname {
            continue;
        }
        for it in &file.items {
            if let syn::Item::Struct(st) = it {
                if st.ident == name {
                    let got: Vec<String> = st.attrs.iter().filter(|a| attr_name(a) != "doc").map(attr_text).collect();
                    let want: Vec<String> = want.iter().map(|w| canon::<syn::Meta>(w)).collect();
                    if got != want {
                        problems.push(format!("the attributes of `struct {}` are {:?}, no longer today's {:?} (the derives are what `==`, `clone`, `default` mean)", name, got, want));
                    }
                }
            }
        }
    }
    problems
}

struct AllUses(Vec<String>);

impl<'ast> Visit<'ast> for AllUses {
    fn visit_item_use(&mut self, u: &'ast syn::ItemUse) {
        let mut leaves = vec![];
        use_leaves(&u.tree, "", &mut leaves);
        let lead = if u.leading_colon.is_some() { "::" } else { "" };
        for l in leaves {
            if !l.renamed {
                self.0.push(format!("{}{}", lead, l.path));
            }
        }
    }
}

/// table.rs re-exports the tables and nothing else: an item of its own would shadow a glob
/// re-export (`pub const SMALL_INT_POW10` beats `pub use crate::table_small::*`), and the pinned
/// primitives would read another table although their tokens are unchanged
pub fn check_table_rs(file: &syn::File) -> Vec<String> {
    const ITEMS: &[&str] = &[
        "#[cfg(feature = \"compact\")] pub use crate::table_bellerophon::*;",
        "#[cfg(not(feature = \"compact\"))] pub use crate::table_lemire::*;",
        "#[cfg(not(feature = \"compact\"))] pub use crate::table_small::*;",
    ];
    let got: Vec<String> = file.items.iter().map(text).collect();
    let want: Vec<String> = ITEMS.iter().map(|i| canon::<syn::Item>(i)).collect();
    let mut problems = vec![];
    for g in &got {
        if !want.contains(g) {
            problems.push(format!("table.rs: the item `{}` is not one of today's three `pub use` (it could shadow a re-exported table)", g.chars().take(120).collect::<String>()));
        }
    }
    for w in &want {
        if got.iter().filter(|g| *g == w).count() != 1 {
            problems.push(format!("table.rs: `{}` does not occur exactly once", w));
        }
    }
    for a in &file.attrs {
        if attr_name(a) != "doc" {
            problems.push(format!("table.rs: file attribute `#[{}]`", attr_text(a)));
        }
    }
    problems
}

/// C-RAWID: `r#Some` IS the identifier `Some` for rustc, but not for any comparison by spelling: no
/// raw identifier anywhere in a file (items, bodies, attributes, macro tokens)
fn raw_idents(ts: proc_macro2::TokenStream, problems: &mut Vec<String>) {
    for t in ts {
        match t {
            proc_macro2::TokenTree::Ident(i) => {
                if i.to_string().starts_with("r#") {
                    let lc = i.span().start();
                    problems.push(format!("line {}:{}: raw identifier `{}` (names are compared by their spelling)", lc.line, lc.column + 1, i));
                }
            }
            proc_macro2::TokenTree::Group(g) => raw_idents(g.stream(), problems),
            _ => {}
        }
    }
}

/// lib.rs: the files that are read are the modules of their name: one plain `mod x;` each, without
/// `#[path]` (checked by the attribute whitelist) and without an inline body
pub fn check_modules(lib: &syn::File, modules: &[&str]) -> Vec<String> {
    let mut problems = vec![];
    for m in modules {
        let decls: Vec<&syn::ItemMod> = lib
            .items
            .iter()
            .filter_map(|it| match it {
                syn::Item::Mod(x) if x.ident == m => Some(x),
                _ => None,
            })
            .collect();
        match decls.as_slice() {
            [d] if d.content.is_none() => {}
            [] => problems.push(format!("lib.rs does not declare `mod {};`", m)),
            _ => problems.push(format!("lib.rs does not declare `mod {};` exactly once, without a body", m)),
        }
    }
    problems
}

/// the `impl` blocks, type aliases and macros of the modules that are NOT read, as they are today:
/// (file, description).  An impl can sit in any module and can be written through a type alias, so
/// in these modules every impl block, every `type` alias and every macro must be one of these.
const UNREAD_ITEMS: &[(&str, &str)] = &[("fpu.rs", "impl Drop for FPUControlWord"), ("libm.rs", "macro i")];

/// the attributes (doc comments excepted) of the modules that are not read, as they are today
const UNREAD_ATTRS: &[(&str, &str)] = &[
    ("fpu.rs", "cfg(feature = \"nightly\")"),
    ("fpu.rs", "cfg(all(target_arch = \"x86\", not(target_feature = \"sse2\")))"),
    ("fpu.rs", "cfg(any(not(target_arch = \"x86\"), target_feature = \"sse2\"))"),
    ("libm.rs", "cfg(all(not(feature = \"std\"), feature = \"compact\"))"),
    ("libm.rs", "cfg(not(target_feature = \"sse\"))"),
    ("libm.rs", "cfg(not(target_feature = \"sse2\"))"),
    ("libm.rs", "cfg(target_feature = \"sse\")"),
    ("libm.rs", "cfg(target_feature = \"sse2\")"),
    ("libm.rs", "cfg(target_arch = \"x86\")"),
    ("libm.rs", "cfg(target_arch = \"x86_64\")"),
    ("libm.rs", "inline"),
    ("table_bellerophon.rs", "cfg(feature = \"compact\")"),
];

/// the `asm!` invocations of today (fpu.rs, only compiled with feature nightly): token text
const UNREAD_ASM: &[(&str, &str)] = &[
    ("fpu.rs", "asm ! (\"fldcw word ptr [{}]\" , in (reg) & cw , options (nostack) ,)"),
    ("fpu.rs", "asm ! (\"fnstcw word ptr [{}]\" , in (reg) & mut cw , options (nostack) ,)"),
];

/// the modules lib.rs declares today
pub const KNOWN_MODULES: &[&str] = &[
    "bellerophon", "bigint", "extended_float", "fpu", "heapvec", "lemire", "libm", "mask", "num", "number", "parse", "rounding", "slow",
    "stackvec", "table", "table_bellerophon", "table_lemire", "table_small",
];

struct Unread<'a> {
    fname: &'a str,
    problems: Vec<String>,
}

impl<'a> Unread<'a> {
    fn expect(&mut self, sp: proc_macro2::Span, what: String) {
        if !UNREAD_ITEMS.iter().any(|(f, w)| *f == self.fname && *w == what) {
            let lc = sp.start();
            self.problems.push(format!("line {}:{}: `{}` in a module that is not read (impls can live anywhere and hide behind aliases)", lc.line, lc.column + 1, what));
        }
    }
}

impl<'a, 'ast> Visit<'ast> for Unread<'a> {
    fn visit_item_impl(&mut self, im: &'ast syn::ItemImpl) {
        let tr = im.trait_.as_ref().map(|(_, p, _)| text(&p)).unwrap_or_default();
        let ty = text(&im.self_ty);
        let what = if tr.is_empty() { format!("impl {}", ty) } else { format!("impl {} for {}", tr, ty) };
        self.expect(im.span(), what);
        syn::visit::visit_item_impl(self, im);
    }
    fn visit_item_type(&mut self, t: &'ast syn::ItemType) {
        self.expect(t.span(), format!("type {}", t.ident));
    }
    fn visit_item_macro(&mut self, m: &'ast syn::ItemMacro) {
        match (&m.ident, m.mac.path.is_ident("macro_rules")) {
            (Some(id), true) => self.expect(m.span(), format!("macro {}", id)),
            _ => self.expect(m.span(), format!("{}! in item position", text(&m.mac.path))),
        }
        for at in &m.attrs {
            self.visit_attribute(at);
        }
        self.visit_macro(&m.mac);
    }
    fn visit_item_mod(&mut self, m: &'ast syn::ItemMod) {
        if m.content.is_none() {
            let lc = m.span().start();
            self.problems.push(format!("line {}:{}: `mod {};`: a further file that is not read", lc.line, lc.column + 1, m.ident));
        }
        syn::visit::visit_item_mod(self, m);
    }
    fn visit_impl_item_macro(&mut self, m: &'ast syn::ImplItemMacro) {
        self.expect(m.span(), "macro in impl-item position".into());
    }
    fn visit_trait_item_macro(&mut self, m: &'ast syn::TraitItemMacro) {
        self.expect(m.span(), "macro in trait-item position".into());
    }
    fn visit_attribute(&mut self, a: &'ast syn::Attribute) {
        // C-ATTR for the modules that are not read: `#[used]`, `#[link_section]`, `#[no_mangle]`,
        // `#[export_name]`, `#[global_allocator]`, `#[path]`, `#[macro_use]`, .. act on the whole
        // program: doc comments and, attribute by attribute, today's
        let n = attr_name(a);
        let t = attr_text(a);
        if n == "doc" || UNREAD_ATTRS.iter().any(|(f, x)| *f == self.fname && canon::<syn::Meta>(x) == t) {
            return;
        }
        let lc = a.span().start();
        self.problems.push(format!("line {}:{}: attribute `#[{}]` in a module that is not read is not one of today's", lc.line, lc.column + 1, t));
    }
    fn visit_item_static(&mut self, i: &'ast syn::ItemStatic) {
        let lc = i.span().start();
        self.problems.push(format!("line {}:{}: `static {}` in a module that is not read (none today)", lc.line, lc.column + 1, i.ident));
        syn::visit::visit_item_static(self, i);
    }
    fn visit_item_foreign_mod(&mut self, i: &'ast syn::ItemForeignMod) {
        let lc = i.span().start();
        self.problems.push(format!("line {}:{}: `extern` block in a module that is not read (none today)", lc.line, lc.column + 1));
    }
    fn visit_macro(&mut self, m: &'ast syn::Macro) {
        let n = macro_name(m);
        let lc = m.span().start();
        if n.starts_with("include") {
            self.problems.push(format!("line {}:{}: `include!`", lc.line, lc.column + 1));
        }
        if n == "asm" || n == "global_asm" || n == "llvm_asm" {
            // today's two control-word accesses of fpu.rs (compiled only with feature nightly)
            let t = text(m);
            if !UNREAD_ASM.iter().any(|(f, x)| *f == self.fname && *x == t) {
                self.problems.push(format!("line {}:{}: `{}` is not one of today's `asm!` invocations", lc.line, lc.column + 1, t));
            }
        } else {
            // C-MACROTOK
            let mut found = vec![];
            scan_macro_tokens(m.tokens.clone(), m.path.is_ident("macro_rules"), &mut found);
            if let Some(f) = found.first() {
                self.problems.push(format!("line {}:{}: `{}!`: {}", lc.line, lc.column + 1, n, f));
            }
        }
        syn::visit::visit_macro(self, m);
    }
}

/// a module of the crate that the translator does not read (fpu.rs, libm.rs, table_bellerophon.rs)
pub fn check_unread(fname: &str, file: &syn::File) -> Vec<String> {
    let mut u = Unread { fname, problems: vec![] };
    if fname == "fpu.rs" && !file.attrs.iter().any(|a| attr_text(a) == NIGHTLY) {
        // rule 12 drops the statement that calls into it
        u.problems.push("fpu.rs is no longer gated by `#![cfg(feature = \"nightly\")]`".into());
    }
    u.visit_file(file);
    raw_idents(file.to_token_stream(), &mut u.problems);
    u.problems
}

/// the `mod x;` declarations of lib.rs
pub fn declared_modules(lib: &syn::File) -> Vec<String> {
    lib.items
        .iter()
        .filter_map(|it| match it {
            syn::Item::Mod(m) if m.content.is_none() => Some(m.ident.to_string()),
            _ => None,
        })
        .collect()
}

struct Expansion<'a> {
    problems: Vec<String>,
    value_names: &'a HashSet<String>,
}

impl<'a, 'ast> Visit<'ast> for Expansion<'a> {
    fn visit_attribute(&mut self, a: &'ast syn::Attribute) {
        if attr_name(a) != "doc" {
            self.problems.push(format!("attribute `#[{}]` inside a macro body / macro argument", attr_text(a)));
        }
    }
    fn visit_item(&mut self, it: &'ast syn::Item) {
        self.problems.push("an item inside a macro body / macro argument".into());
        syn::visit::visit_item(self, it);
    }
    fn visit_pat_ident(&mut self, p: &'ast syn::PatIdent) {
        // (constant patterns: the pre-pass does not see macro bodies; upper-case binders are refused)
        let n = p.ident.to_string();
        if n != "None" && (n.chars().next().map(|c| c.is_uppercase()).unwrap_or(false) || self.value_names.contains(&n) || GLOBAL_CONSTS.contains(&n.as_str())) {
            self.problems.push(format!("the pattern identifier `{}` inside a macro body may be a constant pattern", n));
        }
        syn::visit::visit_pat_ident(self, p);
    }
}

/// the pre-pass does not see inside macro bodies / arguments (token trees): what a macro of the
/// file expands to, and the arguments of `debug_assert!`, may not contain attributes or items
pub fn check_expansion_stmts(stmts: &[syn::Stmt], value_names: &HashSet<String>) -> Result<(), String> {
    let mut e = Expansion { problems: vec![], value_names };
    for s in stmts {
        e.visit_stmt(s);
    }
    match e.problems.first() {
        Some(p) => Err(p.clone()),
        None => Ok(()),
    }
}

pub fn check_expansion_expr(x: &syn::Expr, value_names: &HashSet<String>) -> Result<(), String> {
    let mut e = Expansion { problems: vec![], value_names };
    e.visit_expr(x);
    match e.problems.first() {
        Some(p) => Err(p.clone()),
        None => Ok(()),
    }
}

// ---------------------------------------------------------------------- pinned primitives (C-PRIM)

/// the text of a function that is pinned: its attributes (doc comments excepted), signature and
/// body, as `quote!` prints them (`text`)
pub fn pin_text(attrs: &[syn::Attribute], vis: &syn::Visibility, sig: &syn::Signature, block: &syn::Block) -> String {
    let mut parts: Vec<String> = vec![];
    for a in attrs {
        if attr_name(a) != "doc" {
            parts.push(text(a));
        }
    }
    parts.push(text(vis));
    parts.push(text(sig));
    parts.push(text(block));
    parts.retain(|p| !p.is_empty());
    parts.join(" ")
}

/// every function of `file` that may be pinned: (owner, name, text); owner = "" for a free function,
/// "<trait> for <type>" / "<type>" for an impl
pub fn pinnable(file: &syn::File) -> Vec<(String, String, String)> {
    let mut v = vec![];
    for it in &file.items {
        match it {
            syn::Item::Fn(f) => v.push((String::new(), f.sig.ident.to_string(), pin_text(&f.attrs, &f.vis, &f.sig, &f.block))),
            syn::Item::Impl(im) => {
                let ty = text(&im.self_ty);
                let owner = match &im.trait_ {
                    Some((_, p, _)) => format!("{} for {}", text(&p), ty),
                    None => ty,
                };
                for ii in &im.items {
                    if let syn::ImplItem::Fn(f) = ii {
                        v.push((owner.clone(), f.sig.ident.to_string(), pin_text(&f.attrs, &f.vis, &f.sig, &f.block)));
                    }
                }
            }
            syn::Item::Enum(e) => v.push(("enum".into(), e.ident.to_string(), text(&e))),
            _ => {}
        }
    }
    v
}

/// C-PRIM: the primitives that the translation calls by name with the meaning of the hand models
/// (rule 10: model/Num.v `from_bits`, model/FloatOps.v `f_from_u64`, model/Number.v `pow_fast_path`
/// / `int_pow_fast_path`; `to_bits`; the `powf` / `powd` wrappers; `FastPathRadix` and its
/// conversion).  Their text is not translated, so it must be, token for token, today's.
pub fn check_pinned_primitives(fname: &str, file: &syn::File) -> Vec<String> {
    let mut problems = vec![];
    let have = pinnable(file);
    for (f, owner, name, want) in crate::pins::PRIMITIVES.iter() {
        if *f != fname {
            continue;
        }
        let found: Vec<&(String, String, String)> = have.iter().filter(|(o, n, _)| o == owner && n == name).collect();
        match found.as_slice() {
            [(_, _, got)] if got == want => {}
            [(_, _, _)] => problems.push(format!(
                "the primitive `{}{}{}` (rule 10: called by name with the meaning of the hand model) is no longer, token for token, today's",
                owner,
                if owner.is_empty() { "" } else { " :: " },
                name
            )),
            [] => problems.push(format!("the primitive `{} {}` is missing", owner, name)),
            _ => problems.push(format!("the primitive `{} {}` is defined more than once", owner, name)),
        }
    }
    problems
}

// ---------------------------------------------------------------------- 32-bit-only code (C-PIN32)

struct Dropped {
    fns: Vec<String>,
    count: HashMap<String, usize>,
    out: Vec<(String, String)>,
}

impl Dropped {
    fn add(&mut self, kind: &str, text: String) {
        let f = self.fns.last().cloned().unwrap_or_default();
        let n = self.count.entry(format!("{}:{}", f, kind)).or_insert(0);
        self.out.push((format!("{}#{}{}", f, kind, n), text));
        *n += 1;
    }
}

impl<'ast> Visit<'ast> for Dropped {
    fn visit_item_fn(&mut self, f: &'ast syn::ItemFn) {
        self.fns.push(f.sig.ident.to_string());
        syn::visit::visit_item_fn(self, f);
        self.fns.pop();
    }
    fn visit_impl_item_fn(&mut self, f: &'ast syn::ImplItemFn) {
        self.fns.push(f.sig.ident.to_string());
        syn::visit::visit_impl_item_fn(self, f);
        self.fns.pop();
    }
    fn visit_expr_if(&mut self, e: &'ast syn::ExprIf) {
        match crate::ctrl::static_cond(&e.cond) {
            // `if LIMB_BITS == 32 { A } else { B }`: A is dropped
            Some(false) => self.add("if", text(&e.then_branch)),
            Some(true) => self.add("else", e.else_branch.as_ref().map(|(_, x)| text(&x)).unwrap_or_default()),
            None => {}
        }
        syn::visit::visit_expr_if(self, e);
    }
    fn visit_arm(&mut self, a: &'ast syn::Arm) {
        if let Some((_, g)) = &a.guard {
            if crate::ctrl::static_cond(g) == Some(false) {
                self.add("arm", text(&a));
            }
        }
        syn::visit::visit_arm(self, a);
    }
}

/// C-PIN32: the code that the translation drops or never reads because it belongs to the 32-bit
/// limb configuration (rule 14 resolves `LIMB_BITS == 32` statically): (key, token text) of every
/// dropped `if LIMB_BITS == 32` branch and guarded match arm (by enclosing function and position),
/// of the functions `u32_to_hi64_*`, of the items under the not-64-bit `cfg`, and of the arms
/// `@3` / `@nonzero3` of `hi!`
pub fn dropped32(file: &syn::File) -> Vec<(String, String)> {
    let mut d = Dropped { fns: vec![], count: HashMap::new(), out: vec![] };
    d.visit_file(file);
    let mut out = d.out;
    for it in &file.items {
        match it {
            syn::Item::Fn(f) if f.sig.ident.to_string().starts_with("u32_to_hi64_") => {
                out.push((format!("fn:{}", f.sig.ident), pin_text(&f.attrs, &f.vis, &f.sig, &f.block)));
            }
            syn::Item::Type(t) if t.attrs.iter().any(|a| attr_text(a) == NL64) => {
                out.push((format!("cfg32:type {}", t.ident), text(&t)));
            }
            syn::Item::Const(c) if c.attrs.iter().any(|a| attr_text(a) == NL64) => {
                let at: Vec<String> = c.attrs.iter().filter(|a| attr_name(a) != "doc").map(|a| text(&a)).collect();
                let (ty, ex) = (&c.ty, &c.expr);
                out.push((format!("cfg32:const {}", c.ident), format!("{} const {} : {} = {} ;", at.join(" "), c.ident, text(&ty), text(&ex))));
            }
            syn::Item::Macro(m) if m.ident.as_ref().map(|i| i == "hi").unwrap_or(false) => {
                // the rules `(@3 ..) => {..}` and `(@nonzero3 ..) => {..}`
                let toks: Vec<proc_macro2::TokenTree> = m.mac.tokens.clone().into_iter().collect();
                let mut i = 0;
                while i + 3 < toks.len() {
                    if let (proc_macro2::TokenTree::Group(a), proc_macro2::TokenTree::Group(b)) = (&toks[i], &toks[i + 3]) {
                        let head = a.stream().to_string();
                        if head.starts_with("@ 3 ") || head.starts_with("@ nonzero3 ") {
                            let key = if head.starts_with("@ 3 ") { "@3" } else { "@nonzero3" };
                            out.push((format!("macro hi:{}", key), format!("({}) => {{ {} }}", head, b.stream())));
                        }
                    }
                    i += 4;
                    if i < toks.len() && matches!(&toks[i], proc_macro2::TokenTree::Punct(p) if p.as_char() == ';') {
                        i += 1;
                    }
                }
            }
            _ => {}
        }
    }
    out
}

pub fn check_dropped32(fname: &str, file: &syn::File) -> Vec<String> {
    let want: Vec<(&str, &str)> = crate::pins::DROPPED32.iter().filter(|(f, _, _)| *f == fname).map(|(_, k, t)| (*k, *t)).collect();
    if want.is_empty() && !matches!(fname, "bigint.rs" | "slow.rs" | "table_small.rs") {
        // any other file must not have 32-bit-only code at all
        return dropped32(file).first().map(|(k, _)| vec![format!("32-bit-only code `{}` in a file that has none today", k)]).unwrap_or_default();
    }
    let got = dropped32(file);
    let mut problems = vec![];
    for (k, t) in &want {
        match got.iter().find(|(k2, _)| k2 == k) {
            Some((_, t2)) if t2 == t => {}
            Some(_) => problems.push(format!("the 32-bit-only code `{}` (dropped by rule 14, so not tied by the translation) is no longer, token for token, today's", k)),
            None => problems.push(format!("the 32-bit-only code `{}` is missing", k)),
        }
    }
    for (k, _) in &got {
        if !want.iter().any(|(k2, _)| k2 == k) {
            problems.push(format!("new 32-bit-only code `{}` (rule 14 would drop it unseen)", k));
        }
    }
    problems
}
