//! Lowering of expressions, with the small type inference that selects operator widths.
use crate::emit::{paren, tuple_pat, Emitter, S};
use crate::lower::*;
use crate::ty::*;
use std::collections::HashMap;
use syn::spanned::Spanned;

const U64: Ty = Ty::Int(IntTy::U64);

fn lit_int(l: &syn::LitInt) -> R<(String, Option<IntTy>)> {
    let suffix = l.suffix();
    let ty = if suffix.is_empty() {
        None
    } else {
        match IntTy::from_name(suffix) {
            Some(t) => Some(t),
            None => return err(l.span(), format!("unsupported literal suffix `{}`", suffix)),
        }
    };
    // base10_digits() is the exact decimal value (arbitrary precision)
    Ok((l.base10_digits().to_string(), ty))
}

/// strips shared references and parentheses (`&mut e` is NOT transparent: C-REFMUT)
pub fn strip_ref(e: &syn::Expr) -> &syn::Expr {
    match e {
        syn::Expr::Reference(r) if r.mutability.is_none() => strip_ref(&r.expr),
        syn::Expr::Paren(p) => strip_ref(&p.expr),
        _ => e,
    }
}

/// `u64::MAX`, `i32::MIN`, `u32::BITS`, `u64::max_value` …: (literal, type)
pub fn int_assoc_const(path: &str) -> Option<(String, IntTy)> {
    let (t, c) = path.split_once("::")?;
    let ty = IntTy::from_name(t)?;
    let bits = ty.bits();
    // 2^k as a decimal string (k <= 128)
    let pow2 = |k: u32| -> String {
        let mut d: Vec<u8> = vec![1];
        for _ in 0..k {
            let mut carry = 0u8;
            for x in d.iter_mut() {
                let v = *x * 2 + carry;
                *x = v % 10;
                carry = v / 10;
            }
            if carry > 0 {
                d.push(carry);
            }
        }
        d.iter().rev().map(|x| (b'0' + x) as char).collect()
    };
    let dec = |s: String| -> String {
        // s - 1 for a positive decimal string
        let mut d: Vec<u8> = s.bytes().map(|b| b - b'0').collect();
        let mut i = d.len();
        loop {
            i -= 1;
            if d[i] > 0 {
                d[i] -= 1;
                break;
            }
            d[i] = 9;
        }
        let t: String = d.iter().map(|x| (b'0' + x) as char).collect();
        let t = t.trim_start_matches('0').to_string();
        if t.is_empty() {
            "0".into()
        } else {
            t
        }
    };
    match c {
        "MAX" | "max_value" => Some((dec(pow2(if ty.signed() { bits - 1 } else { bits })), ty)),
        "MIN" | "min_value" => {
            Some((if ty.signed() { format!("(-{})", pow2(bits - 1)) } else { "0".into() }, ty))
        }
        "BITS" => Some((bits.to_string(), IntTy::U32)),
        _ => None,
    }
}

pub fn path_str(p: &syn::Path) -> String {
    p.segments.iter().map(|s| s.ident.to_string()).collect::<Vec<_>>().join("::")
}

impl<'a> Cx<'a> {
    // ------------------------------------------------------------------ type inference

    /// The type of an expression as far as it is determined by the expression itself
    /// (`None` for unsuffixed literals and `as _`).
    pub fn ty_of(&self, e: &syn::Expr) -> Option<Ty> {
        use syn::Expr as E;
        match e {
            E::Lit(l) => match &l.lit {
                syn::Lit::Int(i) => lit_int(i).ok().and_then(|x| x.1).map(Ty::Int),
                syn::Lit::Bool(_) => Some(Ty::Bool),
                syn::Lit::Byte(_) => Some(Ty::Int(IntTy::U8)),
                syn::Lit::ByteStr(_) => Some(Ty::Bytes),
                _ => None,
            },
            E::Paren(p) => self.ty_of(&p.expr),
            E::Group(p) => self.ty_of(&p.expr),
            E::Reference(r) => self.ty_of(&r.expr),
            E::Path(p) => {
                if let Some(id) = p.path.get_ident() {
                    let n = id.to_string();
                    if let Some((_, v)) = self.lookup(&n) {
                        // a literal-initialised variable takes its type from its first typed use
                        return if v.flex { None } else { Some(v.ty.clone()) };
                    }
                    if let Some(c) = self.g.consts.get(&n) {
                        return Some(c.ty.clone());
                    }
                    return None;
                }
                let s = path_str(&p.path);
                let self_is_float = self.self_kind.as_deref() == Some("Float");
                if let Some(c) = s.strip_prefix("F::").or(if self_is_float { s.strip_prefix("Self::") } else { None }) {
                    return self.g.float_consts.get(c).map(|t| Ty::Int(*t));
                }
                if !s.ends_with("_value") {
                    if let Some((_, t)) = int_assoc_const(&s) {
                        return Some(Ty::Int(t));
                    }
                }
                if s.contains("Ordering::") {
                    return Some(Ty::Ordering);
                }
                None
            }
            E::Field(f) => {
                let bt = self.ty_of(&f.base)?;
                match &f.member {
                    syn::Member::Named(id) => {
                        match (&bt, id.to_string().as_str()) {
                            (Ty::Hv, "data") => return Some(Ty::StdVec),
                            (Ty::Big, "data") => return Some(Ty::Vec),
                            (Ty::RView, "inner") => return Some(Ty::Slice),
                            _ => {}
                        }
                        self.field_of(f.span(), &bt, &id.to_string()).ok().map(|x| x.1)
                    }
                    syn::Member::Unnamed(ix) => match bt {
                        Ty::Tuple(ts) => ts.get(ix.index as usize).cloned(),
                        _ => None,
                    },
                }
            }
            E::Cast(c) => conv_ty(&c.ty).ok(),
            E::Unary(u) => match u.op {
                syn::UnOp::Deref(_) | syn::UnOp::Neg(_) | syn::UnOp::Not(_) => self.ty_of(&u.expr),
                _ => None,
            },
            E::Binary(b) => {
                use syn::BinOp::*;
                match b.op {
                    Lt(_) | Le(_) | Gt(_) | Ge(_) | Eq(_) | Ne(_) | And(_) | Or(_) => Some(Ty::Bool),
                    Shl(_) | Shr(_) => self.ty_of(&b.left),
                    Add(_) | Sub(_) | Mul(_) | Div(_) | Rem(_) | BitAnd(_) | BitOr(_) | BitXor(_) => {
                        self.ty_of(&b.left).or_else(|| self.ty_of(&b.right))
                    }
                    _ => Some(Ty::Unit),
                }
            }
            E::MethodCall(m) => {
                let name = m.method.to_string();
                let rt = self.ty_of(&m.receiver);
                match name.as_str() {
                    "leading_zeros" => Some(Ty::Int(IntTy::U32)),
                    "wrapping_mul" | "wrapping_add" | "wrapping_sub" | "saturating_add" | "saturating_sub"
                    | "min" | "max" => rt.or_else(|| m.args.first().and_then(|a| self.ty_of(a))),
                    "overflowing_mul" | "overflowing_add" => rt.map(|t| Ty::Tuple(vec![t, Ty::Bool])),
                    "checked_mul" | "checked_add" | "checked_sub" => rt.map(|t| Ty::Opt(Box::new(t))),
                    "to_bits" => Some(U64),
                    "len" | "capacity" | "count" => Some(Ty::Int(IntTy::Usize)),
                    "is_empty" | "is_some" | "is_none" => Some(Ty::Bool),
                    "to_digit" => Some(Ty::Opt(Box::new(Ty::Int(IntTy::U32)))),
                    "first" => Some(Ty::Opt(Box::new(Ty::Int(IntTy::U8)))),
                    "get" if rt == Some(Ty::Bytes) => Some(Ty::Opt(Box::new(Ty::Int(IntTy::U8)))),
                    "map_or" => m.args.first().and_then(|a| self.ty_of(a)),
                    "pow" | "clone" => rt,
                    "get" => Some(Ty::Opt(Box::new(U64))),
                    "cmp" => Some(Ty::Ordering),
                    "next" => match rt {
                        Some(Ty::Seq(t)) => Some(Ty::Opt(t)),
                        _ => None,
                    },
                    "unwrap" => match rt {
                        Some(Ty::Opt(t)) => Some(*t),
                        _ => None,
                    },
                    _ if rt == Some(Ty::Raw) => self.g.get_fn(&self.file, &format!("StackVec::{}", name)).map(|f| f.ret.clone()),
                    _ if rt == Some(Ty::Hv) => self.g.get_fn(&self.file, &format!("HeapVec::{}", name)).map(|f| f.ret.clone()),
                    "pop" if rt == Some(Ty::StdVec) => Some(Ty::Opt(Box::new(U64))),
                    _ if matches!(rt, Some(Ty::Vec) | Some(Ty::Big)) => self.deleg_ret_ty(rt.as_ref()?, &name),
                    _ => {
                        let k = self.method_key(rt.as_ref()?, &name)?;
                        self.g.get_fn(&self.file, &k).map(|f| f.ret.clone())
                    }
                }
            }
            E::Call(c) => {
                if let E::Path(p) = &*c.func {
                    let s = path_str(&p.path);
                    if let Some((_, v)) = self.lookup(&s) {
                        if let Ty::Fun(_, r) = &v.ty {
                            return Some((**r).clone());
                        }
                    }
                    match s.as_str() {
                        "F::from_bits" | "F::from_u64" | "F::pow_fast_path" | "Self::from_bits"
                        | "Self::from_u64" | "Self::pow_fast_path" => return Some(Ty::Float),
                        "int_pow_fast_path" => return Some(U64),
                        "VecType::new" => return Some(Ty::Vec),
                        "VecType::try_from" => return Some(Ty::Opt(Box::new(Ty::Vec))),
                        "Number::default" => return Some(Ty::Num),
                        "VecType::from_u64" => return Some(Ty::Vec),
                        "Bigint::new" | "Bigint::from_u64" => return Some(Ty::Big),
                        _ if s.ends_with("_value") && c.args.is_empty() && int_assoc_const(&s).is_some() => {
                            return int_assoc_const(&s).map(|x| Ty::Int(x.1))
                        }
                        "Some" => {
                            return c.args.first().and_then(|a| self.ty_of(a)).map(|t| Ty::Opt(Box::new(t)))
                        }
                        _ => {}
                    }
                    return self.g.get_fn(&self.file, &s).map(|f| f.ret.clone());
                }
                None
            }
            E::Index(ix) => match self.ty_of(&ix.expr)? {
                Ty::Table => Some(U64),
                Ty::Table2 => Some(Ty::Tuple(vec![U64, U64])),
                Ty::Vec | Ty::Slice | Ty::RView => {
                    if matches!(&*ix.index, E::Range(_)) {
                        Some(Ty::Slice)
                    } else {
                        Some(U64)
                    }
                }
                Ty::Bytes => {
                    if matches!(&*ix.index, E::Range(_)) {
                        Some(Ty::Bytes)
                    } else {
                        Some(Ty::Int(IntTy::U8))
                    }
                }
                _ => None,
            },
            E::Tuple(t) => {
                let mut v = vec![];
                for x in &t.elems {
                    v.push(self.ty_of(x)?);
                }
                Some(Ty::Tuple(v))
            }
            E::Struct(s) => match path_str(&s.path).as_str() {
                "ExtendedFloat" => Some(Ty::Ext),
                "Bigint" => Some(Ty::Big),
                "ReverseView" => Some(Ty::RView),
                "Self" => match self.self_kind.as_deref() {
                    Some("Bigint") => Some(Ty::Big),
                    _ => None,
                },
                _ => None,
            },
            E::If(i) => {
                let a = block_tail(&i.then_branch).and_then(|x| self.ty_of(x));
                a.or_else(|| i.else_branch.as_ref().and_then(|(_, x)| self.ty_of(x)))
            }
            E::Block(b) => block_tail(&b.block).and_then(|x| self.ty_of(x)),
            E::Unsafe(b) => block_tail(&b.block).and_then(|x| self.ty_of(x)),
            E::Match(m) => m.arms.iter().find_map(|a| self.ty_of(&a.body)),
            E::Try(t) => match self.ty_of(&t.expr)? {
                Ty::Opt(x) => Some(*x),
                _ => None,
            },
            _ => None,
        }
    }

    fn method_key(&self, recv: &Ty, name: &str) -> Option<String> {
        let owner = match recv {
            Ty::Float => "Float",
            Ty::Num => "Number",
            Ty::Powers => "BellerophonPowers",
            _ => return None,
        };
        Some(format!("{}::{}", owner, name))
    }

    fn op_ty(&self, sp: proc_macro2::Span, l: &syn::Expr, r: &syn::Expr, expected: Option<&Ty>) -> R<Ty> {
        let (a, b) = (self.ty_of(l), self.ty_of(r));
        match (a, b) {
            (Some(x), Some(y)) => {
                if x == y {
                    Ok(x)
                } else {
                    err(sp, format!("operand types differ: {} / {}", x, y))
                }
            }
            (Some(x), None) | (None, Some(x)) => Ok(x),
            (None, None) => match expected {
                Some(t) => Ok(t.clone()),
                None => Ok(Ty::Int(IntTy::I32)), // Rust's integer fallback
            },
        }
    }

    fn bind_op(&mut self, m: String, ty: Ty) -> Val {
        let t = self.fresh();
        self.push(S::Bind(t.clone(), m));
        Val::new(t, ty)
    }

    // ------------------------------------------------------------------ expressions

    /// an operand through which a `&mut` parameter may be read: receiver, `*p`, `p.f`, `p[i]`, argument
    pub fn lower_recv(&mut self, e: &syn::Expr, expected: Option<&Ty>) -> R<Val> {
        self.mutref_ok = true;
        self.lower_expr(e, expected)
    }

    pub fn lower_expr(&mut self, e: &syn::Expr, expected: Option<&Ty>) -> R<Val> {
        use syn::Expr as E;
        // C-MUTREF: only the immediate operand inherits the permission
        let mutref_ok = std::mem::replace(&mut self.mutref_ok, false);
        match e {
            E::Lit(l) => match &l.lit {
                syn::Lit::Int(i) => {
                    let (digits, sfx) = lit_int(i)?;
                    let ty = match (sfx, expected) {
                        (Some(t), _) => t,
                        (None, Some(Ty::Int(t))) => *t,
                        (None, None) => IntTy::I32,
                        (None, Some(t)) => return err(l.span(), format!("integer literal where {} is expected", t)),
                    };
                    // C-LIT: rustc only lints a literal that does not fit its type (and wraps it)
                    let fits = match i.base10_parse::<u128>() {
                        Ok(v) => {
                            if ty.signed() {
                                v < (1u128 << (ty.bits() - 1))
                            } else {
                                ty.bits() == 128 || v < (1u128 << ty.bits())
                            }
                        }
                        Err(_) => false,
                    };
                    if !fits {
                        return err(l.span(), format!("the literal {} does not fit its type {}", digits, ty.name()));
                    }
                    Ok(Val::new(digits, Ty::Int(ty)))
                }
                syn::Lit::Bool(b) => Ok(Val::new(if b.value { "true" } else { "false" }, Ty::Bool)),
                syn::Lit::Byte(b) => Ok(Val::new(b.value().to_string(), Ty::Int(IntTy::U8))),
                // a byte string is the list of its bytes (rule 24)
                syn::Lit::ByteStr(b) => {
                    let v: Vec<String> = b.value().iter().map(|x| x.to_string()).collect();
                    Ok(Val::new(format!("[{}]", v.join("; ")), Ty::Bytes))
                }
                _ => err(l.span(), "unsupported literal"),
            },
            E::Paren(p) => {
                self.mutref_ok = mutref_ok;
                self.lower_expr(&p.expr, expected)
            }
            E::Group(p) => {
                self.mutref_ok = mutref_ok;
                self.lower_expr(&p.expr, expected)
            }
            E::Reference(r) => {
                if r.mutability.is_some() {
                    return err(e.span(), "`&mut` outside a call argument is unsupported");
                }
                self.mutref_ok = mutref_ok;
                self.lower_expr(&r.expr, expected)
            }
            E::Path(p) => {
                // C-MUTREF: a `&mut` parameter is its pointee everywhere in the translation, so it may
                // only be used where Rust reads / writes through it, never copied, moved or rebound
                if let Some(id) = p.path.get_ident() {
                    if let Some((_, v)) = self.lookup(&id.to_string()) {
                        if v.mutref && !mutref_ok && !matches!(v.ty, Ty::Fun(..)) {
                            return err(p.span(), format!("the `&mut` parameter `{}` is used as a value (only `*p`, `p.field`, `p[i]`, method calls on it and passing it on are supported)", id));
                        }
                    }
                }
                self.lower_path(p, expected)
            }
            E::Field(f) => self.lower_field(f),
            E::Cast(c) => self.lower_cast(c, expected),
            E::Unary(u) => self.lower_unary(u, expected),
            E::Binary(b) => self.lower_binary(b, expected),
            E::Assign(a) => {
                if let syn::Expr::Path(lp) = strip_ref(&a.left) {
                    if let Some(id) = lp.path.get_ident() {
                        if matches!(self.lookup(&id.to_string()), Some((_, v)) if v.mutref) {
                            return err(e.span(), format!("`{} = ..` rebinds the `&mut` parameter itself (only `*{} = ..` is supported)", id, id));
                        }
                    }
                }
                if let Some(x) = self.place_flex(&a.left) {
                    let rt = self.ty_of(&a.right);
                    self.fix_flex(&x, rt.as_ref());
                }
                let pt = self.place_ty(&a.left)?;
                let v = self.lower_expr(&a.right, Some(&pt))?;
                self.place_write(&a.left, &v)?;
                Ok(Val::unit())
            }
            E::If(i) => self.lower_if(i, expected),
            E::Match(m) => self.lower_match(m, expected),
            E::While(w) => self.lower_while(w),
            E::Loop(l) => self.lower_fuel_loop(l.span(), l.label.as_ref(), None, &l.body),
            E::ForLoop(f) => self.lower_for(f),
            E::Break(b) => self.lower_break(b),
            E::Continue(_) => err(e.span(), "`continue` is unsupported"),
            E::Macro(m) => self.lower_macro(&m.mac, expected),
            E::Block(b) => {
                if b.label.is_some() {
                    return err(e.span(), "labelled blocks are unsupported");
                }
                self.lower_block(&b.block, expected)
            }
            E::Unsafe(b) => self.lower_block(&b.block, expected),
            E::Return(r) => {
                let rt = self.ret_ty.clone();
                let v = match &r.expr {
                    Some(x) => self.lower_expr(x, Some(&rt))?,
                    None => Val::unit(),
                };
                if !self.ret_compatible(&v, &rt) {
                    return err(e.span(), format!("`return` of {} in a function returning {}", v.ty, rt));
                }
                let t = self.ret_term(&v);
                self.push(S::Ret(t));
                Ok(Val::never())
            }
            E::Try(t) => {
                let v = self.lower_expr(&t.expr, None)?;
                if v.ty == Ty::Flag {
                    // raw mode (rule 28): `None` is propagated, with the state as it is
                    let none = match &self.ret_ty {
                        Ty::Flag => self.ret_term(&Val::new("false", Ty::Flag)),
                        Ty::Opt(_) => self.ret_term(&Val::new("None", self.ret_ty.clone())),
                        _ => return err(e.span(), "`?` is only supported in a function returning Option"),
                    };
                    self.push(S::If { c: v.t, m: None, a: vec![], b: vec![S::Ret(none)], outs: vec![] });
                    return Ok(Val::unit());
                }
                let none = self.ret_term(&Val::new("None", self.ret_ty.clone()));
                if v.ty == Ty::OptUpd {
                    // rule 15: `Some` carries the updated `&mut` arguments, `None` is propagated
                    if !matches!(self.ret_ty, Ty::Opt(_)) {
                        return err(e.span(), "`?` is only supported in a function returning Option");
                    }
                    let pats: Vec<String> = v.upd.iter().map(|x| self.cn(x)).collect();
                    let pat = if pats.len() == 1 { pats[0].clone() } else { format!("({})", pats.join(", ")) };
                    self.push(S::MatchOpt { scrut: v.t, pat, none: vec![S::Ret(none)] });
                    for x in &v.upd {
                        self.mark_assigned(x);
                    }
                    return Ok(Val::unit());
                }
                let inner = match (&v.ty, &self.ret_ty) {
                    (Ty::Opt(x), Ty::Opt(_)) => (**x).clone(),
                    _ => return err(e.span(), "`?` is only supported on Option in a function returning Option"),
                };
                let x = self.fresh();
                self.push(S::MatchOpt { scrut: v.t, pat: x.clone(), none: vec![S::Ret(none)] });
                Ok(Val::new(x, inner))
            }
            E::Tuple(t) => {
                let exp: Vec<Option<Ty>> = match expected {
                    Some(Ty::Tuple(ts)) if ts.len() == t.elems.len() => ts.iter().cloned().map(Some).collect(),
                    _ => vec![None; t.elems.len()],
                };
                let mut ts = vec![];
                let mut tys = vec![];
                let mut ops = vec![];
                for (x, ex) in t.elems.iter().zip(exp.iter()) {
                    let v = self.lower_expr(x, ex.as_ref())?;
                    if v.ty == Ty::OptUpd {
                        // C-OPTUPD: the update would be dropped, the effect kept
                        return err(x.span(), "the `Option<()>` result of a function with `&mut` parameters inside a tuple (rule 15 needs `?` or `.unwrap()`)");
                    }
                    ops.push((v.t.clone(), self.assign_log.len()));
                    ts.push(v.t);
                    tys.push(v.ty);
                }
                self.no_stale_reads(e.span(), &ops)?;
                if ts.is_empty() {
                    return Ok(Val::unit());
                }
                Ok(Val::new(format!("({})", ts.join(", ")), Ty::Tuple(tys)))
            }
            E::Struct(s) => self.lower_struct(s),
            E::Index(ix) if matches!(self.ty_of(&ix.expr), Some(Ty::Vec) | Some(Ty::Slice) | Some(Ty::RView) | Some(Ty::Bytes)) => {
                self.lower_index(ix)
            }
            E::Index(ix) => {
                let base = self.lower_expr(&ix.expr, None)?;
                let i = self.lower_expr(&ix.index, Some(&Ty::Int(IntTy::Usize)))?;
                if i.ty != Ty::Int(IntTy::Usize) {
                    return err(e.span(), "index is not a usize");
                }
                match base.ty {
                    Ty::Table => Ok(self.bind_op(format!("index_checked {} {}", base.t, i.t), U64)),
                    Ty::Table2 => {
                        Ok(self.bind_op(format!("index_checked2 {} {}", base.t, i.t), Ty::Tuple(vec![U64, U64])))
                    }
                    t => err(e.span(), format!("indexing a value of type {}", t)),
                }
            }
            E::Call(c) => self.lower_call(c, expected),
            E::MethodCall(m) => self.lower_method(m, expected),
            E::Closure(c) => match expected {
                Some(Ty::Fun(ps, r)) => self.lower_closure(c, ps, r),
                _ => err(e.span(), "closure outside a callback argument position"),
            },
            _ => err(e.span(), "unsupported expression form"),
        }
    }

    /// C-GENERIC: generic arguments in an expression path are not translated; the only ones that
    /// mean what the translation assumes are the function's own float parameter `F` and `_`
    pub fn check_path_args(&self, p: &syn::Path) -> R<()> {
        for seg in &p.segments {
            match &seg.arguments {
                syn::PathArguments::None => {}
                syn::PathArguments::AngleBracketed(a) => {
                    for x in &a.args {
                        let ok = match x {
                            syn::GenericArgument::Type(syn::Type::Infer(_)) => true,
                            syn::GenericArgument::Type(syn::Type::Path(tp)) => tp.qself.is_none() && tp.path.is_ident("F") && self.float_param,
                            _ => false,
                        };
                        if !ok {
                            return err(x.span(), format!("generic argument `{}` (only the function's own `F` and `_` are accepted)", quote::quote!(#x)));
                        }
                    }
                }
                syn::PathArguments::Parenthesized(_) => return err(seg.span(), "parenthesised path arguments"),
            }
        }
        Ok(())
    }

    fn lower_path(&mut self, p: &syn::ExprPath, expected: Option<&Ty>) -> R<Val> {
        if p.qself.is_some() {
            return err(p.span(), "qualified path `<T as Trait>::..` is unsupported");
        }
        self.check_path_args(&p.path)?;
        if let Some(id) = p.path.get_ident() {
            let n = id.to_string();
            if let Some((_, v)) = self.lookup(&n) {
                if v.alias.is_some() {
                    return err(p.span(), "an alias of a vector element may only be used as `*alias`");
                }
                if v.ptr.is_some() {
                    return err(p.span(), "a raw pointer may only be used as the argument of a `ptr::` / `slice::` primitive");
                }
                if v.flex {
                    // first typed use of a literal-initialised variable (rule 2)
                    self.fix_flex(&n, expected);
                }
                let v = self.lookup(&n).unwrap().1;
                return Ok(Val::new(v.cname.clone(), v.ty.clone()));
            }
            if n == "self" && self.self_kind.as_deref() == Some("BellerophonPowers") {
                self.needs.bt = true;
                return Ok(Val::new("BT", Ty::Powers));
            }
            if let Some(c) = self.g.consts.get(&n).cloned() {
                self.needs.union(c.needs);
                return Ok(Val::new(c.term, c.ty));
            }
            if n == "None" {
                return match expected {
                    Some(Ty::Flag) => Ok(Val::new("false", Ty::Flag)),
                    Some(t @ Ty::Opt(_)) => Ok(Val::new("None", t.clone())),
                    _ => err(p.span(), "`None` of unknown type"),
                };
            }
            if let (Some(fi), Some(Ty::Fun(ps, r))) = (self.g.get_fn(&self.file, &n).cloned(), expected) {
                // a function item used as a callback
                if fi.params == *ps && fi.ret == **r {
                    self.needs.union(fi.needs);
                    return Ok(Val::new(format!("({} {})", fi.coq_name, fi.needs.args()), expected.unwrap().clone()));
                }
                return err(p.span(), "function item does not have the callback's signature");
            }
            return err(p.span(), format!("unknown name `{}`", n));
        }
        let s = path_str(&p.path);
        // `Self::C` is the Float constant only inside `trait Float` (an impl's own associated
        // constant of that name would be found first)
        let self_is_float = self.self_kind.as_deref() == Some("Float");
        if let Some(c) = s.strip_prefix("F::").or(if self_is_float { s.strip_prefix("Self::") } else { None }) {
            if let Some(t) = self.g.float_consts.get(c) {
                self.needs.f = true;
                return Ok(Val::new(format!("({} f)", c), Ty::Int(*t)));
            }
        }
        if !s.ends_with("_value") {
            if let Some((lit, t)) = int_assoc_const(&s) {
                return Ok(Val::new(lit, Ty::Int(t)));
            }
        }
        if (self.raw_mode || self.heap_mode) && s == "bigint::BIGINT_LIMBS" {
            // rule 28: the capacity is a parameter of the model
            self.needs.l = true;
            return Ok(Val::new("(BIGINT_LIMBS L)", Ty::Int(IntTy::Usize)));
        }
        match s.as_str() {
            "FastPathRadix::Ten" => Ok(Val::new("true", Ty::Radix)),
            "FastPathRadix::Five" => Ok(Val::new("false", Ty::Radix)),
            "cmp::Ordering::Equal" | "Ordering::Equal" => Ok(Val::new("Eq", Ty::Ordering)),
            "cmp::Ordering::Less" | "Ordering::Less" => Ok(Val::new("Lt", Ty::Ordering)),
            "cmp::Ordering::Greater" | "Ordering::Greater" => Ok(Val::new("Gt", Ty::Ordering)),
            _ => err(p.span(), format!("unknown path `{}`", s)),
        }
    }

    fn lower_field(&mut self, f: &syn::ExprField) -> R<Val> {
        let b = self.lower_recv(&f.base, None)?;
        match &f.member {
            syn::Member::Named(id) => {
                // single-field structs are their field (rule 14)
                match (&b.ty, id.to_string().as_str()) {
                    (Ty::Hv, "data") => return Ok(Val::new(b.t, Ty::StdVec)),
                    (Ty::Big, "data") => return Ok(Val::new(b.t, Ty::Vec)),
                    (Ty::RView, "inner") => return Ok(Val::new(b.t, Ty::Slice)),
                    _ => {}
                }
                let (acc, ty) = self.field_of(f.span(), &b.ty, &id.to_string())?;
                Ok(Val::new(format!("({} {})", acc, b.t), ty))
            }
            syn::Member::Unnamed(ix) => match &b.ty {
                Ty::Tuple(ts) if ts.len() == 2 => {
                    let acc = if ix.index == 0 { "fst" } else { "snd" };
                    Ok(Val::new(format!("({} {})", acc, b.t), ts[ix.index as usize].clone()))
                }
                t => err(f.span(), format!("tuple index on {}", t)),
            },
        }
    }

    fn lower_struct(&mut self, s: &syn::ExprStruct) -> R<Val> {
        if s.qself.is_some() {
            return err(s.span(), "qualified path in a struct literal");
        }
        self.check_path_args(&s.path)?;
        {
            // C-FIELD: a field given twice (only possible under `cfg`) would silently win / lose
            let mut seen = std::collections::HashSet::new();
            for fv in &s.fields {
                let n = match &fv.member {
                    syn::Member::Named(id) => id.to_string(),
                    syn::Member::Unnamed(i) => i.index.to_string(),
                };
                if !seen.insert(n.clone()) {
                    return err(fv.span(), format!("field `{}` is given twice in a struct literal", n));
                }
            }
        }
        let sname = match path_str(&s.path).as_str() {
            "Self" => self.self_kind.clone().unwrap_or_default(),
            n => n.to_string(),
        };
        if self.raw_mode && sname == "StackVec" {
            return self.lower_struct_raw(s);
        }
        if self.heap_mode && sname == "HeapVec" {
            return self.lower_struct_heap(s);
        }
        if let Some((field, inner, outer)) = match sname.as_str() {
            "Bigint" => Some(("data", Ty::Vec, Ty::Big)),
            "ReverseView" => Some(("inner", Ty::Slice, Ty::RView)),
            _ => None,
        } {
            // single-field structs are their field (rule 14; the declarations are checked)
            if let Err(m) = &self.g.limb_ok {
                return err(s.span(), m);
            }
            if s.rest.is_some() || s.fields.len() != 1 {
                return err(s.span(), format!("`{}` literal must give exactly `{}`", sname, field));
            }
            let fv = &s.fields[0];
            match &fv.member {
                syn::Member::Named(id) if id == field => {}
                _ => return err(fv.span(), format!("`{}` literal must give exactly `{}`", sname, field)),
            }
            let v = self.lower_expr(&fv.expr, Some(&inner))?;
            let v = self.coerce(v, &inner);
            if v.ty != inner {
                return err(fv.span(), format!("field `{}` : {} initialised with {}", field, inner, v.ty));
            }
            return Ok(Val::new(v.t, outer));
        }
        if s.rest.is_some() || sname != "ExtendedFloat" {
            return err(s.span(), "only `ExtendedFloat { mant, exp }` / single-field struct literals are supported");
        }
        let mut m: HashMap<String, String> = HashMap::new();
        let mut ops = vec![];
        for fv in &s.fields {
            let name = match &fv.member {
                syn::Member::Named(id) => id.to_string(),
                _ => return err(fv.span(), "unnamed field"),
            };
            let (_, ty) = self.field_of(fv.span(), &Ty::Ext, &name)?;
            let v = self.lower_expr(&fv.expr, Some(&ty))?;
            if v.ty != ty {
                return err(fv.span(), format!("field `{}` : {} initialised with {}", name, ty, v.ty));
            }
            ops.push((v.t.clone(), self.assign_log.len()));
            m.insert(name, v.t);
        }
        self.no_stale_reads(s.span(), &ops)?;
        match (m.get("mant"), m.get("exp")) {
            (Some(a), Some(b)) if m.len() == 2 => Ok(Val::new(format!("(mkExt {} {})", a, b), Ty::Ext)),
            _ => err(s.span(), "ExtendedFloat literal must give exactly `mant` and `exp`"),
        }
    }

    fn lower_cast(&mut self, c: &syn::ExprCast, expected: Option<&Ty>) -> R<Val> {
        let target = match &*c.ty {
            syn::Type::Infer(_) => match expected {
                Some(t) => t.clone(),
                None => return err(c.span(), "`as _` with unknown target type"),
            },
            t => conv_ty(t)?,
        };
        let tt = match target {
            Ty::Int(t) => t,
            _ => return err(c.span(), "cast to a non-integer type"),
        };
        // an unsuffixed literal operand gets the target type directly (as in rustc)
        if let syn::Expr::Lit(syn::ExprLit { lit: syn::Lit::Int(i), .. }) = strip_ref(&c.expr) {
            if i.suffix().is_empty() {
                let v = i.base10_parse::<u128>().map_err(|e| e.to_string())?;
                let fits = if tt.signed() { v < (1u128 << (tt.bits() - 1)) } else { tt.bits() == 128 || v < (1u128 << tt.bits()) };
                if !fits {
                    return err(c.span(), "literal out of range for the target type of the cast");
                }
                return Ok(Val::new(i.base10_digits().to_string(), Ty::Int(tt)));
            }
        }
        let v = self.lower_expr(&c.expr, None)?;
        match v.ty {
            Ty::Bool => Ok(Val::new(format!("(if {} then 1 else 0)", v.t), Ty::Int(tt))),
            Ty::Int(s) if s == tt => Ok(Val::new(v.t, Ty::Int(tt))),
            Ty::Int(_) => Ok(Val::new(format!("(as_{} {})", tt.name(), v.t), Ty::Int(tt))),
            t => err(c.span(), format!("cast from {}", t)),
        }
    }

    fn lower_unary(&mut self, u: &syn::ExprUnary, expected: Option<&Ty>) -> R<Val> {
        match u.op {
            syn::UnOp::Deref(_) => {
                if let Ok(Place::Alias(a)) = self.place_of(&syn::Expr::Unary(u.clone())) {
                    return self.alias_read(u.span(), &a);
                }
                self.lower_recv(&u.expr, expected)
            }
            syn::UnOp::Not(_) => {
                let v = self.lower_expr(&u.expr, expected)?;
                match v.ty {
                    Ty::Bool => Ok(Val::new(format!("(negb {})", v.t), Ty::Bool)),
                    Ty::Int(IntTy::U64) => Ok(Val::new(format!("(u64_not {})", v.t), v.ty)),
                    t => err(u.span(), format!("`!` on {}", t)),
                }
            }
            syn::UnOp::Neg(_) => {
                // a negated literal is a negative literal
                if let syn::Expr::Lit(syn::ExprLit { lit: syn::Lit::Int(i), .. }) = strip_ref(&u.expr) {
                    let (digits, sfx) = lit_int(i)?;
                    let ty = match (sfx, expected) {
                        (Some(t), _) => t,
                        (None, Some(Ty::Int(t))) => *t,
                        _ => IntTy::I32,
                    };
                    if !ty.signed() {
                        return err(u.span(), "negative literal of unsigned type");
                    }
                    match i.base10_parse::<u128>() {
                        Ok(v) if v <= (1u128 << (ty.bits() - 1)) => {}
                        _ => return err(u.span(), format!("the literal -{} does not fit its type {}", digits, ty.name())),
                    }
                    return Ok(Val::new(format!("(-{})", digits), Ty::Int(ty)));
                }
                let v = self.lower_expr(&u.expr, expected)?;
                match v.ty {
                    // `-x` on the float type `F` flips the sign bit (model/FloatOps.v)
                    Ty::Float => {
                        self.needs.f = true;
                        Ok(Val::new(format!("(f_neg f {})", v.t), Ty::Float))
                    }
                    Ty::Int(t) if t.signed() => Ok(self.bind_op(format!("{}_neg b {}", t.name(), v.t), v.ty)),
                    t => err(u.span(), format!("unary `-` on {}", t)),
                }
            }
            _ => err(u.span(), "unsupported unary operator"),
        }
    }

    fn arith(&mut self, sp: proc_macro2::Span, op: &str, ty: &Ty, a: &Val, b: &Val) -> R<Val> {
        match ty {
            Ty::Int(t) => Ok(self.bind_op(format!("{}_{} b {} {}", t.name(), op, a.t, b.t), ty.clone())),
            Ty::Float if op == "mul" => {
                self.needs.f = true;
                Ok(Val::new(format!("(f_mul f {} {})", a.t, b.t), Ty::Float))
            }
            Ty::Float if op == "div" => {
                self.needs.f = true;
                Ok(Val::new(format!("(f_div f {} {})", a.t, b.t), Ty::Float))
            }
            t => err(sp, format!("arithmetic `{}` on {}", op, t)),
        }
    }

    fn shift(&mut self, sp: proc_macro2::Span, op: &str, a: &Val, k: &Val) -> R<Val> {
        match (&a.ty, &k.ty) {
            (Ty::Int(t), Ty::Int(_)) => {
                if t.signed() && op == "shl" {
                    return err(sp, "`<<` on a signed integer is unsupported");
                }
                Ok(self.bind_op(format!("{}_{} b {} {}", t.name(), op, a.t, k.t), a.ty.clone()))
            }
            _ => err(sp, "shift on non-integers"),
        }
    }

    fn bitop(&mut self, sp: proc_macro2::Span, op: &str, ty: &Ty, a: &Val, b: &Val) -> R<Val> {
        match ty {
            Ty::Int(_) => Ok(Val::new(format!("(Z.{} {} {})", op, a.t, b.t), ty.clone())),
            // `|` `&` `^` on bool: both operands are already evaluated
            Ty::Bool => match op {
                "lor" => Ok(Val::new(format!("({} || {})", a.t, b.t), Ty::Bool)),
                "land" => Ok(Val::new(format!("({} && {})", a.t, b.t), Ty::Bool)),
                _ => Ok(Val::new(format!("(xorb {} {})", a.t, b.t), Ty::Bool)),
            },
            t => err(sp, format!("bit operation on {}", t)),
        }
    }

    fn lower_binary(&mut self, b: &syn::ExprBinary, expected: Option<&Ty>) -> R<Val> {
        use syn::BinOp::*;
        let sp = b.span();
        match &b.op {
            And(_) | Or(_) => {
                let is_and = matches!(b.op, And(_));
                let l = self.lower_expr(&b.left, Some(&Ty::Bool))?;
                // the right operand is evaluated only if needed
                self.stmts.push(vec![]);
                let mark = self.assign_log.len();
                let r = self.lower_expr(&b.right, Some(&Ty::Bool))?;
                let rs = self.stmts.pop().unwrap();
                self.no_updates_since(b.right.span(), mark, "the right operand of `&&` / `||`")?;
                if l.ty != Ty::Bool || r.ty != Ty::Bool {
                    return err(sp, "`&&` / `||` on non-bool");
                }
                if rs.is_empty() {
                    let o = if is_and { "&&" } else { "||" };
                    return Ok(Val::new(format!("({} {} {})", l.t, o, r.t), Ty::Bool));
                }
                let res = self.fresh();
                let mut ra = rs;
                ra.push(S::Let(res.clone(), r.t));
                let short = vec![S::Let(res.clone(), if is_and { "false".into() } else { "true".into() })];
                let (a, bb) = if is_and { (ra, short) } else { (short, ra) };
                self.push(S::If { c: l.t, m: None, a, b: bb, outs: vec![res.clone()] });
                Ok(Val::new(res, Ty::Bool))
            }
            Lt(_) | Le(_) | Gt(_) | Ge(_) | Eq(_) | Ne(_) => {
                let ty = self.op_ty(sp, &b.left, &b.right, None)?;
                let l = self.lower_expr(&b.left, Some(&ty))?;
                let after_l = self.assign_log.len();
                let r = self.lower_expr(&b.right, Some(&ty))?;
                self.no_stale_reads(sp, &[(l.t.clone(), after_l)])?;
                if l.ty != r.ty {
                    return err(sp, format!("comparison of {} with {}", l.ty, r.ty));
                }
                let t = match (&l.ty, &b.op) {
                    (Ty::Int(_), Lt(_)) => format!("({} <? {})", l.t, r.t),
                    (Ty::Int(_), Le(_)) => format!("({} <=? {})", l.t, r.t),
                    (Ty::Int(_), Gt(_)) => format!("({} <? {})", r.t, l.t),
                    (Ty::Int(_), Ge(_)) => format!("({} <=? {})", r.t, l.t),
                    (Ty::Int(_), Eq(_)) => format!("({} =? {})", l.t, r.t),
                    (Ty::Int(_), Ne(_)) => format!("(negb ({} =? {}))", l.t, r.t),
                    (Ty::Bool, Eq(_)) => format!("(Bool.eqb {} {})", l.t, r.t),
                    (Ty::Bool, Ne(_)) => format!("(negb (Bool.eqb {} {}))", l.t, r.t),
                    // #[derive(PartialEq)] on ExtendedFloat (checked by the driver)
                    (Ty::Ext, Eq(_)) => format!("(ext_derived_eqb {} {})", l.t, r.t),
                    (Ty::Ext, Ne(_)) => format!("(negb (ext_derived_eqb {} {}))", l.t, r.t),
                    (t, _) => return err(sp, format!("comparison on {}", t)),
                };
                Ok(Val::new(t, Ty::Bool))
            }
            Add(_) | Sub(_) | Mul(_) | Div(_) | Rem(_) | BitAnd(_) | BitOr(_) | BitXor(_) => {
                let ty = self.op_ty(sp, &b.left, &b.right, expected)?;
                let l = self.lower_expr(&b.left, Some(&ty))?;
                let after_l = self.assign_log.len();
                let r = self.lower_expr(&b.right, Some(&ty))?;
                self.no_stale_reads(sp, &[(l.t.clone(), after_l)])?;
                if l.ty != ty || r.ty != ty {
                    return err(sp, format!("operands {} / {} for an operation at {}", l.ty, r.ty, ty));
                }
                match &b.op {
                    Add(_) => self.arith(sp, "add", &ty, &l, &r),
                    Sub(_) => self.arith(sp, "sub", &ty, &l, &r),
                    Mul(_) => self.arith(sp, "mul", &ty, &l, &r),
                    Div(_) => self.arith(sp, "div", &ty, &l, &r),
                    Rem(_) => self.arith(sp, "rem", &ty, &l, &r),
                    BitAnd(_) => self.bitop(sp, "land", &ty, &l, &r),
                    BitOr(_) => self.bitop(sp, "lor", &ty, &l, &r),
                    _ => self.bitop(sp, "lxor", &ty, &l, &r),
                }
            }
            Shl(_) | Shr(_) => {
                let lt = self.ty_of(&b.left).or(expected.cloned()).unwrap_or(Ty::Int(IntTy::I32));
                let l = self.lower_expr(&b.left, Some(&lt))?;
                let after_l = self.assign_log.len();
                let r = self.lower_expr(&b.right, None)?;
                self.no_stale_reads(sp, &[(l.t.clone(), after_l)])?;
                self.shift(sp, if matches!(b.op, Shl(_)) { "shl" } else { "shr" }, &l, &r)
            }
            AddAssign(_) | SubAssign(_) | MulAssign(_) | DivAssign(_) | RemAssign(_) | BitAndAssign(_)
            | BitOrAssign(_) | BitXorAssign(_) | ShlAssign(_) | ShrAssign(_) => {
                // primitive compound assignment: right operand first, then the place is read
                if let Some(x) = self.place_flex(&b.left) {
                    let rt = self.ty_of(&b.right);
                    self.fix_flex(&x, rt.as_ref());
                }
                let pt = self.place_ty(&b.left)?;
                let is_shift = matches!(b.op, ShlAssign(_) | ShrAssign(_));
                let r = self.lower_expr(&b.right, if is_shift { None } else { Some(&pt) })?;
                let l = self.place_read(&b.left)?;
                if !is_shift && r.ty != pt {
                    return err(sp, format!("compound assignment of {} to {}", r.ty, pt));
                }
                let v = match &b.op {
                    AddAssign(_) => self.arith(sp, "add", &pt, &l, &r)?,
                    SubAssign(_) => self.arith(sp, "sub", &pt, &l, &r)?,
                    MulAssign(_) => self.arith(sp, "mul", &pt, &l, &r)?,
                    DivAssign(_) => self.arith(sp, "div", &pt, &l, &r)?,
                    RemAssign(_) => self.arith(sp, "rem", &pt, &l, &r)?,
                    BitAndAssign(_) => self.bitop(sp, "land", &pt, &l, &r)?,
                    BitOrAssign(_) => self.bitop(sp, "lor", &pt, &l, &r)?,
                    BitXorAssign(_) => self.bitop(sp, "lxor", &pt, &l, &r)?,
                    ShlAssign(_) => self.shift(sp, "shl", &l, &r)?,
                    _ => self.shift(sp, "shr", &l, &r)?,
                };
                self.place_write(&b.left, &v)?;
                Ok(Val::unit())
            }
            _ => err(sp, "unsupported binary operator"),
        }
    }

    // ------------------------------------------------------------------ calls

    /// call of a translated function / callback with parameter list `ps`
    pub fn call_generic(
        &mut self,
        sp: proc_macro2::Span,
        head: String,
        ps: &[(Ty, bool)],
        ret: &Ty,
        monadic: bool,
        pre_args: Vec<String>,
        args: &[&syn::Expr],
    ) -> R<Val> {
        if ps.len() != args.len() {
            return err(sp, "wrong number of arguments");
        }
        let mut ts = pre_args;
        let mut ops: Vec<(String, usize)> = ts.iter().map(|t| (t.clone(), self.assign_log.len())).collect();
        let mut muts: Vec<String> = vec![];
        for ((pty, pmut), a) in ps.iter().zip(args.iter()) {
            if *pmut {
                // `&mut x` (also `&mut x.data` of a Bigint), or a variable that is itself a
                // `&mut` (reborrow)
                let (place_expr, explicit) = match a {
                    syn::Expr::Reference(r) if r.mutability.is_some() => (&*r.expr, true),
                    other => (*other, false),
                };
                let x = match self.place_of(place_expr) {
                    Ok(Place::Var(x)) => x,
                    _ if explicit => return err(a.span(), "`&mut` argument must be a variable"),
                    _ => return err(a.span(), "argument for a `&mut` parameter must be `&mut x`"),
                };
                match self.lookup(&x) {
                    Some((_, v)) if explicit || v.mutref => {
                        if v.alias.is_some() {
                            return err(a.span(), "`&mut` of an alias");
                        }
                    }
                    _ => return err(a.span(), "argument for a `&mut` parameter must be `&mut x`"),
                }
                match self.ty_of(place_expr) {
                    Some(t) if t == *pty => {}
                    _ => return err(a.span(), "type of the `&mut` argument"),
                }
                if muts.contains(&x) {
                    return err(a.span(), "the same variable is passed twice as `&mut`");
                }
                ts.push(self.cn(&x));
                ops.push((self.cn(&x), self.assign_log.len()));
                muts.push(x);
            } else {
                // a by-value iterator parameter moves the iterator: `&mut it` would advance the
                // caller's (C-REFMUT); `lower_expr` refuses `&mut e` here
                let v = self.lower_recv(strip_ref(a), Some(pty))?;
                let v = self.coerce(v, pty);
                if v.ty != *pty {
                    return err(a.span(), format!("argument of type {} for a parameter of type {}", v.ty, pty));
                }
                ops.push((v.t.clone(), self.assign_log.len()));
                ts.push(v.t);
            }
        }
        self.no_stale_reads(sp, &ops)?;
        let app = if ts.is_empty() { head } else { format!("{} {}", head, ts.join(" ")) };
        if !monadic {
            return Ok(Val::new(format!("({})", app), ret.clone()));
        }
        if *ret == Ty::Opt(Box::new(Ty::Unit)) && !muts.is_empty() {
            // rule 15: the result is the option of the updated arguments
            let r = self.fresh();
            self.push(S::Bind(r.clone(), app));
            let mut v = Val::new(r, Ty::OptUpd);
            v.upd = muts;
            return Ok(v);
        }
        let mut pats: Vec<String> = muts.iter().map(|x| self.cn(x)).collect();
        let res = if *ret != Ty::Unit || pats.is_empty() {
            let r = self.fresh();
            pats.push(r.clone());
            Val::new(r, ret.clone())
        } else {
            Val::unit()
        };
        self.push(S::Bind(tuple_pat(&pats), app));
        for x in muts {
            self.mark_assigned(&x);
        }
        Ok(res)
    }

    fn lower_call(&mut self, c: &syn::ExprCall, expected: Option<&Ty>) -> R<Val> {
        let sp = c.span();
        let p = match &*c.func {
            syn::Expr::Path(p) => p,
            _ => return err(sp, "call of a non-path"),
        };
        if p.qself.is_some() {
            return err(sp, "qualified path `<T as Trait>::..` is unsupported");
        }
        self.check_path_args(&p.path)?;
        let s = if self.raw_mode || self.heap_mode { crate::raw::raw_call_key(self, &p.path) } else { path_str(&p.path) };
        let args: Vec<&syn::Expr> = c.args.iter().collect();
        if self.raw_mode {
            if let Some(v) = self.lower_call_raw(sp, &s, &args)? {
                return Ok(v);
            }
        }
        if self.heap_mode {
            if let Some(v) = self.lower_call_heap(sp, &s, &args)? {
                return Ok(v);
            }
        }
        // callback parameter
        if let Some((_, v)) = self.lookup(&s) {
            if let Ty::Fun(ps, r) = v.ty.clone() {
                let head = v.cname.clone();
                return self.call_generic(sp, head, &ps, &r, fun_is_monadic(&ps), vec![], &args);
            }
            return err(sp, format!("`{}` is not callable", s));
        }
        let usize_t = Ty::Int(IntTy::Usize);
        if s.ends_with("_value") && args.is_empty() {
            if let Some((lit, t)) = int_assoc_const(&s) {
                return Ok(Val::new(lit, Ty::Int(t)));
            }
        }
        match s.as_str() {
            "Some" => {
                let ex = match expected {
                    Some(Ty::Opt(t)) => Some((**t).clone()),
                    _ => None,
                };
                if args.len() != 1 {
                    return err(sp, "Some takes one argument");
                }
                if expected == Some(&Ty::Flag) {
                    // raw mode (rule 28): `Some(())` of an `Option<()>` result
                    let v = self.lower_expr(args[0], Some(&Ty::Unit))?;
                    if v.ty != Ty::Unit {
                        return err(sp, "`Some(..)` of a non-unit where `Option<()>` is expected");
                    }
                    return Ok(Val::new("true", Ty::Flag));
                }
                let v = self.lower_expr(args[0], ex.as_ref())?;
                if v.ty == Ty::OptUpd {
                    return err(sp, "`Some` of the result of a function with `&mut` parameters (rule 15)");
                }
                return Ok(Val::new(format!("(Some {})", v.t), Ty::Opt(Box::new(v.ty))));
            }
            "F::from_u64" | "Self::from_u64" => {
                self.needs.f = true;
                return self.call_generic(sp, "f_from_u64 f".into(), &[(U64, false)], &Ty::Float, false, vec![], &args);
            }
            "F::from_bits" | "Self::from_bits" => {
                self.needs.f = true;
                return self.call_generic(sp, "from_bits f b".into(), &[(U64, false)], &Ty::Float, true, vec![], &args);
            }
            "F::pow_fast_path" | "Self::pow_fast_path" => {
                self.needs.union(Needs { c: true, t: true, bt: false, l: false, f: true });
                return self.call_generic(
                    sp,
                    "pow_fast_path c T f".into(),
                    &[(usize_t, false)],
                    &Ty::Float,
                    true,
                    vec![],
                    &args,
                );
            }
            "int_pow_fast_path" => {
                self.needs.union(Needs { c: true, t: true, bt: false, l: false, f: false });
                return self.call_generic(
                    sp,
                    "int_pow_fast_path c T b".into(),
                    &[(usize_t, false), (Ty::Radix, false)],
                    &U64,
                    true,
                    vec![],
                    &args,
                );
            }
            _ => {}
        }
        if let Some(v) = self.lower_call_ext(sp, &s, &args, expected)? {
            return Ok(v);
        }
        let fi = match self.g.get_fn(&self.file, &s) {
            Some(f) => f.clone(),
            None if self.g.is_omitted(&self.file, &s) => return err(sp, format!("calls `{}`, which was omitted", s)),
            None => return err(sp, format!("call of `{}`, which is neither translated nor a known primitive", s)),
        };
        self.needs.union(fi.needs);
        self.call_generic(sp, format!("{} {}", fi.coq_name, fi.needs.args()), &fi.params, &fi.ret, true, vec![], &args)
    }

    fn lower_method(&mut self, m: &syn::ExprMethodCall, expected: Option<&Ty>) -> R<Val> {
        let sp = m.span();
        let name = m.method.to_string();
        let args: Vec<&syn::Expr> = m.args.iter().collect();
        if let Some(tf) = &m.turbofish {
            // C-GENERIC: `x.m::<T>()`: only the function's own `F` (and `_`)
            for x in &tf.args {
                let ok = match x {
                    syn::GenericArgument::Type(syn::Type::Infer(_)) => true,
                    syn::GenericArgument::Type(syn::Type::Path(tp)) => tp.qself.is_none() && tp.path.is_ident("F") && self.float_param,
                    _ => false,
                };
                if !ok {
                    return err(x.span(), format!("generic argument `{}` (only the function's own `F` and `_` are accepted)", quote::quote!(#x)));
                }
            }
        }
        if let Some(v) = self.lower_method_ext(m, expected)? {
            return Ok(v);
        }
        let rty = self.ty_of(&m.receiver).or_else(|| {
            // integer methods on an unsuffixed literal / `as _`: use the argument or expectation
            args.first().and_then(|a| self.ty_of(a)).or(expected.cloned())
        });
        let recv = self.lower_recv(&m.receiver, rty.as_ref())?;
        let after_recv = self.assign_log.len();
        let recv_t = recv.t.clone();
        let arg1 = |cx: &mut Self, ty: &Ty| -> R<Val> {
            if args.len() != 1 {
                return err(sp, "method takes one argument");
            }
            let v = cx.lower_expr(args[0], Some(ty))?;
            cx.no_stale_reads(sp, &[(recv_t.clone(), after_recv)])?;
            if v.ty != *ty {
                return err(sp, format!("method argument of type {} where {} is expected", v.ty, ty));
            }
            Ok(v)
        };
        let noargs = |n: usize| -> R<()> {
            if n != 0 {
                err(sp, "method takes no argument")
            } else {
                Ok(())
            }
        };
        match (&recv.ty, name.as_str()) {
            (Ty::Int(t), "wrapping_mul" | "wrapping_add" | "wrapping_sub" | "saturating_add" | "saturating_sub") => {
                let a = arg1(self, &recv.ty)?;
                Ok(Val::new(format!("({}_{} {} {})", t.name(), name, recv.t, a.t), recv.ty.clone()))
            }
            (Ty::Int(t), "overflowing_mul" | "overflowing_add") => {
                let a = arg1(self, &recv.ty)?;
                Ok(Val::new(
                    format!("({}_{} {} {})", t.name(), name, recv.t, a.t),
                    Ty::Tuple(vec![recv.ty.clone(), Ty::Bool]),
                ))
            }
            (Ty::Int(t), "checked_mul" | "checked_add" | "checked_sub") => {
                let a = arg1(self, &recv.ty)?;
                Ok(Val::new(format!("({}_{} {} {})", t.name(), name, recv.t, a.t), Ty::Opt(Box::new(recv.ty.clone()))))
            }
            (Ty::Int(_), "min") => {
                let a = arg1(self, &recv.ty)?;
                Ok(Val::new(format!("(Z.min {} {})", recv.t, a.t), recv.ty.clone()))
            }
            (Ty::Int(_), "max") => {
                let a = arg1(self, &recv.ty)?;
                Ok(Val::new(format!("(Z.max {} {})", recv.t, a.t), recv.ty.clone()))
            }
            (Ty::Int(IntTy::U64), "leading_zeros") => {
                noargs(args.len())?;
                Ok(Val::new(format!("(lz64 {})", recv.t), Ty::Int(IntTy::U32)))
            }
            (Ty::Float, "to_bits") => {
                noargs(args.len())?;
                Ok(Val::new(recv.t, U64))
            }
            (Ty::Table, "len") => {
                noargs(args.len())?;
                Ok(Val::new(format!("(zlen {})", recv.t), Ty::Int(IntTy::Usize)))
            }
            (rt, _) => {
                let key = match self.method_key(rt, &name) {
                    Some(k) => k,
                    None => return err(sp, format!("unsupported method `{}` on {}", name, rt)),
                };
                let fi = match self.g.get_fn(&self.file, &key) {
                    Some(f) => f.clone(),
                    None if self.g.is_omitted(&self.file, &key) => {
                        return err(sp, format!("calls `{}`, which was omitted", key))
                    }
                    None => return err(sp, format!("method `{}` is not translated", key)),
                };
                self.needs.union(fi.needs);
                // `self` of Float / Number methods is the first Gallina argument; the only
                // BellerophonPowers value is the constant BASE10_POWERS (the parameter `BT`)
                let pre = if *rt == Ty::Powers { vec![] } else { vec![recv.t.clone()] };
                self.call_generic(sp, format!("{} {}", fi.coq_name, fi.needs.args()), &fi.params, &fi.ret, true, pre, &args)
            }
        }
    }

    fn lower_closure(&mut self, c: &syn::ExprClosure, ps: &[(Ty, bool)], r: &Ty) -> R<Val> {
        let sp = c.span();
        if c.inputs.len() != ps.len() {
            return err(sp, "closure arity differs from the callback type");
        }
        let monadic = fun_is_monadic(ps);
        // fresh function context (the enclosing scopes stay visible: captured variables)
        let saved_stmts = std::mem::replace(&mut self.stmts, vec![vec![]]);
        let saved_ret = std::mem::replace(&mut self.ret_ty, r.clone());
        let saved_mut = std::mem::take(&mut self.mut_params);
        let depth = self.scopes.len();
        self.frames.push(Frame { depth, assigned: Default::default() });
        self.scopes.push(HashMap::new());
        let mut names = vec![];
        let mut result: R<()> = Ok(());
        for (p, (ty, mutref)) in c.inputs.iter().zip(ps.iter()) {
            let p = match p {
                syn::Pat::Type(pt) => &*pt.pat,
                p => p,
            };
            let id = match p {
                syn::Pat::Ident(pi) if pi.by_ref.is_none() && pi.subpat.is_none() => pi.ident.to_string(),
                syn::Pat::Wild(_) => {
                    names.push("_".to_string());
                    continue;
                }
                _ => {
                    result = err(sp, "closure parameter pattern");
                    break;
                }
            };
            if let Err(e) = self.name_ok(sp, &id) {
                result = Err(e);
                break;
            }
            let cn = self.new_cname(&id, self.scopes.len() - 1);
            self.scopes.last_mut().unwrap().insert(id.clone(), Var::plain(ty.clone(), *mutref, cn.clone()));
            if *mutref {
                self.mut_params.push(id.clone());
            }
            names.push(cn);
        }
        let body = result.and_then(|_| self.lower_expr(&c.body, Some(r)));
        let out = body.and_then(|v| {
            if v.ty != *r && !v.never {
                return err(sp, format!("closure returns {} where {} is expected", v.ty, r));
            }
            if !v.never {
                let t = self.ret_term(&v);
                self.push(S::Ret(t));
            }
            let ss = self.stmts.pop().unwrap();
            let fr = self.frames.last().unwrap();
            if !fr.assigned.is_empty() {
                return err(sp, "closure assigns to a captured variable");
            }
            if monadic {
                let mut em = Emitter::new();
                let t = em.emit(&ss, "(* unreachable *)", 8);
                if let Some(e) = em.errors.first() {
                    return err(sp, e);
                }
                Ok(format!("(fun {} =>\n{})", names.join(" "), t))
            } else {
                // pure callback: the body must be a pure term
                let mut t = None;
                let mut lets = String::new();
                for s in &ss {
                    match s {
                        S::Let(p, v) => lets.push_str(&format!("let {} := {} in ", p, v)),
                        S::Ret(x) => t = Some(x.clone()),
                        _ => return err(sp, "effects in a pure callback"),
                    }
                }
                let x = t.unwrap();
                let x = x.strip_prefix("Ok ").map(|s| s.to_string()).unwrap_or(x);
                Ok(format!("(fun {} => {}{})", names.join(" "), lets, paren(&x)))
            }
        });
        self.scopes.pop();
        self.frames.pop();
        self.stmts = saved_stmts;
        self.ret_ty = saved_ret;
        self.mut_params = saved_mut;
        let t = out?;
        Ok(Val::new(t, Ty::Fun(ps.to_vec(), Box::new(r.clone()))))
    }
}

fn block_tail(b: &syn::Block) -> Option<&syn::Expr> {
    match b.stmts.last() {
        Some(syn::Stmt::Expr(e, None)) => Some(e),
        _ => None,
    }
}
