//! C-PRIM (`PRIMITIVES`): today's token text (attributes except doc comments, visibility, signature,
//! body; as `quote!` prints them: single spaces between tokens, literals verbatim) of the primitives
//! of num.rs that the translation calls BY NAME with the meaning of the hand models (rule 10): `Float::pow_fast_path`,
//! `from_u64`, `from_bits`, `to_bits` for f32 and f64 (model/Number.v, model/FloatOps.v, model/Num.v),
//! `int_pow_fast_path` (model/Number.v), the std `powf` / `powd` wrappers, `FastPathRadix` and its
//! conversion to u64, and the `verif_int_pow_fast_path` hook through which the values are dumped.
//!
//! C-PIN32 (`DROPPED32`): the code that rule 14 drops or never reads because it belongs to the
//! 32-bit-limb configuration, which cannot be built here: every `if LIMB_BITS == 32` branch and match
//! arm guarded by it (key `<function>#if<k>` / `#arm<k>`), the functions `u32_to_hi64_*`, the items
//! under the not-64-bit `cfg` (`Limb`, `Wide`, `LIMB_BITS`, the 32-bit `LARGE_POW5`), the `hi!` arms
//! `@3` and `@nonzero3`.  Changed / missing / extra: everything built on the limb types is OMITTED
//! (bigint.rs, table_small.rs), the functions of slow.rs are OMITTED.
//!
//! Regenerate both tables with `rs2coq --dump-pins <src-dir>` after a reviewed change.

pub const PRIMITIVES: &[(&str, &str, &str, &str)] = &[
    ("num.rs", "Float for f32", "pow_fast_path", "# [inline (always)] unsafe fn pow_fast_path (exponent : usize) -> Self { # [cfg (not (feature = \"compact\"))] return unsafe { * SMALL_F32_POW10 . get_unchecked (exponent) } ; # [cfg (feature = \"compact\")] return powf (10.0f32 , exponent as f32) ; }"),
    ("num.rs", "Float for f32", "from_u64", "# [inline] fn from_u64 (u : u64) -> f32 { u as _ }"),
    ("num.rs", "Float for f32", "from_bits", "# [inline] fn from_bits (u : u64) -> f32 { debug_assert ! (u <= 0xffff_ffff) ; f32 :: from_bits (u as u32) }"),
    ("num.rs", "Float for f32", "to_bits", "# [inline] fn to_bits (self) -> u64 { f32 :: to_bits (self) as u64 }"),
    ("num.rs", "Float for f64", "pow_fast_path", "# [inline (always)] unsafe fn pow_fast_path (exponent : usize) -> Self { # [cfg (not (feature = \"compact\"))] return unsafe { * SMALL_F64_POW10 . get_unchecked (exponent) } ; # [cfg (feature = \"compact\")] return powd (10.0f64 , exponent as f64) ; }"),
    ("num.rs", "Float for f64", "from_u64", "# [inline] fn from_u64 (u : u64) -> f64 { u as _ }"),
    ("num.rs", "Float for f64", "from_bits", "# [inline] fn from_bits (u : u64) -> f64 { f64 :: from_bits (u) }"),
    ("num.rs", "Float for f64", "to_bits", "# [inline] fn to_bits (self) -> u64 { f64 :: to_bits (self) }"),
    ("num.rs", "", "powf", "# [inline (always)] # [cfg (all (feature = \"std\" , feature = \"compact\"))] pub fn powf (x : f32 , y : f32) -> f32 { x . powf (y) }"),
    ("num.rs", "", "powd", "# [inline (always)] # [cfg (all (feature = \"std\" , feature = \"compact\"))] pub fn powd (x : f64 , y : f64) -> f64 { x . powf (y) }"),
    ("num.rs", "enum", "FastPathRadix", "pub (crate) enum FastPathRadix { Five , Ten , }"),
    ("num.rs", "From < FastPathRadix > for u64", "from", "fn from (radix : FastPathRadix) -> u64 { match radix { FastPathRadix :: Five => 5 , FastPathRadix :: Ten => 10 , } }"),
    ("num.rs", "", "int_pow_fast_path", "# [inline (always)] pub (crate) unsafe fn int_pow_fast_path (exponent : usize , radix : FastPathRadix) -> u64 { # [cfg (not (feature = \"compact\"))] return match radix { FastPathRadix :: Five => unsafe { * SMALL_INT_POW5 . get_unchecked (exponent) } , FastPathRadix :: Ten => unsafe { * SMALL_INT_POW10 . get_unchecked (exponent) } , } ; # [cfg (feature = \"compact\")] return u64 :: from (radix) . pow (exponent as u32) ; }"),
    ("num.rs", "", "verif_int_pow_fast_path", "# [cfg (feature = \"verif\")] pub unsafe fn verif_int_pow_fast_path (exponent : usize , radix_is_ten : bool) -> u64 { let radix = if radix_is_ten { FastPathRadix :: Ten } else { FastPathRadix :: Five } ; unsafe { int_pow_fast_path (exponent , radix) } }"),
];

pub const DROPPED32: &[(&str, &str, &str)] = &[
    ("bigint.rs", "from_u64#if0", "{ vec . try_push (x as Limb) . unwrap () ; vec . try_push ((x >> 32) as Limb) . unwrap () ; }"),
    ("bigint.rs", "hi64#arm0", "1 if LIMB_BITS == 32 => hi ! (@ 1 x , rslc , u32 , u32_to_hi64_1) ,"),
    ("bigint.rs", "hi64#arm1", "2 if LIMB_BITS == 32 => hi ! (@ 2 x , rslc , u32 , u32_to_hi64_2) ,"),
    ("bigint.rs", "hi64#arm2", "_ if LIMB_BITS == 32 => hi ! (@ nonzero3 x , rslc , u32 , u32_to_hi64_3) ,"),
    ("bigint.rs", "pow#if0", "{ 13 }"),
    ("bigint.rs", "fn:u32_to_hi64_1", "# [inline] pub fn u32_to_hi64_1 (r0 : u32) -> (u64 , bool) { u64_to_hi64_1 (r0 as u64) }"),
    ("bigint.rs", "fn:u32_to_hi64_2", "# [inline] pub fn u32_to_hi64_2 (r0 : u32 , r1 : u32) -> (u64 , bool) { let r0 = (r0 as u64) << 32 ; let r1 = r1 as u64 ; u64_to_hi64_1 (r0 | r1) }"),
    ("bigint.rs", "fn:u32_to_hi64_3", "# [inline] pub fn u32_to_hi64_3 (r0 : u32 , r1 : u32 , r2 : u32) -> (u64 , bool) { let r0 = r0 as u64 ; let r1 = (r1 as u64) << 32 ; let r2 = r2 as u64 ; u64_to_hi64_2 (r0 , r1 | r2) }"),
    ("bigint.rs", "macro hi:@3", "(@ 3 $ self : ident , $ rview : ident , $ t : ident , $ fn : ident) => { { let r0 = $ rview [0] as $ t ; let r1 = $ rview [1] as $ t ; let r2 = $ rview [2] as $ t ; $ fn (r0 , r1 , r2) } }"),
    ("bigint.rs", "macro hi:@nonzero3", "(@ nonzero3 $ self : ident , $ rview : ident , $ t : ident , $ fn : ident) => { { let (v , n) = hi ! (@ 3 $ self , $ rview , $ t , $ fn) ; (v , n || nonzero ($ self , 3)) } }"),
    ("bigint.rs", "cfg32:type Limb", "# [cfg (not (all (target_pointer_width = \"64\" , not (target_arch = \"sparc\"))))] pub type Limb = u32 ;"),
    ("bigint.rs", "cfg32:type Wide", "# [cfg (not (all (target_pointer_width = \"64\" , not (target_arch = \"sparc\"))))] pub type Wide = u64 ;"),
    ("bigint.rs", "cfg32:const LIMB_BITS", "# [cfg (not (all (target_pointer_width = \"64\" , not (target_arch = \"sparc\"))))] const LIMB_BITS : usize = 32 ;"),
    ("slow.rs", "parse_mantissa#if0", "{ 9 }"),
    ("table_small.rs", "cfg32:const LARGE_POW5", "# [cfg (not (all (target_pointer_width = \"64\" , not (target_arch = \"sparc\"))))] const LARGE_POW5 : [u32 ; 10] = [4279965485 , 329373468 , 4020270615 , 2137533757 , 4287402176 , 1057042919 , 1071430142 , 2440757623 , 381945767 , 46164893 ,] ;"),
];
