//! C-PRIM: today's token text (attributes except doc comments, visibility, signature, body; as
//! `quote!` prints them, without white space) of the primitives of num.rs that the translation
//! calls BY NAME with the meaning of the hand models (rule 10): `Float::pow_fast_path`, `from_u64`,
//! `from_bits`, `to_bits` for f32 and f64 (model/Number.v, model/FloatOps.v, model/Num.v),
//! `int_pow_fast_path` (model/Number.v), the std `powf` / `powd` wrappers, `FastPathRadix` and its
//! conversion to u64, and the `verif_int_pow_fast_path` hook through which the values are dumped.
//! Regenerate with `rs2coq --dump-pins <src-dir>` after a reviewed change of num.rs.
pub const PRIMITIVES: &[(&str, &str, &str, &str)] = &[
    ("num.rs", "Float for f32", "pow_fast_path", "#[inline(always)]unsafefnpow_fast_path(exponent:usize)->Self{#[cfg(not(feature=\"compact\"))]returnunsafe{*SMALL_F32_POW10.get_unchecked(exponent)};#[cfg(feature=\"compact\")]returnpowf(10.0f32,exponentasf32);}"),
    ("num.rs", "Float for f32", "from_u64", "#[inline]fnfrom_u64(u:u64)->f32{uas_}"),
    ("num.rs", "Float for f32", "from_bits", "#[inline]fnfrom_bits(u:u64)->f32{debug_assert!(u<=0xffff_ffff);f32::from_bits(uasu32)}"),
    ("num.rs", "Float for f32", "to_bits", "#[inline]fnto_bits(self)->u64{f32::to_bits(self)asu64}"),
    ("num.rs", "Float for f64", "pow_fast_path", "#[inline(always)]unsafefnpow_fast_path(exponent:usize)->Self{#[cfg(not(feature=\"compact\"))]returnunsafe{*SMALL_F64_POW10.get_unchecked(exponent)};#[cfg(feature=\"compact\")]returnpowd(10.0f64,exponentasf64);}"),
    ("num.rs", "Float for f64", "from_u64", "#[inline]fnfrom_u64(u:u64)->f64{uas_}"),
    ("num.rs", "Float for f64", "from_bits", "#[inline]fnfrom_bits(u:u64)->f64{f64::from_bits(u)}"),
    ("num.rs", "Float for f64", "to_bits", "#[inline]fnto_bits(self)->u64{f64::to_bits(self)}"),
    ("num.rs", "", "powf", "#[inline(always)]#[cfg(all(feature=\"std\",feature=\"compact\"))]pubfnpowf(x:f32,y:f32)->f32{x.powf(y)}"),
    ("num.rs", "", "powd", "#[inline(always)]#[cfg(all(feature=\"std\",feature=\"compact\"))]pubfnpowd(x:f64,y:f64)->f64{x.powf(y)}"),
    ("num.rs", "enum", "FastPathRadix", "pub(crate)enumFastPathRadix{Five,Ten,}"),
    ("num.rs", "From<FastPathRadix> for u64", "from", "fnfrom(radix:FastPathRadix)->u64{matchradix{FastPathRadix::Five=>5,FastPathRadix::Ten=>10,}}"),
    ("num.rs", "", "int_pow_fast_path", "#[inline(always)]pub(crate)unsafefnint_pow_fast_path(exponent:usize,radix:FastPathRadix)->u64{#[cfg(not(feature=\"compact\"))]returnmatchradix{FastPathRadix::Five=>unsafe{*SMALL_INT_POW5.get_unchecked(exponent)},FastPathRadix::Ten=>unsafe{*SMALL_INT_POW10.get_unchecked(exponent)},};#[cfg(feature=\"compact\")]returnu64::from(radix).pow(exponentasu32);}"),
    ("num.rs", "", "verif_int_pow_fast_path", "#[cfg(feature=\"verif\")]pubunsafefnverif_int_pow_fast_path(exponent:usize,radix_is_ten:bool)->u64{letradix=ifradix_is_ten{FastPathRadix::Ten}else{FastPathRadix::Five};unsafe{int_pow_fast_path(exponent,radix)}}"),
];
