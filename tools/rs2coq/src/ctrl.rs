//! Control flow: `if` / `if let` / `match`, and the loops of rules 11 and 16-17.
use crate::emit::{LoopKind, S};
use crate::lower::*;
use crate::ty::*;
use std::collections::{BTreeSet, HashMap};
use syn::spanned::Spanned;

/// `LIMB_BITS == 32` (rule 14: resolved statically, `LIMB_BITS` is 64)
pub fn static_cond(e: &syn::Expr) -> Option<bool> {
    match e {
        syn::Expr::Paren(p) => static_cond(&p.expr),
        syn::Expr::Binary(b) if matches!(b.op, syn::BinOp::Eq(_)) => {
            let l = match &*b.left {
                syn::Expr::Path(p) => p.path.is_ident("LIMB_BITS"),
                _ => false,
            };
            match (&*b.right, l) {
                (syn::Expr::Lit(syn::ExprLit { lit: syn::Lit::Int(i), .. }), true) => {
                    i.base10_parse::<u64>().ok().map(|v| v == 64)
                }
                _ => None,
            }
        }
        _ => None,
    }
}

/// what an irrefutable-or-`Some` pattern binds: the Gallina pattern and the variables to declare
pub struct PatBind {
    pub pat: String,
    pub vars: Vec<(String, Ty, String)>,
}

impl<'a> Cx<'a> {
    /// `LIMB_BITS == 32` is only static when `LIMB_BITS` is the global constant of bigint.rs: no
    /// local / parameter of that name in scope, and the file defines or imports it (C-CONST)
    pub fn static_cond_checked(&self, e: &syn::Expr) -> Option<bool> {
        let k = static_cond(e)?;
        if self.lookup("LIMB_BITS").is_some() || !self.g.consts.contains_key("LIMB_BITS") {
            return None;
        }
        if self.file != "bigint.rs" && self.file != "slow.rs" {
            // (slow.rs imports it: whitelisted by C-USE; no other file does)
            return None;
        }
        Some(k)
    }

    /// Lower the two alternatives `a` / `b` (closures producing the branch value) under the
    /// condition `c`.
    pub fn lower_branches(
        &mut self,
        sp: proc_macro2::Span,
        c: Cond,
        expected: Option<&Ty>,
        a: &mut dyn FnMut(&mut Self, Option<&Ty>) -> R<Val>,
        b: &mut dyn FnMut(&mut Self, Option<&Ty>) -> R<Val>,
    ) -> R<Val> {
        let depth = self.scopes.len();
        self.frames.push(Frame { depth, assigned: BTreeSet::new() });
        self.stmts.push(vec![]);
        let va = a(self, expected)?;
        let mut sa = self.stmts.pop().unwrap();
        self.stmts.push(vec![]);
        let exp_b: Option<Ty> = expected.cloned().or(if va.never { None } else { Some(va.ty.clone()) });
        let vb = b(self, exp_b.as_ref())?;
        let mut sb = self.stmts.pop().unwrap();
        let fr = self.frames.pop().unwrap();
        let ty = if va.never { vb.ty.clone() } else { va.ty.clone() };
        if !va.never && !vb.never && va.ty != vb.ty {
            return err(sp, format!("branches have different types {} / {}", va.ty, vb.ty));
        }
        if ty == Ty::OptUpd && !(va.never && vb.never) {
            return err(sp, "an `if` whose value is the `Option<()>` of a function with `&mut` parameters (rule 15)");
        }
        let valued = ty != Ty::Unit && !(va.never && vb.never);
        if valued && sa.is_empty() && sb.is_empty() && fr.assigned.is_empty() && !va.never && !vb.never {
            let t = match &c.m {
                None => format!("(if {} then {} else {})", c.c, va.t, vb.t),
                Some((pa, pb)) => format!("(match {} with {} => {} | {} => {} end)", c.c, pa, va.t, pb, vb.t),
            };
            return Ok(Val::new(t, ty));
        }
        let mut outs: Vec<String> = fr.assigned.iter().map(|x| self.cn(x)).collect();
        for x in fr.assigned.iter() {
            self.mark_assigned(x);
        }
        let res = if valued {
            let r = self.fresh();
            if !va.never {
                sa.push(S::Let(r.clone(), va.t.clone()));
            }
            if !vb.never {
                sb.push(S::Let(r.clone(), vb.t.clone()));
            }
            outs.push(r.clone());
            Val::new(r, ty)
        } else {
            let mut u = Val::unit();
            u.never = va.never && vb.never;
            u
        };
        self.push(S::If { c: c.c, m: c.m, a: sa, b: sb, outs });
        Ok(res)
    }

    /// `Some(x)` / `Some(&x)` / `Some(_)` against a scrutinee of type `Option<T>`
    fn some_pattern(&self, p: &syn::Pat, scrut_ty: &Ty) -> R<PatBind> {
        let inner_ty = match scrut_ty {
            Ty::Opt(t) => (**t).clone(),
            t => return err(p.span(), format!("`Some(..)` pattern against a value of type {}", t)),
        };
        let ts = match p {
            syn::Pat::TupleStruct(ts) if ts.qself.is_none() && ts.path.is_ident("Some") && ts.elems.len() == 1 => ts,
            _ => return err(p.span(), "only `Some(x)` / `Some(&x)` patterns are supported in `if let` / `while let`"),
        };
        let b = self.elem_pattern(&ts.elems[0], &inner_ty)?;
        let pat = if b.pat.starts_with('\'') { b.pat[1..].to_string() } else { b.pat.clone() };
        Ok(PatBind { pat: format!("Some {}", pat), vars: b.vars })
    }

    /// an irrefutable pattern made of identifiers, `&`, `_` and tuples (loop variables, `Some(..)`
    /// payloads, closure parameters); the Gallina names are those the variables get when declared
    /// in a fresh inner scope
    pub fn elem_pattern(&self, p: &syn::Pat, ty: &Ty) -> R<PatBind> {
        match p {
            syn::Pat::Reference(r) => self.elem_pattern(&r.pat, ty),
            syn::Pat::Paren(r) => self.elem_pattern(&r.pat, ty),
            syn::Pat::Type(t) => self.elem_pattern(&t.pat, ty),
            syn::Pat::Wild(_) => Ok(PatBind { pat: "_".into(), vars: vec![] }),
            syn::Pat::Ident(pi) if pi.by_ref.is_none() && pi.subpat.is_none() => {
                let x = pi.ident.to_string();
                self.name_ok(pi.span(), &x)?;
                let cn = self.new_cname(&x, usize::MAX);
                Ok(PatBind { pat: cn.clone(), vars: vec![(x, ty.clone(), cn)] })
            }
            syn::Pat::Tuple(pt) => {
                let tys = match ty {
                    Ty::Tuple(ts) if ts.len() == pt.elems.len() => ts.clone(),
                    t => return err(p.span(), format!("tuple pattern against type {}", t)),
                };
                let mut pats = vec![];
                let mut vars = vec![];
                for (q, t) in pt.elems.iter().zip(tys.iter()) {
                    let b = self.elem_pattern(q, t)?;
                    if b.pat.starts_with('\'') {
                        return err(q.span(), "nested tuple pattern");
                    }
                    pats.push(b.pat);
                    vars.extend(b.vars);
                }
                let mut seen = BTreeSet::new();
                for (x, _, _) in &vars {
                    if !seen.insert(x.clone()) {
                        return err(p.span(), "a variable is bound twice in a pattern");
                    }
                }
                Ok(PatBind { pat: format!("'({})", pats.join(", ")), vars })
            }
            _ => err(p.span(), "unsupported pattern"),
        }
    }

    /// open a scope holding the variables of a pattern
    pub fn push_pat_scope(&mut self, b: &PatBind) {
        // (the names were checked by `elem_pattern`)
        let mut sc = HashMap::new();
        for (x, ty, cn) in &b.vars {
            sc.insert(x.clone(), Var::plain(ty.clone(), false, cn.clone()));
        }
        self.scopes.push(sc);
    }

    pub fn lower_if(&mut self, e: &syn::ExprIf, expected: Option<&Ty>) -> R<Val> {
        let then_b = &e.then_branch;
        let else_e = e.else_branch.as_ref().map(|(_, x)| &**x);
        if let Some(k) = self.static_cond_checked(&e.cond) {
            if let Err(m) = &self.g.limb_ok {
                return err(e.cond.span(), m);
            }
            return if k {
                self.lower_block(then_b, expected)
            } else {
                match else_e {
                    Some(x) => self.lower_expr(x, expected),
                    None => Ok(Val::unit()),
                }
            };
        }
        if let syn::Expr::Let(l) = &*e.cond {
            // `if let Some(p) = e { A } else { B }` (rule 18)
            let s = self.lower_expr(&l.expr, None)?;
            let pb = self.some_pattern(&l.pat, &s.ty)?;
            return self.lower_branches(
                e.span(),
                Cond { c: s.t, m: Some((pb.pat.clone(), "None".into())) },
                expected,
                &mut |cx, ex| {
                    cx.push_pat_scope(&pb);
                    let r = cx.lower_block(then_b, ex);
                    cx.scopes.pop();
                    r
                },
                &mut |cx, ex| match else_e {
                    Some(x) => cx.lower_expr(x, ex),
                    None => Ok(Val::unit()),
                },
            );
        }
        let c = self.lower_expr(&e.cond, Some(&Ty::Bool))?;
        if c.ty != Ty::Bool {
            return err(e.cond.span(), "condition is not a bool");
        }
        self.lower_branches(
            e.span(),
            Cond::bool(c.t),
            expected,
            &mut |cx, ex| cx.lower_block(then_b, ex),
            &mut |cx, ex| match else_e {
                Some(x) => cx.lower_expr(x, ex),
                None => Ok(Val::unit()),
            },
        )
    }

    /// `match` on a `bool`, or on a pair whose second component is matched by `true`/`false`
    /// (rule 6); on integers, `Option<int>` and `cmp::Ordering` (rule 19)
    pub fn lower_match(&mut self, e: &syn::ExprMatch, expected: Option<&Ty>) -> R<Val> {
        let s = self.lower_expr(&e.expr, None)?;
        let two_armed_bool = match &s.ty {
            Ty::Bool => true,
            Ty::Tuple(ts) => ts.len() == 2 && ts[1] == Ty::Bool,
            _ => false,
        };
        if !two_armed_bool {
            return self.lower_match_general(e, s, expected);
        }
        if e.arms.len() != 2 {
            return err(e.span(), "only two-armed `match` on bool / (x, bool) is supported");
        }
        for a in &e.arms {
            if a.guard.is_some() {
                return err(a.span(), "match guards are unsupported");
            }
        }
        fn bool_pat(p: &syn::Pat) -> Option<bool> {
            if let syn::Pat::Lit(syn::ExprLit { lit: syn::Lit::Bool(b), .. }) = p {
                Some(b.value)
            } else {
                None
            }
        }
        match &s.ty {
            Ty::Bool => {
                let (p0, p1) = (bool_pat(&e.arms[0].pat), bool_pat(&e.arms[1].pat));
                let (ta, fa) = match (p0, p1) {
                    (Some(true), Some(false)) => (&e.arms[0], &e.arms[1]),
                    (Some(false), Some(true)) => (&e.arms[1], &e.arms[0]),
                    _ => return err(e.span(), "match on bool needs the arms `true` and `false`"),
                };
                let (tb, fb) = (&*ta.body, &*fa.body);
                self.lower_branches(
                    e.span(),
                    Cond::bool(s.t.clone()),
                    expected,
                    &mut |cx, ex| cx.lower_arm(tb, ex),
                    &mut |cx, ex| cx.lower_arm(fb, ex),
                )
            }
            Ty::Tuple(ts) if ts.len() == 2 && ts[1] == Ty::Bool => {
                let split = |p: &syn::Pat| -> Option<(syn::Pat, bool)> {
                    if let syn::Pat::Tuple(pt) = p {
                        if pt.elems.len() == 2 {
                            if let Some(b) = bool_pat(&pt.elems[1]) {
                                return Some((pt.elems[0].clone(), b));
                            }
                        }
                    }
                    None
                };
                let (a0, a1) = match (split(&e.arms[0].pat), split(&e.arms[1].pat)) {
                    (Some(x), Some(y)) if x.1 != y.1 => (x, y),
                    _ => return err(e.span(), "match on (x, bool) needs arms `(p, true)` and `(q, false)`"),
                };
                let ((tp, _), tb, (fp, _), fb) = if a0.1 {
                    (a0, &*e.arms[0].body, a1, &*e.arms[1].body)
                } else {
                    (a1, &*e.arms[1].body, a0, &*e.arms[0].body)
                };
                let x = self.fresh();
                let o = self.fresh();
                self.push(S::Let(format!("'({}, {})", x, o), s.t.clone()));
                let xv = Val::new(x, ts[0].clone());
                self.lower_branches(
                    e.span(),
                    Cond::bool(o),
                    expected,
                    &mut |cx, ex| {
                        cx.scopes.push(HashMap::new());
                        let r = cx.bind_pat(&tp, &xv).and_then(|_| cx.lower_arm(tb, ex));
                        cx.scopes.pop();
                        r
                    },
                    &mut |cx, ex| {
                        cx.scopes.push(HashMap::new());
                        let r = cx.bind_pat(&fp, &xv).and_then(|_| cx.lower_arm(fb, ex));
                        cx.scopes.pop();
                        r
                    },
                )
            }
            t => err(e.span(), format!("unsupported `match` scrutinee type {}", t)),
        }
    }

    fn lower_arm(&mut self, body: &syn::Expr, expected: Option<&Ty>) -> R<Val> {
        self.scopes.push(HashMap::new());
        let r = self.lower_expr(body, expected);
        self.scopes.pop();
        r
    }

    /// the bool term that tests the pattern `p` against the (atomic) scrutinee `s`;
    /// `Ok(None)` = the pattern always matches (`_`, or an identifier: then it is returned too)
    fn arm_test(&self, p: &syn::Pat, s: &Val) -> R<(Option<String>, Option<String>)> {
        let lit_of = |q: &syn::Pat| -> Option<String> {
            let q = match q {
                syn::Pat::Reference(r) => &*r.pat,
                q => q,
            };
            match q {
                syn::Pat::Lit(syn::ExprLit { lit: syn::Lit::Int(i), .. }) => Some(i.base10_digits().to_string()),
                syn::Pat::Lit(syn::ExprLit { lit: syn::Lit::Byte(b), .. }) => Some(b.value().to_string()),
                _ => None,
            }
        };
        if let syn::Pat::Or(po) = p {
            // `p | q`: either test (no bindings)
            let mut ts = vec![];
            for q in &po.cases {
                match self.arm_test(q, s)? {
                    (Some(t), None) => ts.push(t),
                    _ => return err(q.span(), "binding / catch-all alternatives in an or-pattern are unsupported"),
                }
            }
            return Ok((Some(format!("({})", ts.join(" || "))), None));
        }
        match p {
            syn::Pat::Wild(_) => Ok((None, None)),
            syn::Pat::Ident(pi) if pi.by_ref.is_none() && pi.subpat.is_none() && pi.ident != "None" => {
                Ok((None, Some(pi.ident.to_string())))
            }
            _ => {
                let t = match (&s.ty, p) {
                    (Ty::Int(_), q) if lit_of(q).is_some() => format!("({} =? {})", s.t, lit_of(q).unwrap()),
                    (Ty::Ordering, syn::Pat::Path(pp)) if pp.qself.is_none() && pp.path.segments.iter().all(|s| s.arguments.is_none()) => {
                        let c = match pp.path.segments.last().unwrap().ident.to_string().as_str() {
                            "Equal" => "Eq",
                            "Less" => "Lt",
                            "Greater" => "Gt",
                            _ => return err(p.span(), "unknown `Ordering` pattern"),
                        };
                        format!("(match {} with {} => true | _ => false end)", s.t, c)
                    }
                    (Ty::Opt(it), syn::Pat::TupleStruct(ts))
                        if matches!(**it, Ty::Int(_)) && ts.path.is_ident("Some") && ts.elems.len() == 1 && lit_of(&ts.elems[0]).is_some() =>
                    {
                        format!("(match {} with Some {} => true | _ => false end)", s.t, lit_of(&ts.elems[0]).unwrap())
                    }
                    (Ty::Opt(_), syn::Pat::Ident(pi)) if pi.ident == "None" => {
                        format!("(match {} with None => true | _ => false end)", s.t)
                    }
                    (t, _) => return err(p.span(), format!("unsupported `match` pattern for a scrutinee of type {}", t)),
                };
                Ok((Some(t), None))
            }
        }
    }

    /// rule 19: the arms are tried in order (`if test1 then A1 else if test2 then A2 ..`); the
    /// last arm is the final `else` (Rust has checked that the `match` is exhaustive)
    fn lower_match_general(&mut self, e: &syn::ExprMatch, s: Val, expected: Option<&Ty>) -> R<Val> {
        match &s.ty {
            Ty::Int(_) | Ty::Ordering | Ty::Opt(_) => {}
            t => return err(e.span(), format!("unsupported `match` scrutinee type {}", t)),
        }
        // evaluate the scrutinee once
        let atomic = s.t.chars().all(|c| c.is_alphanumeric() || c == '_' || c == '\'');
        let s = if atomic {
            s
        } else {
            let t = self.fresh();
            self.push(S::Let(t.clone(), s.t.clone()));
            Val::new(t, s.ty.clone())
        };
        // arms whose guard is statically false are dropped
        let mut arms: Vec<&syn::Arm> = vec![];
        for a in &e.arms {
            if let Some((_, g)) = &a.guard {
                match self.static_cond_checked(g) {
                    Some(false) => continue,
                    Some(true) => return err(g.span(), "a statically true guard is unsupported"),
                    None => {}
                }
            }
            arms.push(a);
        }
        if arms.is_empty() {
            return err(e.span(), "`match` without arms");
        }
        // `match opt { Some(p) => A, None | _ => B }` with a binding `p` (rule 24): as `if let`
        if let Ty::Opt(_) = &s.ty {
            if arms.len() == 2 && arms.iter().all(|a| a.guard.is_none()) {
                let binder = |p: &syn::Pat| -> bool {
                    fn strip(q: &syn::Pat) -> &syn::Pat {
                        match q {
                            syn::Pat::Reference(r) => strip(&r.pat),
                            syn::Pat::Paren(r) => strip(&r.pat),
                            q => q,
                        }
                    }
                    match p {
                        syn::Pat::TupleStruct(ts) if ts.path.is_ident("Some") && ts.elems.len() == 1 => {
                            matches!(strip(&ts.elems[0]), syn::Pat::Ident(_) | syn::Pat::Tuple(_))
                        }
                        _ => false,
                    }
                };
                let none_like = |p: &syn::Pat| -> Option<&'static str> {
                    match p {
                        syn::Pat::Wild(_) => Some("_"),
                        syn::Pat::Ident(pi) if pi.ident == "None" => Some("None"),
                        _ => None,
                    }
                };
                let pick = if binder(&arms[0].pat) && none_like(&arms[1].pat).is_some() {
                    Some((arms[0], arms[1]))
                } else if binder(&arms[1].pat) && none_like(&arms[0].pat) == Some("None") {
                    Some((arms[1], arms[0]))
                } else {
                    None
                };
                if let Some((sa, na)) = pick {
                    let pb = self.some_pattern(&sa.pat, &s.ty)?;
                    let other = none_like(&na.pat).unwrap().to_string();
                    let (sbody, nbody) = (&*sa.body, &*na.body);
                    return self.lower_branches(
                        e.span(),
                        Cond { c: s.t.clone(), m: Some((pb.pat.clone(), other)) },
                        expected,
                        &mut |cx, ex| {
                            cx.push_pat_scope(&pb);
                            let r = cx.lower_expr(sbody, ex);
                            cx.scopes.pop();
                            r
                        },
                        &mut |cx, ex| cx.lower_arm(nbody, ex),
                    );
                }
            }
        }
        self.lower_arms(e.span(), &arms, &s, expected)
    }

    fn lower_arms(&mut self, sp: proc_macro2::Span, arms: &[&syn::Arm], s: &Val, expected: Option<&Ty>) -> R<Val> {
        let arm = arms[0];
        let (test, bind) = self.arm_test(&arm.pat, s)?;
        let binds = bind.is_some();
        let guard = arm.guard.as_ref().map(|(_, g)| &**g);
        let body = &*arm.body;
        let s2 = s.clone();
        let mut run_body = move |cx: &mut Self, ex: Option<&Ty>| -> R<Val> {
            cx.scopes.push(HashMap::new());
            let r = (|| {
                if let Some(x) = &bind {
                    let cn = cx.declare(sp, x, s2.ty.clone(), false)?;
                    cx.push(S::Let(cn, s2.t.clone()));
                }
                cx.lower_expr(body, ex)
            })();
            cx.scopes.pop();
            r
        };
        if arms.len() == 1 {
            if guard.is_some() {
                return err(arm.span(), "the last arm of a `match` has a guard");
            }
            return run_body(self, expected);
        }
        let cond = match (test, guard) {
            (None, None) => return err(arm.span(), "unreachable arms after a catch-all pattern"),
            (t, Some(g)) => {
                if binds {
                    return err(arm.span(), "a guard on a binding pattern is unsupported");
                }
                self.stmts.push(vec![]);
                let mark = self.assign_log.len();
                let gv = self.lower_expr(g, Some(&Ty::Bool))?;
                let pre = self.stmts.pop().unwrap();
                self.no_updates_since(g.span(), mark, "a match guard")?;
                if !pre.is_empty() || gv.ty != Ty::Bool {
                    return err(g.span(), "a match guard must be an effect-free bool");
                }
                match t {
                    Some(t) => format!("({} && {})", t, gv.t),
                    None => gv.t,
                }
            }
            (Some(t), None) => t,
        };
        let rest = &arms[1..];
        self.lower_branches(sp, Cond::bool(cond), expected, &mut run_body, &mut |cx, ex| cx.lower_arms(sp, rest, s, ex))
    }

    /// `while c { body }` — rule 11 (numeric fuel, `rs_while`) or rule 16
    pub fn lower_while(&mut self, e: &syn::ExprWhile) -> R<Val> {
        if self.loop_fuel == 0 {
            return self.lower_fuel_loop(e.span(), e.label.as_ref(), Some(&e.cond), &e.body);
        }
        if e.label.is_some() {
            return err(e.span(), "labelled loops are unsupported");
        }
        let depth = self.scopes.len();
        self.frames.push(Frame { depth, assigned: BTreeSet::new() });
        // id 0: a rule 11 loop; `break` inside it is refused
        self.loops.push(LoopCtx { id: 0, label: None });
        self.stmts.push(vec![]);
        let mark = self.assign_log.len();
        let c = self.lower_expr(&e.cond, Some(&Ty::Bool));
        let cpre = self.stmts.pop().unwrap();
        // the condition closure of `rs_while` only returns the bool
        let c = c.and_then(|c| self.no_updates_since(e.cond.span(), mark, "the condition of a rule 11 `while`").map(|_| c));
        self.stmts.push(vec![]);
        let r = c.and_then(|c| self.lower_block(&e.body, None).map(|_| c));
        let body = self.stmts.pop().unwrap();
        self.loops.pop();
        let fr = self.frames.pop().unwrap();
        let c = r?;
        for x in fr.assigned.iter() {
            self.mark_assigned(x);
        }
        let vars: Vec<String> = fr.assigned.iter().map(|x| self.cn(x)).collect();
        let fuel = self.loop_fuel;
        self.push(S::While { vars, cpre, c: c.t, body, fuel });
        Ok(Val::unit())
    }

    /// Gallina types of the loop state variables
    fn state_types(&self, vars: &[String]) -> Vec<String> {
        vars.iter().map(|x| self.lookup(x).map(|(_, v)| v.ty.coq()).unwrap_or_default()).collect()
    }

    fn begin_loop(&mut self, label: Option<&syn::Label>) -> usize {
        self.loop_count += 1;
        let id = self.loop_count;
        let depth = self.scopes.len();
        self.frames.push(Frame { depth, assigned: BTreeSet::new() });
        self.loops.push(LoopCtx { id, label: label.map(|l| l.name.ident.to_string()) });
        self.stmts.push(vec![]);
        id
    }

    /// closes the loop opened by `begin_loop`: (body, state variables (Rust names))
    fn end_loop(&mut self) -> (Vec<S>, Vec<String>) {
        let body = self.stmts.pop().unwrap();
        self.loops.pop();
        let fr = self.frames.pop().unwrap();
        for x in fr.assigned.iter() {
            self.mark_assigned(x);
        }
        (body, fr.assigned.iter().cloned().collect())
    }

    /// rule 16: `while c {..}`, `while let Some(p) = e {..}`, `loop {..}` with `rs_loop`
    pub fn lower_fuel_loop(
        &mut self,
        sp: proc_macro2::Span,
        label: Option<&syn::Label>,
        cond: Option<&syn::Expr>,
        body: &syn::Block,
    ) -> R<Val> {
        let fuel = match self.fuels.get(self.fuel_ix) {
            Some(f) => f.clone(),
            None => return err(sp, "`while` / `loop` without a fuel expression in the target table"),
        };
        self.fuel_ix += 1;
        let id = self.begin_loop(label);
        let r = (|| -> R<()> {
            match cond {
                None => {
                    let v = self.lower_block(body, None)?;
                    let _ = v;
                }
                Some(syn::Expr::Let(l)) => {
                    let s = self.lower_expr(&l.expr, None)?;
                    let pb = self.some_pattern(&l.pat, &s.ty)?;
                    self.stmts.push(vec![]);
                    self.push_pat_scope(&pb);
                    let r = self.lower_block(body, None);
                    self.scopes.pop();
                    let a = self.stmts.pop().unwrap();
                    r?;
                    self.push(S::If { c: s.t, m: Some((pb.pat, "None".into())), a, b: vec![S::Exit { target: id }], outs: vec![] });
                }
                Some(c) => {
                    let cv = self.lower_expr(c, Some(&Ty::Bool))?;
                    if cv.ty != Ty::Bool {
                        return err(c.span(), "condition is not a bool");
                    }
                    self.stmts.push(vec![]);
                    let r = self.lower_block(body, None);
                    let a = self.stmts.pop().unwrap();
                    r?;
                    self.push(S::If { c: cv.t, m: None, a, b: vec![S::Exit { target: id }], outs: vec![] });
                }
            }
            Ok(())
        })();
        let (b, vars) = self.end_loop();
        r?;
        let tys = self.state_types(&vars);
        let vars: Vec<String> = vars.iter().map(|x| self.cn(x)).collect();
        let res = self.fresh();
        // a `loop { .. }` without a `break` of its own never ends normally (rule 26)
        let diverges = cond.is_none() && !crate::emit::breaks(&b, id);
        self.push(S::Loop { id, kind: LoopKind::Fuel(fuel), vars, tys, body: b, res, diverges });
        if diverges {
            return Ok(Val::never());
        }
        Ok(Val::unit())
    }

    /// rule 17: `for pat in source { body }`
    pub fn lower_for(&mut self, e: &syn::ExprForLoop) -> R<Val> {
        enum Src {
            Mut(String),
            Iter(String),
            List(String),
        }
        // the source is evaluated before the loop
        let (src, elem_ty) = match &*e.expr {
            syn::Expr::MethodCall(m) if m.method == "iter_mut" && m.args.is_empty() => match self.place_of(&m.receiver)? {
                Place::Var(x) => match self.lookup(&x) {
                    Some((_, v)) if v.ty == Ty::Vec => (Src::Mut(x), Ty::Int(IntTy::U64)),
                    _ => return err(e.expr.span(), "`iter_mut()` on something other than a vector variable"),
                },
                _ => return err(e.expr.span(), "`iter_mut()` on something other than a vector variable"),
            },
            syn::Expr::Reference(r) if r.mutability.is_some() => match &*r.expr {
                syn::Expr::Path(p) if p.path.get_ident().is_some() => {
                    let x = p.path.get_ident().unwrap().to_string();
                    match self.lookup(&x) {
                        Some((_, Var { ty: Ty::Seq(t), .. })) => {
                            let t = (**t).clone();
                            (Src::Iter(x), t)
                        }
                        _ => return err(e.expr.span(), "`for .. in &mut x` where x is not an iterator variable"),
                    }
                }
                _ => return err(e.expr.span(), "`for .. in &mut <expression>`"),
            },
            x => {
                let (t, ty) = self.lower_seq(x)?;
                (Src::List(t), ty)
            }
        };
        let pb = self.elem_pattern(&e.pat, &elem_ty)?;
        let id = self.begin_loop(e.label.as_ref());
        self.push_pat_scope(&pb);
        let r = self.lower_block(&e.body, None);
        self.scopes.pop();
        let (body, mut vars) = self.end_loop();
        r?;
        let kind = match src {
            Src::Mut(x) => {
                if pb.vars.len() != 1 || pb.pat.starts_with('\'') {
                    return err(e.pat.span(), "the pattern of a loop over `iter_mut()` must be an identifier");
                }
                // the vector is borrowed by the loop: it is not part of the state
                if vars.contains(&x) {
                    return err(e.span(), "the vector is assigned inside the loop over its `iter_mut()`");
                }
                self.mark_assigned(&x);
                LoopKind::ForMut { vec: self.cn(&x), elem: pb.pat.clone() }
            }
            Src::Iter(x) => {
                if vars.contains(&x) {
                    return err(e.span(), "the iterator is used inside the loop that borrows it");
                }
                // C-FORITER: the advanced iterator only exists after the loop (the rest returned by
                // rs_for_iter): a `break` of an enclosing loop from inside would rebuild that
                // loop's state from the iterator as it was before this loop
                if crate::emit::exits_other(&body, id) {
                    return err(e.span(), "a labelled `break` out of `for .. in &mut it` (the state of the iterator would be lost)");
                }
                self.mark_assigned(&x);
                LoopKind::ForIter { it: self.cn(&x), pat: pb.pat.clone() }
            }
            Src::List(t) => LoopKind::For { list: t, pat: pb.pat.clone() },
        };
        vars.sort();
        let tys = self.state_types(&vars);
        let vars: Vec<String> = vars.iter().map(|x| self.cn(x)).collect();
        let res = self.fresh();
        self.push(S::Loop { id, kind, vars, tys, body, res, diverges: false });
        Ok(Val::unit())
    }

    /// `break` / `break 'label` (no value); `continue` is refused
    pub fn lower_break(&mut self, e: &syn::ExprBreak) -> R<Val> {
        if e.expr.is_some() {
            return err(e.span(), "`break` with a value is unsupported");
        }
        let target = match &e.label {
            None => self.loops.last().map(|l| l.id),
            Some(l) => {
                let n = l.ident.to_string();
                self.loops.iter().rev().find(|c| c.label.as_deref() == Some(n.as_str())).map(|c| c.id)
            }
        };
        match target {
            Some(0) => err(e.span(), "`break` out of a rule 11 `while` loop is unsupported"),
            Some(id) => {
                self.push(S::Exit { target: id });
                Ok(Val::never())
            }
            None => err(e.span(), "`break` outside a translated loop (rule 11 loops do not support it)"),
        }
    }

    /// rule 17: an iterator expression as a pure list term, with its item type
    pub fn lower_seq(&mut self, e: &syn::Expr) -> R<(String, Ty)> {
        let u64t = Ty::Int(IntTy::U64);
        match e {
            syn::Expr::Paren(p) => self.lower_seq(&p.expr),
            syn::Expr::Group(p) => self.lower_seq(&p.expr),
            syn::Expr::Range(r) if self.raw_mode => self.lower_range_seq(r),
            syn::Expr::Path(_) if self.seq_temp_only => {
                err(e.span(), "`any` on an iterator variable advances it (only supported on a temporary such as `s.iter()`)")
            }
            syn::Expr::Path(p) if p.path.get_ident().is_some() => {
                let x = p.path.get_ident().unwrap().to_string();
                match self.lookup(&x) {
                    Some((_, Var { ty: Ty::Seq(t), cname, .. })) => Ok((cname.clone(), (**t).clone())),
                    // `for c in slice` (rule 26)
                    Some((_, Var { ty: Ty::Bytes, cname, .. })) => Ok((cname.clone(), Ty::Int(IntTy::U8))),
                    Some((_, Var { ty: Ty::Slice, cname, .. })) => Ok((cname.clone(), u64t)),
                    _ => err(e.span(), format!("`{}` is not an iterator", x)),
                }
            }
            syn::Expr::MethodCall(m) => {
                let name = m.method.to_string();
                let args: Vec<&syn::Expr> = m.args.iter().collect();
                match (name.as_str(), args.len()) {
                    ("iter", 0) => {
                        self.mutref_ok = true;
                        let r = self.lower_pure(&m.receiver, None)?;
                        match r.ty {
                            Ty::Slice | Ty::Table => Ok((r.t, u64t)),
                            Ty::Bytes => Ok((r.t, Ty::Int(IntTy::U8))),
                            Ty::Vec => Ok((format!("(vl {})", r.t), u64t)),
                            t => err(e.span(), format!("`iter()` on a value of type {}", t)),
                        }
                    }
                    ("clone", 0) => self.lower_seq(&m.receiver),
                    ("rev", 0) => {
                        let (t, ty) = self.lower_seq(&m.receiver)?;
                        Ok((format!("(rev {})", t), ty))
                    }
                    ("enumerate", 0) => {
                        let (t, ty) = self.lower_seq(&m.receiver)?;
                        Ok((format!("(enumerate_from 0 {})", t), Ty::Tuple(vec![Ty::Int(IntTy::Usize), ty])))
                    }
                    ("skip", 1) => {
                        let (t, ty) = self.lower_seq(&m.receiver)?;
                        match args[0] {
                            syn::Expr::Lit(syn::ExprLit { lit: syn::Lit::Int(i), .. }) if i.suffix().is_empty() || i.suffix() == "usize" => {
                                Ok((format!("(skipn {} {})", i.base10_digits(), t), ty))
                            }
                            a => err(a.span(), "`skip(k)` needs a literal k"),
                        }
                    }
                    ("zip", 1) => {
                        let (a, ta) = self.lower_seq(&m.receiver)?;
                        let (b, tb) = self.lower_seq(args[0])?;
                        Ok((format!("(combine {} {})", a, b), Ty::Tuple(vec![ta, tb])))
                    }
                    _ => err(e.span(), format!("unsupported iterator method `{}`", name)),
                }
            }
            _ => err(e.span(), "unsupported iterator expression"),
        }
    }

    /// an expression / block that must be effect-free, `let`s allowed: `(let x := .. in e)`
    pub fn lower_pure_lets(&mut self, e: &syn::Expr, expected: Option<&Ty>) -> R<Val> {
        self.stmts.push(vec![]);
        let mark = self.assign_log.len();
        let v = self.lower_expr(e, expected);
        let pre = self.stmts.pop().unwrap();
        let v = v?;
        self.no_updates_since(e.span(), mark, "an expression that must be effect-free")?;
        let mut lets = String::new();
        for s in &pre {
            match s {
                S::Let(p, t) => lets.push_str(&format!("let {} := {} in ", p, t)),
                _ => return err(e.span(), "an effect-free expression is required here"),
            }
        }
        if lets.is_empty() {
            Ok(v)
        } else {
            Ok(Val::new(format!("({}{})", lets, v.t), v.ty))
        }
    }

    /// an expression that must be effect-free
    pub fn lower_pure(&mut self, e: &syn::Expr, expected: Option<&Ty>) -> R<Val> {
        self.stmts.push(vec![]);
        let mark = self.assign_log.len();
        let v = self.lower_expr(e, expected);
        let pre = self.stmts.pop().unwrap();
        let v = v?;
        self.no_updates_since(e.span(), mark, "an expression that must be effect-free")?;
        if !pre.is_empty() {
            return err(e.span(), "an effect-free expression is required here");
        }
        Ok(v)
    }
}
