//! Lowering of function bodies (statements, assignment, places, types) to the intermediate form.
use crate::emit::{tuple_pat, tuple_val, Emitter, S};
use crate::macros::MacroDef;
use crate::ty::*;
use crate::vecs::Deleg;
use std::collections::{BTreeSet, HashMap};
use syn::spanned::Spanned;

pub type R<T> = Result<T, String>;

pub fn err<T>(sp: proc_macro2::Span, msg: impl AsRef<str>) -> R<T> {
    let lc = sp.start();
    Err(format!("line {}:{}: {}", lc.line, lc.column + 1, msg.as_ref()))
}

/// a global constant visible to the translated code
#[derive(Clone, Debug)]
pub struct GConst {
    pub ty: Ty,
    pub term: String,
    pub needs: Needs,
}

pub struct Globals {
    /// associated constants of `trait Float` with their declared integer types
    pub float_consts: HashMap<String, IntTy>,
    /// already translated functions: free functions by `file.rs:name`, methods by `Owner::name`
    pub fns: HashMap<String, FnInfo>,
    pub consts: HashMap<String, GConst>,
    /// functions (same keys) that could not be translated
    pub omitted: std::collections::HashSet<String>,
    /// `macro_rules!` definitions per source file (rule 20)
    pub macros: HashMap<String, HashMap<String, MacroDef>>,
    /// delegating methods (rule 22) by `VecType::name` / `Bigint::name`
    pub deleg: HashMap<String, Result<Deleg, String>>,
    /// `Limb = u64`, `Wide = u128`, `LIMB_BITS = 64`, `VecType`, `Bigint`, `ReverseView` are
    /// declared as rule 14 assumes
    pub limb_ok: Result<(), String>,
    /// `Number` derives `Default`
    pub number_default: bool,
    /// `shl_limbs` (rule 23) is declared as `fn(&mut VecType, usize) -> Option<()>` in bigint.rs
    pub shl_limbs_ok: bool,
    /// lib.rs has `pub use self::parse::parse_float;` (rule 27)
    pub export_parse_float: bool,
    /// rule 28: `struct StackVec { data: [MaybeUninit<Limb>; BIGINT_LIMBS], length: u16 }`
    pub stackvec_ok: Result<(), String>,
    /// rule 31: `struct HeapVec { data: Vec<Limb> }`
    pub heapvec_ok: Result<(), String>,
    /// per file: the constants / statics / unit structs / upper-case imports (C-PAT inside macro
    /// expansions, which the pre-pass cannot see)
    pub value_names: HashMap<String, std::collections::HashSet<String>>,
}

impl Globals {
    /// the table key of the function that the path `key` denotes inside `file`: a method
    /// (`Owner::name`), a function of a named module (`bigint::name`), a function of the same file,
    /// or the function of that name in another file (must be unique)
    fn resolve(&self, file: &str, key: &str, table: &dyn Fn(&str) -> bool) -> Option<String> {
        if let Some((m, rest)) = key.split_once("::") {
            let k = format!("{}.rs:{}", m, rest);
            if !rest.contains("::") && table(&k) {
                return Some(k);
            }
            return if table(key) { Some(key.to_string()) } else { None };
        }
        let k = format!("{}:{}", file, key);
        if table(&k) {
            return Some(k);
        }
        // the string front-ends (rule 27) only see their own functions, and nobody sees theirs
        if file.starts_with("front_") {
            return None;
        }
        let suffix = format!(":{}", key);
        let mut found: Vec<String> = self
            .fns
            .keys()
            .chain(self.omitted.iter())
            .filter(|x| !x.contains("::") && !x.starts_with("front_") && x.ends_with(&suffix) && table(x))
            .cloned()
            .collect();
        found.sort();
        found.dedup();
        if found.len() == 1 {
            found.pop()
        } else {
            None
        }
    }
    pub fn get_fn(&self, file: &str, key: &str) -> Option<&FnInfo> {
        let k = self.resolve(file, key, &|k| self.fns.contains_key(k))?;
        self.fns.get(&k)
    }
    pub fn is_omitted(&self, file: &str, key: &str) -> bool {
        self.resolve(file, key, &|k| self.omitted.contains(k)).is_some()
    }
}

#[derive(Clone, Debug)]
pub struct Val {
    /// pure Gallina term (atomic or parenthesised)
    pub t: String,
    pub ty: Ty,
    /// the expression never produces a value (`return`, `break`)
    pub never: bool,
    /// for a value of type OptUpd: the variables (Rust names) updated by `Some`
    pub upd: Vec<String>,
}

impl Val {
    pub fn new(t: impl Into<String>, ty: Ty) -> Val {
        Val { t: t.into(), ty, never: false, upd: vec![] }
    }
    pub fn unit() -> Val {
        Val::new("tt", Ty::Unit)
    }
    pub fn never() -> Val {
        let mut u = Val::unit();
        u.never = true;
        u
    }
}

#[derive(Clone, Debug)]
pub struct Var {
    pub ty: Ty,
    /// the variable is a `&mut T` (parameter or closure parameter)
    pub mutref: bool,
    /// its Gallina name: `v_<name>`, primed when it shadows a variable of an enclosing block
    pub cname: String,
    /// bound to an unsuffixed integer literal and not yet used at a definite type
    pub flex: bool,
    /// an immutable local bound to an integer literal (used to evaluate `pow`)
    pub konst: Option<u128>,
    /// `let xi = x.get_mut(i).unwrap()`: (`x`, the Gallina term of the index)
    pub alias: Option<(String, String)>,
    /// raw mode: the variable is a raw pointer (a translation-time value)
    pub ptr: Option<Ptr>,
}

/// raw mode (rule 29): what a raw pointer points to
#[derive(Clone, Debug)]
pub enum Ptr {
    /// into the buffer of the `raw` variable `var` (Rust name), at cell `off` (a stable Gallina term)
    Own { var: String, off: String },
    /// to the start of the foreign slice variable `var` (Rust name)
    Foreign { var: String },
}

impl Var {
    pub fn plain(ty: Ty, mutref: bool, cname: String) -> Var {
        Var { ty, mutref, cname, flex: false, konst: None, alias: None, ptr: None }
    }
}

pub struct Frame {
    pub depth: usize,
    pub assigned: BTreeSet<String>,
}

/// a loop being lowered: its id, its label, the scope depth outside it
pub struct LoopCtx {
    pub id: usize,
    pub label: Option<String>,
}

/// condition of a two-way branch: a bool term, or a scrutinee with the two patterns of a `match`
pub struct Cond {
    pub c: String,
    pub m: Option<(String, String)>,
}

impl Cond {
    pub fn bool(c: impl Into<String>) -> Cond {
        Cond { c: c.into(), m: None }
    }
}

pub struct Cx<'a> {
    pub g: &'a Globals,
    pub scopes: Vec<HashMap<String, Var>>,
    pub stmts: Vec<Vec<S>>,
    pub frames: Vec<Frame>,
    pub tmp: usize,
    pub needs: Needs,
    pub ret_ty: Ty,
    /// `&mut` parameters of the function (closure) being translated, in order
    pub mut_params: Vec<String>,
    /// type of `self`, and the impl it belongs to ("Float", "Number", "BellerophonPowers", …)
    pub self_kind: Option<String>,
    pub loop_fuel: u32,
    /// fuel expressions for the `while` / `loop`s of the function, in source order (rule 16)
    pub fuels: Vec<String>,
    pub fuel_ix: usize,
    pub loops: Vec<LoopCtx>,
    pub loop_count: usize,
    /// generic type parameters of the function (`Cb` = a callback type, `Iter1` = an iterator)
    pub tparams: HashMap<String, Ty>,
    /// source file of the function (for its macros)
    pub file: String,
    pub macro_depth: usize,
    /// every (re)binding of a variable, in order (Gallina names): used to refuse expressions whose
    /// translation would read a stale value or lose an update (checks C-STALE, C-LOST)
    pub assign_log: Vec<String>,
    /// the function has the float type parameter `F` (the only accepted generic argument)
    pub float_param: bool,
    /// rules 28-30: the cell-level translation of stackvec.rs / `shl_limbs`
    pub raw_mode: bool,
    /// rule 31: heapvec.rs over the std `Vec` primitives
    pub heap_mode: bool,
    /// C-MUTREF: the next path may be a bare `&mut` parameter (operand of `*`, `.field`, method
    /// receiver, index base, reference / slice argument)
    pub mutref_ok: bool,
    /// `lower_seq` on behalf of `any`: an iterator variable is refused
    pub seq_temp_only: bool,
}

pub fn vname(x: &str) -> String {
    format!("v_{}", x)
}

pub fn is_numeral(t: &str) -> bool {
    !t.is_empty() && t.chars().all(|c| c.is_ascii_digit())
}

impl<'a> Cx<'a> {
    pub fn new(g: &'a Globals) -> Cx<'a> {
        Cx {
            g,
            scopes: vec![HashMap::new()],
            stmts: vec![vec![]],
            frames: vec![],
            tmp: 0,
            needs: Needs::default(),
            ret_ty: Ty::Unit,
            mut_params: vec![],
            self_kind: None,
            loop_fuel: 0,
            fuels: vec![],
            fuel_ix: 0,
            loops: vec![],
            loop_count: 0,
            tparams: HashMap::new(),
            file: String::new(),
            macro_depth: 0,
            assign_log: vec![],
            float_param: false,
            raw_mode: false,
            heap_mode: false,
            mutref_ok: false,
            seq_temp_only: false,
        }
    }

    pub fn fresh(&mut self) -> String {
        self.tmp += 1;
        format!("t{}", self.tmp)
    }

    pub fn push(&mut self, s: S) {
        self.stmts.last_mut().unwrap().push(s);
    }

    pub fn lookup(&self, x: &str) -> Option<(usize, &Var)> {
        for (d, sc) in self.scopes.iter().enumerate().rev() {
            if let Some(v) = sc.get(x) {
                return Some((d, v));
            }
        }
        None
    }

    pub fn lookup_mut(&mut self, x: &str) -> Option<&mut Var> {
        for sc in self.scopes.iter_mut().rev() {
            if let Some(v) = sc.get_mut(x) {
                return Some(v);
            }
        }
        None
    }

    /// the Gallina name of the visible variable `x`
    pub fn cn(&self, x: &str) -> String {
        match self.lookup(x) {
            Some((_, v)) => v.cname.clone(),
            None => vname(x),
        }
    }

    /// The Gallina name for a new local `x` declared in scope number `depth`: `v_x`; a `let` that
    /// shadows a variable of an *enclosing* block gets primes (`v_x'`), so that Gallina shadowing
    /// never leaks out of the block; a `let` that shadows a variable of the same block reuses its
    /// name (that is the SSA renaming of rule 1).
    pub fn new_cname(&self, x: &str, depth: usize) -> String {
        if let Some(sc) = self.scopes.get(depth) {
            if let Some(v) = sc.get(x) {
                return v.cname.clone();
            }
        }
        let mut n = vname(x);
        while self.scopes.iter().any(|sc| sc.get(x).map(|v| v.cname == n).unwrap_or(false)) {
            n.push('\'');
        }
        n
    }

    /// C-CONST / C-MUTREF: may a new binding be called `x`?  Not like a global constant that is
    /// resolved by name, and not like a `&mut` parameter / `self` in scope: the updated value of
    /// such a parameter is returned under its name (rule 7), a shadow would be returned instead
    pub fn name_ok(&self, sp: proc_macro2::Span, x: &str) -> R<()> {
        if self.g.consts.contains_key(x) || crate::check::GLOBAL_CONSTS.contains(&x) {
            return err(sp, format!("the binding `{}` is spelled like a global constant that is resolved by name", x));
        }
        if let Some((_, v)) = self.lookup(x) {
            if v.mutref {
                return err(sp, format!("the binding `{}` reuses the name of a `&mut` parameter", x));
            }
        }
        if x == "self" {
            return err(sp, "a binding called `self`");
        }
        Ok(())
    }

    /// declare a new local in the innermost scope; returns its Gallina name
    pub fn declare(&mut self, sp: proc_macro2::Span, x: &str, ty: Ty, mutref: bool) -> R<String> {
        self.name_ok(sp, x)?;
        let cname = self.new_cname(x, self.scopes.len() - 1);
        self.scopes.last_mut().unwrap().insert(x.to_string(), Var::plain(ty, mutref, cname.clone()));
        Ok(cname)
    }

    pub fn mark_assigned(&mut self, x: &str) {
        let d = match self.lookup(x) {
            Some((d, v)) => {
                let cn = v.cname.clone();
                self.assign_log.push(cn);
                d
            }
            None => return,
        };
        for fr in self.frames.iter_mut() {
            if d < fr.depth {
                fr.assigned.insert(x.to_string());
            }
        }
    }

    /// C-LOST: a sub-expression whose statements are kept apart and of which only the value is
    /// used (operand of `&&` / `||`, `debug_assert!` argument, pure closure, ..) must not assign
    pub fn no_updates_since(&self, sp: proc_macro2::Span, mark: usize, what: &str) -> R<()> {
        match self.assign_log.get(mark) {
            Some(x) => err(sp, format!("{} assigns `{}`: the update would be lost in the translation", what, x)),
            None => Ok(()),
        }
    }

    /// C-STALE: `operands` = the terms of sibling operands in evaluation order, each with the length
    /// of the assignment log right after it was lowered.  A term that mentions a variable which a
    /// LATER operand rebinds would read the new value in the Gallina text, the old one in Rust.
    pub fn no_stale_reads(&self, sp: proc_macro2::Span, operands: &[(String, usize)]) -> R<()> {
        for (t, after) in operands {
            if *after >= self.assign_log.len() {
                continue;
            }
            let idents: std::collections::HashSet<&str> =
                t.split(|c: char| !(c.is_alphanumeric() || c == '_' || c == '\'')).filter(|w| !w.is_empty()).collect();
            for x in &self.assign_log[*after..] {
                if idents.contains(x.as_str()) {
                    return err(sp, format!("an operand reads `{}`, which a later operand of the same expression modifies (the translation would read the new value)", x));
                }
            }
        }
        Ok(())
    }

    /// a flexible (literal-initialised) variable is used at type `ty`: that is its type from now on
    pub fn fix_flex(&mut self, x: &str, ty: Option<&Ty>) {
        if let Some(v) = self.lookup_mut(x) {
            if v.flex {
                v.flex = false;
                if let Some(t @ Ty::Int(_)) = ty {
                    v.ty = t.clone();
                }
            }
        }
    }

    /// the monadic term with which the function returns the value `v`
    pub fn ret_term(&self, v: &Val) -> String {
        let mut parts: Vec<String> = self.mut_params.iter().map(|p| self.cn(p)).collect();
        if self.ret_ty == Ty::Opt(Box::new(Ty::Unit)) && !parts.is_empty() {
            // rule 15: `Some(())` carries the updated `&mut` arguments, `None` loses them
            if v.ty == Ty::OptUpd {
                if v.upd == self.mut_params {
                    return format!("Ok {}", crate::emit::paren(&v.t));
                }
                return "Ok rs2coq_internal_error_OptUpd_of_other_variables".into();
            }
            let some = format!("(Some {})", crate::emit::paren(&tuple_val(&parts)));
            return match v.t.as_str() {
                "None" => "Ok None".into(),
                "(Some tt)" => format!("Ok {}", some),
                t => format!("Ok (match {} with Some _ => {} | None => None end)", t, some),
            };
        }
        if self.ret_ty != Ty::Unit || parts.is_empty() {
            parts.push(v.t.clone());
        }
        format!("Ok {}", crate::emit::paren(&tuple_val(&parts)))
    }

    /// is a value of type `got` acceptable where the function result type `want` is expected
    pub fn ret_compatible(&self, v: &Val, want: &Ty) -> bool {
        if v.ty == Ty::OptUpd {
            return *want == Ty::Opt(Box::new(Ty::Unit)) && !self.mut_params.is_empty() && v.upd == self.mut_params;
        }
        v.ty == *want
    }

    // ------------------------------------------------------------------ blocks and statements

    /// Lower a block in a fresh scope into the *current* statement list; returns its value.
    pub fn lower_block(&mut self, b: &syn::Block, expected: Option<&Ty>) -> R<Val> {
        self.scopes.push(HashMap::new());
        let r = self.lower_stmts(&b.stmts, expected);
        self.scopes.pop();
        r
    }

    /// `#[cfg(..)]` on a statement: None = no cfg; Some(None) = dropped (`nightly`);
    /// Some(Some(k)) = present iff `compact c = k` (rule 21)
    fn stmt_cfg(&self, attrs: &[syn::Attribute]) -> R<Option<Option<bool>>> {
        for a in attrs {
            if a.path().is_ident("cfg") {
                let s = a.meta.require_list().map_err(|e| e.to_string())?.tokens.to_string();
                // (the tokens separated by single spaces, literals verbatim: check::text)
                return match s.as_str() {
                    "feature = \"nightly\"" => Ok(Some(None)),
                    "feature = \"compact\"" => Ok(Some(Some(true))),
                    "not (feature = \"compact\")" => Ok(Some(Some(false))),
                    _ => err(a.span(), format!("unsupported #[cfg({})] on a statement", s)),
                };
            }
        }
        Ok(None)
    }

    fn stmt_attrs(st: &syn::Stmt) -> &[syn::Attribute] {
        use syn::Expr as E;
        match st {
            syn::Stmt::Local(l) => &l.attrs,
            syn::Stmt::Macro(m) => &m.attrs,
            syn::Stmt::Expr(e, _) => match e {
                E::Block(x) => &x.attrs,
                E::Return(x) => &x.attrs,
                E::If(x) => &x.attrs,
                E::While(x) => &x.attrs,
                E::ForLoop(x) => &x.attrs,
                E::Loop(x) => &x.attrs,
                E::Unsafe(x) => &x.attrs,
                E::Call(x) => &x.attrs,
                E::MethodCall(x) => &x.attrs,
                E::Assign(x) => &x.attrs,
                E::Binary(x) => &x.attrs,
                E::Macro(x) => &x.attrs,
                E::Try(x) => &x.attrs,
                E::Match(x) => &x.attrs,
                E::Break(x) => &x.attrs,
                _ => &[],
            },
            syn::Stmt::Item(_) => &[],
        }
    }

    pub fn lower_stmts(&mut self, stmts: &[syn::Stmt], expected: Option<&Ty>) -> R<Val> {
        let n = stmts.len();
        let mut last = Val::unit();
        let mut i = 0;
        while i < n {
            let st = &stmts[i];
            let cfg = self.stmt_cfg(Self::stmt_attrs(st))?;
            match cfg {
                None => {
                    last = self.lower_stmt(st, i + 1 == n, expected)?;
                    i += 1;
                }
                Some(None) => {
                    // #[cfg(feature = "nightly")]: dropped (rule 12)
                    if !matches!(st, syn::Stmt::Local(_)) {
                        return err(st.span(), "#[cfg(feature = \"nightly\")] on something other than a `let`");
                    }
                    last = Val::unit();
                    i += 1;
                }
                Some(Some(k)) => {
                    // rule 21: `if compact c then .. else ..`; two adjacent statements with
                    // complementary conditions are the two branches of one `if`
                    let mut other: Option<&syn::Stmt> = None;
                    if i + 1 < n {
                        if let Some(Some(k2)) = self.stmt_cfg(Self::stmt_attrs(&stmts[i + 1]))? {
                            if k2 != k {
                                other = Some(&stmts[i + 1]);
                            }
                        }
                    }
                    let used = if other.is_some() { 2 } else { 1 };
                    let is_last = i + used == n;
                    let (yes, no) = if k { (Some(st), other) } else { (other, Some(st)) };
                    for s in [yes, no].into_iter().flatten() {
                        if matches!(s, syn::Stmt::Local(_) | syn::Stmt::Item(_)) {
                            return err(s.span(), "#[cfg(feature = \"compact\")] on a `let` / item");
                        }
                    }
                    self.needs.c = true;
                    let ex = if is_last { expected } else { None };
                    let one = |cx: &mut Self, s: Option<&syn::Stmt>, ex: Option<&Ty>| -> R<Val> {
                        match s {
                            None => Ok(Val::unit()),
                            Some(s) => {
                                cx.scopes.push(HashMap::new());
                                let r = cx.lower_stmt(s, is_last, ex);
                                cx.scopes.pop();
                                r
                            }
                        }
                    };
                    last = self.lower_branches(
                        st.span(),
                        Cond::bool("compact c"),
                        ex,
                        &mut |cx, ex| one(cx, yes, ex),
                        &mut |cx, ex| one(cx, no, ex),
                    )?;
                    i += used;
                }
            }
        }
        Ok(last)
    }

    /// one statement (its `cfg` attribute, if any, has been dealt with by the caller)
    fn lower_stmt(&mut self, st: &syn::Stmt, is_last: bool, expected: Option<&Ty>) -> R<Val> {
        match st {
            syn::Stmt::Local(l) => {
                self.lower_local(l)?;
                Ok(Val::unit())
            }
            syn::Stmt::Item(syn::Item::Const(c)) => {
                let ty = self.conv_ty(&c.ty)?;
                let v = self.lower_expr(&c.expr, Some(&ty))?;
                let name = c.ident.to_string();
                let cn = self.declare(c.span(), &name, ty, false)?;
                self.push(S::Let(cn, v.t));
                Ok(Val::unit())
            }
            syn::Stmt::Item(it) => err(it.span(), "unsupported item in a function body"),
            syn::Stmt::Macro(m) => {
                let v = self.lower_macro(&m.mac, if is_last && m.semi_token.is_none() { expected } else { None })?;
                if is_last && m.semi_token.is_none() || v.never {
                    Ok(v)
                } else {
                    self.discard(m.span(), &v)?;
                    Ok(Val::unit())
                }
            }
            syn::Stmt::Expr(e, semi) => {
                if is_last && semi.is_none() {
                    self.lower_expr(e, expected)
                } else {
                    let v = self.lower_expr(e, None)?;
                    if v.never && is_last {
                        Ok(v)
                    } else {
                        self.discard(e.span(), &v)?;
                        Ok(Val::unit())
                    }
                }
            }
        }
    }

    /// the value of an expression statement is dropped
    fn discard(&self, sp: proc_macro2::Span, v: &Val) -> R<()> {
        if v.ty == Ty::OptUpd {
            return err(sp, "the `Option<()>` result of a function with `&mut` parameters is ignored (rule 15 needs `?` or `.unwrap()`)");
        }
        Ok(())
    }

    fn lower_local(&mut self, l: &syn::Local) -> R<()> {
        let (pat, declared) = match &l.pat {
            syn::Pat::Type(pt) => (&*pt.pat, Some(self.conv_ty(&pt.ty)?)),
            p => (p, None),
        };
        let init = match &l.init {
            Some(i) if i.diverge.is_none() => &*i.expr,
            _ => return err(l.span(), "`let` without initialiser / with `else` is unsupported"),
        };
        if let Some(()) = self.try_lower_ptr_local(pat, init)? {
            return Ok(());
        }
        if let Some(()) = self.try_lower_alias(pat, init)? {
            return Ok(());
        }
        let untyped = declared.is_none() && self.ty_of(init).is_none();
        let v = self.lower_expr(init, declared.as_ref())?;
        if let Some(d) = &declared {
            if *d != v.ty {
                return err(l.span(), format!("declared type {} differs from inferred {}", d, v.ty));
            }
        }
        self.bind_pat(pat, &v)?;
        if let syn::Pat::Ident(pi) = pat {
            let name = pi.ident.to_string();
            let lit = is_numeral(&v.t);
            if let Some(var) = self.lookup_mut(&name) {
                // `let x = 0;`: the type is fixed by the first typed use (rule 2)
                var.flex = untyped && lit && matches!(var.ty, Ty::Int(_));
                if pi.mutability.is_none() && lit {
                    var.konst = v.t.parse::<u128>().ok();
                }
            }
        }
        Ok(())
    }

    /// bind the (pure) value `v` to the pattern: identifier, `_`, or a tuple of those
    pub fn bind_pat(&mut self, pat: &syn::Pat, v: &Val) -> R<()> {
        if v.ty == Ty::OptUpd {
            return err(pat.span(), "binding the `Option<()>` result of a function with `&mut` parameters (rule 15)");
        }
        match pat {
            syn::Pat::Ident(pi) => {
                if pi.by_ref.is_some() || pi.subpat.is_some() {
                    return err(pi.span(), "unsupported binding mode");
                }
                let name = pi.ident.to_string();
                let cn = self.declare(pi.span(), &name, v.ty.clone(), false)?;
                self.push(S::Let(cn, v.t.clone()));
                Ok(())
            }
            syn::Pat::Wild(_) => Ok(()),
            syn::Pat::Tuple(pt) => {
                let tys = match &v.ty {
                    Ty::Tuple(ts) if ts.len() == pt.elems.len() => ts.clone(),
                    t => return err(pt.span(), format!("tuple pattern against type {}", t)),
                };
                let mut names = vec![];
                for (p, ty) in pt.elems.iter().zip(tys.iter()) {
                    match p {
                        syn::Pat::Ident(pi) if pi.by_ref.is_none() && pi.subpat.is_none() => {
                            let name = pi.ident.to_string();
                            names.push(self.declare(pi.span(), &name, ty.clone(), false)?);
                        }
                        syn::Pat::Wild(_) => names.push("_".into()),
                        p => return err(p.span(), "unsupported nested pattern"),
                    }
                }
                self.push(S::Let(tuple_pat(&names), v.t.clone()));
                Ok(())
            }
            p => err(p.span(), "unsupported pattern"),
        }
    }

    /// `debug_assert!` (rule 5) or a `macro_rules!` macro of the same file (rule 20)
    pub fn lower_macro(&mut self, mac: &syn::Macro, expected: Option<&Ty>) -> R<Val> {
        if mac.path.is_ident("debug_assert") {
            self.lower_debug_assert(mac)?;
            return Ok(Val::unit());
        }
        let name = match mac.path.get_ident() {
            Some(i) => i.to_string(),
            None => return err(mac.span(), "unsupported macro path"),
        };
        let g = self.g;
        let def = match g.macros.get(&self.file).and_then(|m| m.get(&name)) {
            Some(d) => d,
            None => {
                return err(mac.span(), format!("unsupported macro `{}!` (only debug_assert! and the macro_rules! of the same file are translated)", name))
            }
        };
        if self.macro_depth >= 16 {
            return err(mac.span(), "macro expansion too deep");
        }
        // textual scoping: the definition must precede the use
        if mac.span().start().line <= def.end_line && self.macro_depth == 0 {
            return err(mac.span(), format!("macro `{}!` is used before the end of its definition", name));
        }
        let ts = match crate::macros::expand(def, mac.tokens.clone()) {
            Ok(t) => t,
            Err(e) => return err(mac.span(), format!("macro `{}!`: {}", name, e)),
        };
        let stmts = match syn::parse::Parser::parse2(syn::Block::parse_within, ts) {
            Ok(s) => s,
            Err(e) => return err(mac.span(), format!("macro `{}!`: the expansion does not parse: {}", name, e)),
        };
        // the pre-pass does not see macro bodies: no attributes / items in the expansion
        let empty = std::collections::HashSet::new();
        let vn = g.value_names.get(&self.file).unwrap_or(&empty);
        if let Err(e) = crate::check::check_expansion_stmts(&stmts, vn) {
            return err(mac.span(), format!("macro `{}!`: {}", name, e));
        }
        // the expansion is its own scope; top-level `let`s would need macro hygiene
        for s in &stmts {
            if matches!(s, syn::Stmt::Local(_) | syn::Stmt::Item(_)) {
                return err(mac.span(), format!("macro `{}!`: the expansion declares a `let` / item at its top level", name));
            }
        }
        self.macro_depth += 1;
        self.scopes.push(HashMap::new());
        let r = self.lower_stmts(&stmts, expected);
        self.scopes.pop();
        self.macro_depth -= 1;
        r.map_err(|e| format!("in the expansion of `{}!`: {}", name, e))
    }

    fn lower_debug_assert(&mut self, mac: &syn::Macro) -> R<()> {
        use syn::punctuated::Punctuated;
        let args = mac
            .parse_body_with(Punctuated::<syn::Expr, syn::Token![,]>::parse_terminated)
            .map_err(|e| e.to_string())?;
        let mut it = args.iter();
        let cond = match it.next() {
            Some(c) => c,
            None => return err(mac.span(), "debug_assert! without condition"),
        };
        let empty = std::collections::HashSet::new();
        let g = self.g;
        let vn = g.value_names.get(&self.file).unwrap_or(&empty);
        if let Err(e) = crate::check::check_expansion_expr(cond, vn) {
            return err(cond.span(), format!("debug_assert!: {}", e));
        }
        for extra in it {
            match extra {
                syn::Expr::Lit(syn::ExprLit { lit: syn::Lit::Str(_), .. }) => {}
                e => return err(e.span(), "debug_assert! message arguments other than a string literal"),
            }
        }
        // the condition is only evaluated in builds with debug assertions
        self.stmts.push(vec![]);
        let mark = self.assign_log.len();
        let c = self.lower_expr(cond, Some(&Ty::Bool))?;
        let mut pre = self.stmts.pop().unwrap();
        if c.ty != Ty::Bool {
            return err(cond.span(), "debug_assert! condition is not a bool");
        }
        self.no_updates_since(cond.span(), mark, "the condition of `debug_assert!`")?;
        let da = S::Bind("_".into(), format!("debug_assert b {}", c.t));
        if pre.is_empty() {
            self.push(da);
        } else {
            pre.push(da);
            self.push(S::If { c: "dbg b".into(), m: None, a: pre, b: vec![], outs: vec![] });
        }
        Ok(())
    }

    // ------------------------------------------------------------------ assignment

    /// an assignment target / `&mut` argument
    pub fn place_of(&self, e: &syn::Expr) -> R<Place> {
        match e {
            syn::Expr::Path(p) if p.path.get_ident().is_some() => Ok(Place::Var(p.path.get_ident().unwrap().to_string())),
            syn::Expr::Unary(u) if matches!(u.op, syn::UnOp::Deref(_)) => {
                if let syn::Expr::Path(p) = &*u.expr {
                    if let Some(id) = p.path.get_ident() {
                        let n = id.to_string();
                        if let Some((_, v)) = self.lookup(&n) {
                            if v.alias.is_some() {
                                return Ok(Place::Alias(n));
                            }
                        }
                    }
                }
                self.place_of(&u.expr)
            }
            syn::Expr::Paren(p) => self.place_of(&p.expr),
            syn::Expr::Group(p) => self.place_of(&p.expr),
            syn::Expr::Field(f) => {
                let x = match self.place_of(&f.base)? {
                    Place::Var(x) => x,
                    _ => return err(e.span(), "nested field assignment"),
                };
                let vt = match self.lookup(&x) {
                    Some((_, v)) => v.ty.clone(),
                    None => return err(e.span(), format!("unknown variable `{}`", x)),
                };
                match &f.member {
                    syn::Member::Named(id) => {
                        let fl = id.to_string();
                        // single-field structs are their field (rule 14)
                        if (vt == Ty::Big && fl == "data") || (vt == Ty::RView && fl == "inner") || (vt == Ty::Hv && fl == "data") {
                            return Ok(Place::Var(x));
                        }
                        Ok(Place::Field(x, fl))
                    }
                    _ => err(e.span(), "assignment to a tuple field"),
                }
            }
            syn::Expr::Index(ix) => match self.place_of(&ix.expr)? {
                Place::Var(x) => Ok(Place::Index(x, (*ix.index).clone())),
                _ => err(e.span(), "unsupported indexed assignment target"),
            },
            _ => err(e.span(), "unsupported assignment target"),
        }
    }

    fn place_var(&self, sp: proc_macro2::Span, x: &str) -> R<Var> {
        match self.lookup(x) {
            Some((_, v)) => Ok(v.clone()),
            None => err(sp, format!("unknown variable `{}`", x)),
        }
    }

    /// type of an assignment target (no code is emitted)
    pub fn place_ty(&self, e: &syn::Expr) -> R<Ty> {
        match self.place_of(e)? {
            Place::Var(x) => Ok(self.place_var(e.span(), &x)?.ty),
            Place::Field(x, fl) => Ok(self.field_of(e.span(), &self.place_var(e.span(), &x)?.ty, &fl)?.1),
            Place::Index(x, _) => match self.place_var(e.span(), &x)?.ty {
                Ty::Vec | Ty::Big => Ok(Ty::Int(IntTy::U64)),
                t => err(e.span(), format!("indexed assignment into a value of type {}", t)),
            },
            Place::Alias(_) => Ok(Ty::Int(IntTy::U64)),
        }
    }

    /// is the target a literal-initialised variable whose type is still open
    pub fn place_flex(&self, e: &syn::Expr) -> Option<String> {
        match self.place_of(e) {
            Ok(Place::Var(x)) => match self.lookup(&x) {
                Some((_, v)) if v.flex => Some(x),
                _ => None,
            },
            _ => None,
        }
    }

    /// current value of an assignment target
    pub fn place_read(&mut self, e: &syn::Expr) -> R<Val> {
        match self.place_of(e)? {
            Place::Var(x) => {
                let var = self.place_var(e.span(), &x)?;
                Ok(Val::new(var.cname, var.ty))
            }
            Place::Field(x, fl) => {
                let var = self.place_var(e.span(), &x)?;
                let (acc, ty) = self.field_of(e.span(), &var.ty, &fl)?;
                Ok(Val::new(format!("({} {})", acc, var.cname), ty))
            }
            Place::Index(..) => err(e.span(), "compound assignment to an indexed place is unsupported"),
            Place::Alias(a) => self.alias_read(e.span(), &a),
        }
    }

    /// `*xi` where `xi` aliases `x[i]` (rule 18)
    pub fn alias_read(&mut self, sp: proc_macro2::Span, a: &str) -> R<Val> {
        let (x, idx) = self.place_var(sp, a)?.alias.unwrap();
        let vx = self.place_var(sp, &x)?;
        let t = self.fresh();
        self.push(S::Bind(t.clone(), format!("vec_get {} {}", vx.cname, idx)));
        Ok(Val::new(t, Ty::Int(IntTy::U64)))
    }

    pub fn place_write(&mut self, e: &syn::Expr, v: &Val) -> R<()> {
        let place = self.place_of(e)?;
        match place {
            Place::Var(x) => {
                let var = self.place_var(e.span(), &x)?;
                if var.alias.is_some() {
                    return err(e.span(), "assignment to an alias variable itself");
                }
                if var.ty != v.ty {
                    return err(e.span(), format!("assignment of {} to a variable of type {}", v.ty, var.ty));
                }
                self.push(S::Let(var.cname, v.t.clone()));
                self.mark_assigned(&x);
            }
            Place::Field(x, fl) => {
                let var = self.place_var(e.span(), &x)?;
                let vx = var.cname.clone();
                let (_, fty) = self.field_of(e.span(), &var.ty, &fl)?;
                if fty != v.ty {
                    return err(e.span(), format!("assignment of {} to a field of type {}", v.ty, fty));
                }
                let t = match (&var.ty, fl.as_str()) {
                    (Ty::Ext, "mant") => format!("mkExt {} (exp {})", v.t, vx),
                    (Ty::Ext, "exp") => format!("mkExt (mant {}) {}", vx, v.t),
                    (Ty::Num, "exponent") => format!("mkNumber {} (nmant {}) (many {})", v.t, vx, vx),
                    (Ty::Num, "mantissa") => format!("mkNumber (nexp {}) {} (many {})", vx, v.t, vx),
                    (Ty::Num, "many_digits") => format!("mkNumber (nexp {}) (nmant {}) {}", vx, vx, v.t),
                    (Ty::Raw, "length") => format!("mkRaw (cells {}) {}", vx, v.t),
                    _ => return err(e.span(), "field assignment is only supported on ExtendedFloat, Number and the length of a raw vector"),
                };
                self.push(S::Let(vx, format!("({})", t)));
                self.mark_assigned(&x);
            }
            Place::Index(x, ix) => {
                // `x[i] = v`: the value has been evaluated, now the index, then the store
                let after_v = self.assign_log.len();
                let var = self.place_var(e.span(), &x)?;
                if !matches!(var.ty, Ty::Vec | Ty::Big) || v.ty != Ty::Int(IntTy::U64) {
                    return err(e.span(), format!("indexed assignment of {} into {}", v.ty, var.ty));
                }
                let i = self.lower_expr(&ix, Some(&Ty::Int(IntTy::Usize)))?;
                self.no_stale_reads(e.span(), &[(v.t.clone(), after_v)])?;
                if i.ty != Ty::Int(IntTy::Usize) {
                    return err(e.span(), "index is not a usize");
                }
                self.push(S::Bind(var.cname.clone(), format!("vec_set {} {} {}", var.cname, i.t, v.t)));
                self.mark_assigned(&x);
            }
            Place::Alias(a) => {
                let (x, idx) = self.place_var(e.span(), &a)?.alias.unwrap();
                let vx = self.place_var(e.span(), &x)?;
                if v.ty != Ty::Int(IntTy::U64) {
                    return err(e.span(), format!("store of {} through an alias of a limb", v.ty));
                }
                self.push(S::Bind(vx.cname.clone(), format!("vec_set {} {} {}", vx.cname, idx, v.t)));
                self.mark_assigned(&x);
            }
        }
        Ok(())
    }

    /// accessor and type of a struct field
    pub fn field_of(&self, sp: proc_macro2::Span, ty: &Ty, fl: &str) -> R<(String, Ty)> {
        let r = match (ty, fl) {
            (Ty::Ext, "mant") => ("mant", Ty::Int(IntTy::U64)),
            (Ty::Ext, "exp") => ("exp", Ty::Int(IntTy::I32)),
            (Ty::Num, "exponent") => ("nexp", Ty::Int(IntTy::I32)),
            (Ty::Num, "mantissa") => ("nmant", Ty::Int(IntTy::U64)),
            (Ty::Num, "many_digits") => ("many", Ty::Bool),
            (Ty::Raw, "length") => ("rlen", Ty::Int(IntTy::U16)),
            (Ty::Powers, "small") => ("BELL_SMALL", Ty::Table),
            (Ty::Powers, "large") => ("BELL_LARGE", Ty::Table),
            (Ty::Powers, "small_int") => ("BELL_SMALL_INT", Ty::Table),
            (Ty::Powers, "step") => ("BELL_STEP", Ty::Int(IntTy::I32)),
            (Ty::Powers, "bias") => ("BELL_BIAS", Ty::Int(IntTy::I32)),
            (Ty::Powers, "log2") => ("BELL_LOG2", Ty::Int(IntTy::I64)),
            (Ty::Powers, "log2_shift") => ("BELL_LOG2_SHIFT", Ty::Int(IntTy::I32)),
            _ => return err(sp, format!("unknown field `{}` of {}", fl, ty)),
        };
        Ok((r.0.to_string(), r.1))
    }

    // ------------------------------------------------------------------ types

    pub fn conv_ty(&self, t: &syn::Type) -> R<Ty> {
        // a generic parameter of the function
        if let syn::Type::Path(p) = t {
            if let Some(id) = p.path.get_ident() {
                if let Some(ty) = self.tparams.get(&id.to_string()) {
                    return Ok(ty.clone());
                }
            }
        }
        if self.raw_mode || self.heap_mode {
            // rule 28: `VecType` / `Self` = `raw` (rule 31: `Self` = `HeapVec`); `bigint::Limb` = u64
            let own = if self.raw_mode { Ty::Raw } else { Ty::Hv };
            let text: String = crate::check::text(t);
            match text.strip_prefix("& mut ").or_else(|| text.strip_prefix("& ")).unwrap_or(&text) {
                "VecType" | "StackVec" if self.raw_mode => return Ok(Ty::Raw),
                "HeapVec" if self.heap_mode => return Ok(Ty::Hv),
                "Self" => return Ok(own),
                "Option < Self >" => return Ok(Ty::Opt(Box::new(own))),
                "bigint :: Limb" => return Ok(Ty::Int(IntTy::U64)),
                "Option < bigint :: Limb >" => return Ok(Ty::Opt(Box::new(Ty::Int(IntTy::U64)))),
                "[bigint :: Limb]" => return Ok(Ty::Slice),
                _ => {}
            }
        }
        let self_ty = match self.self_kind.as_deref() {
            Some("Bigint") => Ty::Big,
            Some("ReverseView") => Ty::RView,
            Some("Number") => Ty::Num,
            _ => Ty::Float,
        };
        let r = conv_ty_in(t, &self_ty, self.self_kind.as_deref() == Some("ReverseView"))?;
        let text = quote::quote!(#t).to_string();
        let names_limb = text.split(|c: char| !(c.is_alphanumeric() || c == '_')).any(|w| matches!(w, "Limb" | "Wide" | "VecType" | "Bigint" | "ReverseView"));
        if names_limb || uses_limb_types(&r) {
            if let Err(e) = &self.g.limb_ok {
                return err(t.span(), e);
            }
        }
        Ok(r)
    }

    /// print the finished body
    pub fn finish(&mut self, em: &mut Emitter, ind: usize) -> String {
        let ss = self.stmts.pop().unwrap();
        self.stmts.push(vec![]);
        em.emit(&ss, "(* unreachable *)", ind)
    }
}

#[derive(Clone, Debug)]
pub enum Place {
    Var(String),
    Field(String, String),
    Index(String, syn::Expr),
    Alias(String),
}

fn uses_limb_types(t: &Ty) -> bool {
    match t {
        Ty::Vec | Ty::Big | Ty::Slice | Ty::RView => true,
        Ty::Tuple(v) => v.iter().any(uses_limb_types),
        Ty::Opt(x) | Ty::Seq(x) => uses_limb_types(x),
        _ => false,
    }
}

pub fn conv_ty(t: &syn::Type) -> R<Ty> {
    conv_ty_in(t, &Ty::Float, false)
}

/// `self_ty` = what `Self` means; `t_is_limb`: inside `impl ReverseView<T>` the parameter `T` is
/// `Limb` (the only instantiation: `rview`, checked by the driver)
pub fn conv_ty_in(t: &syn::Type, self_ty: &Ty, t_is_limb: bool) -> R<Ty> {
    let rec = |x: &syn::Type| conv_ty_in(x, self_ty, t_is_limb);
    match t {
        syn::Type::Path(p) if p.qself.is_none() => {
            // the name decides: no module prefix (it could name something else), except `cmp::Ordering`
            let segs: Vec<String> = p.path.segments.iter().map(|s| s.ident.to_string()).collect();
            let prefix_ok = segs.len() == 1 || segs == ["cmp", "Ordering"] || segs == ["core", "cmp", "Ordering"];
            if !prefix_ok || p.path.leading_colon.is_some() {
                return err(t.span(), format!("unsupported type path `{}`", segs.join("::")));
            }
            for s in p.path.segments.iter().take(segs.len() - 1) {
                if !s.arguments.is_none() {
                    return err(t.span(), "generic arguments inside a type path");
                }
            }
            let seg = p.path.segments.last().unwrap();
            let id = seg.ident.to_string();
            // generic arguments are only read for `Option<..>`; `ReverseView<Limb>` is checked by the driver
            if !seg.arguments.is_none() && id != "Option" && id != "ReverseView" {
                return err(t.span(), format!("generic arguments on the type `{}`", id));
            }
            if let Some(i) = IntTy::from_name(&id) {
                return Ok(Ty::Int(i));
            }
            match id.as_str() {
                "bool" => Ok(Ty::Bool),
                "ExtendedFloat" => Ok(Ty::Ext),
                "Number" => Ok(Ty::Num),
                "F" => Ok(Ty::Float),
                "Self" => Ok(self_ty.clone()),
                "FastPathRadix" => Ok(Ty::Radix),
                "BellerophonPowers" => Ok(Ty::Powers),
                "Limb" => Ok(Ty::Int(IntTy::U64)),
                "Wide" => Ok(Ty::Int(IntTy::U128)),
                "T" if t_is_limb => Ok(Ty::Int(IntTy::U64)),
                "VecType" => Ok(Ty::Vec),
                "Bigint" => Ok(Ty::Big),
                "ReverseView" => Ok(Ty::RView),
                "Ordering" => Ok(Ty::Ordering),
                "Option" => {
                    if let syn::PathArguments::AngleBracketed(a) = &seg.arguments {
                        if let Some(syn::GenericArgument::Type(it)) = a.args.first() {
                            return Ok(Ty::Opt(Box::new(rec(it)?)));
                        }
                    }
                    err(t.span(), "unsupported Option type")
                }
                _ => err(t.span(), format!("unsupported type `{}`", id)),
            }
        }
        syn::Type::Reference(r) => {
            // `&[Limb]` is a slice (rule 14); `&'static [u64]` stays a table (rule 9)
            if let syn::Type::Slice(s) = &*r.elem {
                let is_static = r.lifetime.as_ref().map(|l| l.ident == "static").unwrap_or(false);
                if !is_static && rec(&s.elem)? == Ty::Int(IntTy::U64) {
                    return Ok(Ty::Slice);
                }
                if !is_static && rec(&s.elem)? == Ty::Int(IntTy::U8) {
                    return Ok(Ty::Bytes);
                }
            }
            rec(&r.elem)
        }
        syn::Type::Tuple(tt) => {
            if tt.elems.is_empty() {
                return Ok(Ty::Unit);
            }
            let mut v = vec![];
            for e in &tt.elems {
                v.push(rec(e)?);
            }
            Ok(Ty::Tuple(v))
        }
        syn::Type::Paren(p) => rec(&p.elem),
        syn::Type::Array(a) => conv_table(&rec(&a.elem)?, t.span()),
        syn::Type::Slice(a) => conv_table(&rec(&a.elem)?, t.span()),
        _ => err(t.span(), "unsupported type"),
    }
}

fn conv_table(elem: &Ty, sp: proc_macro2::Span) -> R<Ty> {
    match elem {
        Ty::Int(IntTy::U64) => Ok(Ty::Table),
        Ty::Tuple(v) if *v == vec![Ty::Int(IntTy::U64), Ty::Int(IntTy::U64)] => Ok(Ty::Table2),
        _ => err(sp, "unsupported table element type"),
    }
}

pub fn is_mut_ref(t: &syn::Type) -> bool {
    matches!(t, syn::Type::Reference(r) if r.mutability.is_some())
}
