//! Lowering of function bodies (statements, control flow, assignment) to the intermediate form.
use crate::emit::{tuple_pat, tuple_val, Emitter, S};
use crate::ty::*;
use std::collections::{BTreeSet, HashMap};
use syn::spanned::Spanned;

pub type R<T> = Result<T, String>;

pub fn err<T>(sp: proc_macro2::Span, msg: impl AsRef<str>) -> R<T> {
    let lc = sp.start();
    Err(format!("line {}:{}: {}", lc.line, lc.column + 1, msg.as_ref()))
}

/// a global constant visible to the translated code
#[derive(Clone, Debug)]
pub struct GConst {
    pub ty: Ty,
    pub term: String,
    pub needs: Needs,
}

pub struct Globals {
    /// associated constants of `trait Float` with their declared integer types
    pub float_consts: HashMap<String, IntTy>,
    /// already translated functions, by Rust key (`name`, `Number::name`, `Float::name`, …)
    pub fns: HashMap<String, FnInfo>,
    pub consts: HashMap<String, GConst>,
    /// functions (by Rust key) that could not be translated
    pub omitted: std::collections::HashSet<String>,
}

#[derive(Clone, Debug)]
pub struct Val {
    /// pure Gallina term (atomic or parenthesised)
    pub t: String,
    pub ty: Ty,
    /// the expression never produces a value (`return`)
    pub never: bool,
}

impl Val {
    pub fn new(t: impl Into<String>, ty: Ty) -> Val {
        Val { t: t.into(), ty, never: false }
    }
    pub fn unit() -> Val {
        Val::new("tt", Ty::Unit)
    }
}

#[derive(Clone, Debug)]
pub struct Var {
    pub ty: Ty,
    /// the variable is a `&mut T` (parameter or closure parameter)
    pub mutref: bool,
}

pub struct Frame {
    pub depth: usize,
    pub assigned: BTreeSet<String>,
}

pub struct Cx<'a> {
    pub g: &'a Globals,
    pub scopes: Vec<HashMap<String, Var>>,
    pub stmts: Vec<Vec<S>>,
    pub frames: Vec<Frame>,
    pub tmp: usize,
    pub needs: Needs,
    pub ret_ty: Ty,
    /// `&mut` parameters of the function (closure) being translated, in order
    pub mut_params: Vec<String>,
    /// type of `self`, and the impl it belongs to ("Float", "Number", "BellerophonPowers")
    pub self_kind: Option<String>,
    pub loop_fuel: u32,
}

pub fn vname(x: &str) -> String {
    format!("v_{}", x)
}

impl<'a> Cx<'a> {
    pub fn new(g: &'a Globals) -> Cx<'a> {
        Cx {
            g,
            scopes: vec![HashMap::new()],
            stmts: vec![vec![]],
            frames: vec![],
            tmp: 0,
            needs: Needs::default(),
            ret_ty: Ty::Unit,
            mut_params: vec![],
            self_kind: None,
            loop_fuel: 0,
        }
    }

    pub fn fresh(&mut self) -> String {
        self.tmp += 1;
        format!("t{}", self.tmp)
    }

    pub fn push(&mut self, s: S) {
        self.stmts.last_mut().unwrap().push(s);
    }

    pub fn lookup(&self, x: &str) -> Option<(usize, &Var)> {
        for (d, sc) in self.scopes.iter().enumerate().rev() {
            if let Some(v) = sc.get(x) {
                return Some((d, v));
            }
        }
        None
    }

    /// declare a new local; shadowing a variable of an *enclosing* block is refused (the
    /// translation relies on Gallina shadowing, which would leak out of the block)
    pub fn declare(&mut self, sp: proc_macro2::Span, x: &str, ty: Ty, mutref: bool) -> R<()> {
        if let Some((d, _)) = self.lookup(x) {
            if d + 1 != self.scopes.len() {
                return err(sp, format!("`let {}` shadows a variable of an enclosing block (unsupported)", x));
            }
        }
        self.scopes.last_mut().unwrap().insert(x.to_string(), Var { ty, mutref });
        Ok(())
    }

    pub fn mark_assigned(&mut self, x: &str) {
        let d = match self.lookup(x) {
            Some((d, _)) => d,
            None => return,
        };
        for fr in self.frames.iter_mut() {
            if d < fr.depth {
                fr.assigned.insert(x.to_string());
            }
        }
    }

    /// the monadic term with which the function returns the value `v`
    pub fn ret_term(&self, v: &Val) -> String {
        let mut parts: Vec<String> = self.mut_params.iter().map(|p| vname(p)).collect();
        if self.ret_ty != Ty::Unit || parts.is_empty() {
            parts.push(v.t.clone());
        }
        format!("Ok {}", crate::emit::paren(&tuple_val(&parts)))
    }

    // ------------------------------------------------------------------ blocks and statements

    /// Lower a block in a fresh scope into the *current* statement list; returns its value.
    pub fn lower_block(&mut self, b: &syn::Block, expected: Option<&Ty>) -> R<Val> {
        self.scopes.push(HashMap::new());
        let r = self.lower_stmts(&b.stmts, expected);
        self.scopes.pop();
        r
    }

    fn cfg_dropped(&self, attrs: &[syn::Attribute]) -> R<bool> {
        for a in attrs {
            if a.path().is_ident("cfg") {
                let s = a.meta.require_list().map_err(|e| e.to_string())?.tokens.to_string();
                let s: String = s.chars().filter(|c| !c.is_whitespace()).collect();
                if s == "feature=\"nightly\"" {
                    return Ok(true);
                }
                return err(a.span(), format!("unsupported #[cfg({})] on a statement", s));
            }
        }
        Ok(false)
    }

    pub fn lower_stmts(&mut self, stmts: &[syn::Stmt], expected: Option<&Ty>) -> R<Val> {
        let n = stmts.len();
        let mut last = Val::unit();
        for (i, st) in stmts.iter().enumerate() {
            let is_last = i + 1 == n;
            last = Val::unit();
            match st {
                syn::Stmt::Local(l) => {
                    if self.cfg_dropped(&l.attrs)? {
                        continue;
                    }
                    self.lower_local(l)?;
                }
                syn::Stmt::Item(syn::Item::Const(c)) => {
                    let ty = self.conv_ty(&c.ty)?;
                    let v = self.lower_expr(&c.expr, Some(&ty))?;
                    let name = c.ident.to_string();
                    self.declare(c.span(), &name, ty, false)?;
                    self.push(S::Let(vname(&name), v.t));
                }
                syn::Stmt::Item(it) => return err(it.span(), "unsupported item in a function body"),
                syn::Stmt::Macro(m) => {
                    self.lower_macro(&m.mac)?;
                }
                syn::Stmt::Expr(e, semi) => {
                    if is_last && semi.is_none() {
                        last = self.lower_expr(e, expected)?;
                    } else {
                        let v = self.lower_expr(e, None)?;
                        if v.never && is_last {
                            last = v;
                        }
                    }
                }
            }
        }
        Ok(last)
    }

    fn lower_local(&mut self, l: &syn::Local) -> R<()> {
        let (pat, declared) = match &l.pat {
            syn::Pat::Type(pt) => (&*pt.pat, Some(self.conv_ty(&pt.ty)?)),
            p => (p, None),
        };
        let init = match &l.init {
            Some(i) if i.diverge.is_none() => &*i.expr,
            _ => return err(l.span(), "`let` without initialiser / with `else` is unsupported"),
        };
        let v = self.lower_expr(init, declared.as_ref())?;
        if let Some(d) = &declared {
            if *d != v.ty {
                return err(l.span(), format!("declared type {} differs from inferred {}", d, v.ty));
            }
        }
        self.bind_pat(pat, &v)
    }

    /// bind the (pure) value `v` to the pattern: identifier, `_`, or a tuple of those
    pub fn bind_pat(&mut self, pat: &syn::Pat, v: &Val) -> R<()> {
        match pat {
            syn::Pat::Ident(pi) => {
                if pi.by_ref.is_some() || pi.subpat.is_some() {
                    return err(pi.span(), "unsupported binding mode");
                }
                let name = pi.ident.to_string();
                self.declare(pi.span(), &name, v.ty.clone(), false)?;
                self.push(S::Let(vname(&name), v.t.clone()));
                Ok(())
            }
            syn::Pat::Wild(_) => Ok(()),
            syn::Pat::Tuple(pt) => {
                let tys = match &v.ty {
                    Ty::Tuple(ts) if ts.len() == pt.elems.len() => ts.clone(),
                    t => return err(pt.span(), format!("tuple pattern against type {}", t)),
                };
                let mut names = vec![];
                for (p, ty) in pt.elems.iter().zip(tys.iter()) {
                    match p {
                        syn::Pat::Ident(pi) if pi.by_ref.is_none() && pi.subpat.is_none() => {
                            let name = pi.ident.to_string();
                            self.declare(pi.span(), &name, ty.clone(), false)?;
                            names.push(vname(&name));
                        }
                        syn::Pat::Wild(_) => names.push("_".into()),
                        p => return err(p.span(), "unsupported nested pattern"),
                    }
                }
                self.push(S::Let(tuple_pat(&names), v.t.clone()));
                Ok(())
            }
            p => err(p.span(), "unsupported pattern"),
        }
    }

    fn lower_macro(&mut self, mac: &syn::Macro) -> R<()> {
        if !mac.path.is_ident("debug_assert") {
            return err(mac.span(), "unsupported macro (only debug_assert! is translated)");
        }
        use syn::punctuated::Punctuated;
        let args = mac
            .parse_body_with(Punctuated::<syn::Expr, syn::Token![,]>::parse_terminated)
            .map_err(|e| e.to_string())?;
        let mut it = args.iter();
        let cond = match it.next() {
            Some(c) => c,
            None => return err(mac.span(), "debug_assert! without condition"),
        };
        for extra in it {
            match extra {
                syn::Expr::Lit(syn::ExprLit { lit: syn::Lit::Str(_), .. }) => {}
                e => return err(e.span(), "debug_assert! message arguments other than a string literal"),
            }
        }
        // the condition is only evaluated in builds with debug assertions
        self.stmts.push(vec![]);
        let c = self.lower_expr(cond, Some(&Ty::Bool))?;
        let mut pre = self.stmts.pop().unwrap();
        if c.ty != Ty::Bool {
            return err(cond.span(), "debug_assert! condition is not a bool");
        }
        let da = S::Bind("_".into(), format!("debug_assert b {}", c.t));
        if pre.is_empty() {
            self.push(da);
        } else {
            pre.push(da);
            self.push(S::If { c: "dbg b".into(), a: pre, b: vec![], outs: vec![] });
        }
        Ok(())
    }

    // ------------------------------------------------------------------ control flow

    /// Lower the two alternatives `a` / `b` (closures producing the branch value) under the
    /// condition `c`.
    pub fn lower_branches(
        &mut self,
        sp: proc_macro2::Span,
        c: String,
        expected: Option<&Ty>,
        a: &mut dyn FnMut(&mut Self, Option<&Ty>) -> R<Val>,
        b: &mut dyn FnMut(&mut Self, Option<&Ty>) -> R<Val>,
    ) -> R<Val> {
        let depth = self.scopes.len();
        self.frames.push(Frame { depth, assigned: BTreeSet::new() });
        self.stmts.push(vec![]);
        let va = a(self, expected)?;
        let mut sa = self.stmts.pop().unwrap();
        self.stmts.push(vec![]);
        let exp_b: Option<Ty> = expected.cloned().or(if va.never { None } else { Some(va.ty.clone()) });
        let vb = b(self, exp_b.as_ref())?;
        let mut sb = self.stmts.pop().unwrap();
        let fr = self.frames.pop().unwrap();
        let ty = if va.never { vb.ty.clone() } else { va.ty.clone() };
        if !va.never && !vb.never && va.ty != vb.ty {
            return err(sp, format!("branches have different types {} / {}", va.ty, vb.ty));
        }
        let valued = ty != Ty::Unit && !(va.never && vb.never);
        if valued && sa.is_empty() && sb.is_empty() && fr.assigned.is_empty() && !va.never && !vb.never {
            return Ok(Val::new(format!("(if {} then {} else {})", c, va.t, vb.t), ty));
        }
        let mut outs: Vec<String> = fr.assigned.iter().map(|x| vname(x)).collect();
        for x in fr.assigned.iter() {
            self.mark_assigned(x);
        }
        let res = if valued {
            let r = self.fresh();
            if !va.never {
                sa.push(S::Let(r.clone(), va.t.clone()));
            }
            if !vb.never {
                sb.push(S::Let(r.clone(), vb.t.clone()));
            }
            outs.push(r.clone());
            Val::new(r, ty)
        } else {
            let mut u = Val::unit();
            u.never = va.never && vb.never;
            u
        };
        self.push(S::If { c, a: sa, b: sb, outs });
        Ok(res)
    }

    pub fn lower_if(&mut self, e: &syn::ExprIf, expected: Option<&Ty>) -> R<Val> {
        if let syn::Expr::Let(_) = &*e.cond {
            return err(e.span(), "`if let` is unsupported");
        }
        let c = self.lower_expr(&e.cond, Some(&Ty::Bool))?;
        if c.ty != Ty::Bool {
            return err(e.cond.span(), "condition is not a bool");
        }
        let then_b = &e.then_branch;
        let else_e = e.else_branch.as_ref().map(|(_, x)| &**x);
        self.lower_branches(
            e.span(),
            c.t,
            expected,
            &mut |cx, ex| cx.lower_block(then_b, ex),
            &mut |cx, ex| match else_e {
                Some(x) => cx.lower_expr(x, ex),
                None => Ok(Val::unit()),
            },
        )
    }

    /// `match` on a `bool`, or on a pair whose second component is matched by `true`/`false`
    pub fn lower_match(&mut self, e: &syn::ExprMatch, expected: Option<&Ty>) -> R<Val> {
        let s = self.lower_expr(&e.expr, None)?;
        if e.arms.len() != 2 {
            return err(e.span(), "only two-armed `match` on bool / (x, bool) is supported");
        }
        for a in &e.arms {
            if a.guard.is_some() {
                return err(a.span(), "match guards are unsupported");
            }
        }
        fn bool_pat(p: &syn::Pat) -> Option<bool> {
            if let syn::Pat::Lit(syn::ExprLit { lit: syn::Lit::Bool(b), .. }) = p {
                Some(b.value)
            } else {
                None
            }
        }
        match &s.ty {
            Ty::Bool => {
                let (p0, p1) = (bool_pat(&e.arms[0].pat), bool_pat(&e.arms[1].pat));
                let (ta, fa) = match (p0, p1) {
                    (Some(true), Some(false)) => (&e.arms[0], &e.arms[1]),
                    (Some(false), Some(true)) => (&e.arms[1], &e.arms[0]),
                    _ => return err(e.span(), "match on bool needs the arms `true` and `false`"),
                };
                let (tb, fb) = (&*ta.body, &*fa.body);
                self.lower_branches(
                    e.span(),
                    s.t.clone(),
                    expected,
                    &mut |cx, ex| cx.lower_arm(tb, ex),
                    &mut |cx, ex| cx.lower_arm(fb, ex),
                )
            }
            Ty::Tuple(ts) if ts.len() == 2 && ts[1] == Ty::Bool => {
                let split = |p: &syn::Pat| -> Option<(syn::Pat, bool)> {
                    if let syn::Pat::Tuple(pt) = p {
                        if pt.elems.len() == 2 {
                            if let Some(b) = bool_pat(&pt.elems[1]) {
                                return Some((pt.elems[0].clone(), b));
                            }
                        }
                    }
                    None
                };
                let (a0, a1) = match (split(&e.arms[0].pat), split(&e.arms[1].pat)) {
                    (Some(x), Some(y)) if x.1 != y.1 => (x, y),
                    _ => return err(e.span(), "match on (x, bool) needs arms `(p, true)` and `(q, false)`"),
                };
                let ((tp, _), tb, (fp, _), fb) = if a0.1 {
                    (a0, &*e.arms[0].body, a1, &*e.arms[1].body)
                } else {
                    (a1, &*e.arms[1].body, a0, &*e.arms[0].body)
                };
                let x = self.fresh();
                let o = self.fresh();
                self.push(S::Let(format!("'({}, {})", x, o), s.t.clone()));
                let xv = Val::new(x, ts[0].clone());
                self.lower_branches(
                    e.span(),
                    o,
                    expected,
                    &mut |cx, ex| {
                        cx.scopes.push(HashMap::new());
                        let r = cx.bind_pat(&tp, &xv).and_then(|_| cx.lower_arm(tb, ex));
                        cx.scopes.pop();
                        r
                    },
                    &mut |cx, ex| {
                        cx.scopes.push(HashMap::new());
                        let r = cx.bind_pat(&fp, &xv).and_then(|_| cx.lower_arm(fb, ex));
                        cx.scopes.pop();
                        r
                    },
                )
            }
            t => err(e.span(), format!("unsupported `match` scrutinee type {}", t)),
        }
    }

    fn lower_arm(&mut self, body: &syn::Expr, expected: Option<&Ty>) -> R<Val> {
        self.scopes.push(HashMap::new());
        let r = self.lower_expr(body, expected);
        self.scopes.pop();
        r
    }

    /// `while c { body }` — translated with the fuel given for this function
    pub fn lower_while(&mut self, e: &syn::ExprWhile) -> R<Val> {
        if self.loop_fuel == 0 {
            return err(e.span(), "`while` loop in a function without a declared fuel");
        }
        if e.label.is_some() {
            return err(e.span(), "labelled loops are unsupported");
        }
        let depth = self.scopes.len();
        self.frames.push(Frame { depth, assigned: BTreeSet::new() });
        self.stmts.push(vec![]);
        let c = self.lower_expr(&e.cond, Some(&Ty::Bool))?;
        let cpre = self.stmts.pop().unwrap();
        self.stmts.push(vec![]);
        self.lower_block(&e.body, None)?;
        let body = self.stmts.pop().unwrap();
        let fr = self.frames.pop().unwrap();
        for x in fr.assigned.iter() {
            self.mark_assigned(x);
        }
        let vars: Vec<String> = fr.assigned.iter().map(|x| vname(x)).collect();
        let fuel = self.loop_fuel;
        self.push(S::While { vars, cpre, c: c.t, body, fuel });
        Ok(Val::unit())
    }

    // ------------------------------------------------------------------ assignment

    fn place_var(&self, e: &syn::Expr) -> R<(String, Option<String>)> {
        match e {
            syn::Expr::Path(p) if p.path.get_ident().is_some() => Ok((p.path.get_ident().unwrap().to_string(), None)),
            syn::Expr::Unary(u) if matches!(u.op, syn::UnOp::Deref(_)) => self.place_var(&u.expr),
            syn::Expr::Paren(p) => self.place_var(&p.expr),
            syn::Expr::Field(f) => {
                let (x, sub) = self.place_var(&f.base)?;
                if sub.is_some() {
                    return err(e.span(), "nested field assignment");
                }
                match &f.member {
                    syn::Member::Named(id) => Ok((x, Some(id.to_string()))),
                    _ => err(e.span(), "assignment to a tuple field"),
                }
            }
            _ => err(e.span(), "unsupported assignment target"),
        }
    }

    /// type and current value of an assignment target
    pub fn place_read(&mut self, e: &syn::Expr) -> R<Val> {
        let (x, fld) = self.place_var(e)?;
        let var = match self.lookup(&x) {
            Some((_, v)) => v.clone(),
            None => return err(e.span(), format!("unknown variable `{}`", x)),
        };
        match fld {
            None => Ok(Val::new(vname(&x), var.ty)),
            Some(fl) => {
                let (acc, ty) = self.field_of(e.span(), &var.ty, &fl)?;
                Ok(Val::new(format!("({} {})", acc, vname(&x)), ty))
            }
        }
    }

    pub fn place_write(&mut self, e: &syn::Expr, v: &Val) -> R<()> {
        let (x, fld) = self.place_var(e)?;
        let var = match self.lookup(&x) {
            Some((_, v)) => v.clone(),
            None => return err(e.span(), format!("unknown variable `{}`", x)),
        };
        let vx = vname(&x);
        match fld {
            None => {
                if var.ty != v.ty {
                    return err(e.span(), format!("assignment of {} to a variable of type {}", v.ty, var.ty));
                }
                self.push(S::Let(vx, v.t.clone()));
            }
            Some(fl) => {
                let (_, fty) = self.field_of(e.span(), &var.ty, &fl)?;
                if fty != v.ty {
                    return err(e.span(), format!("assignment of {} to a field of type {}", v.ty, fty));
                }
                let t = match (&var.ty, fl.as_str()) {
                    (Ty::Ext, "mant") => format!("mkExt {} (exp {})", v.t, vx),
                    (Ty::Ext, "exp") => format!("mkExt (mant {}) {}", vx, v.t),
                    _ => return err(e.span(), "field assignment is only supported on ExtendedFloat"),
                };
                self.push(S::Let(vx, format!("({})", t)));
            }
        }
        self.mark_assigned(&x);
        Ok(())
    }

    /// accessor and type of a struct field
    pub fn field_of(&self, sp: proc_macro2::Span, ty: &Ty, fl: &str) -> R<(String, Ty)> {
        let r = match (ty, fl) {
            (Ty::Ext, "mant") => ("mant", Ty::Int(IntTy::U64)),
            (Ty::Ext, "exp") => ("exp", Ty::Int(IntTy::I32)),
            (Ty::Num, "exponent") => ("nexp", Ty::Int(IntTy::I32)),
            (Ty::Num, "mantissa") => ("nmant", Ty::Int(IntTy::U64)),
            (Ty::Num, "many_digits") => ("many", Ty::Bool),
            (Ty::Powers, "small") => ("BELL_SMALL", Ty::Table),
            (Ty::Powers, "large") => ("BELL_LARGE", Ty::Table),
            (Ty::Powers, "small_int") => ("BELL_SMALL_INT", Ty::Table),
            (Ty::Powers, "step") => ("BELL_STEP", Ty::Int(IntTy::I32)),
            (Ty::Powers, "bias") => ("BELL_BIAS", Ty::Int(IntTy::I32)),
            (Ty::Powers, "log2") => ("BELL_LOG2", Ty::Int(IntTy::I64)),
            (Ty::Powers, "log2_shift") => ("BELL_LOG2_SHIFT", Ty::Int(IntTy::I32)),
            _ => return err(sp, format!("unknown field `{}` of {}", fl, ty)),
        };
        Ok((r.0.to_string(), r.1))
    }

    // ------------------------------------------------------------------ types

    pub fn conv_ty(&self, t: &syn::Type) -> R<Ty> {
        conv_ty(t)
    }

    /// print the finished body
    pub fn finish(&mut self, em: &mut Emitter, ind: usize) -> String {
        let ss = self.stmts.pop().unwrap();
        self.stmts.push(vec![]);
        em.emit(&ss, "(* unreachable *)", ind)
    }
}

pub fn conv_ty(t: &syn::Type) -> R<Ty> {
    match t {
        syn::Type::Path(p) if p.qself.is_none() => {
            let seg = p.path.segments.last().unwrap();
            let id = seg.ident.to_string();
            if let Some(i) = IntTy::from_name(&id) {
                return Ok(Ty::Int(i));
            }
            match id.as_str() {
                "bool" => Ok(Ty::Bool),
                "ExtendedFloat" => Ok(Ty::Ext),
                "Number" => Ok(Ty::Num),
                "F" | "Self" => Ok(Ty::Float),
                "FastPathRadix" => Ok(Ty::Radix),
                "BellerophonPowers" => Ok(Ty::Powers),
                "Option" => {
                    if let syn::PathArguments::AngleBracketed(a) = &seg.arguments {
                        if let Some(syn::GenericArgument::Type(it)) = a.args.first() {
                            return Ok(Ty::Opt(Box::new(conv_ty(it)?)));
                        }
                    }
                    err(t.span(), "unsupported Option type")
                }
                _ => err(t.span(), format!("unsupported type `{}`", id)),
            }
        }
        syn::Type::Reference(r) => conv_ty(&r.elem),
        syn::Type::Tuple(tt) => {
            if tt.elems.is_empty() {
                return Ok(Ty::Unit);
            }
            let mut v = vec![];
            for e in &tt.elems {
                v.push(conv_ty(e)?);
            }
            Ok(Ty::Tuple(v))
        }
        syn::Type::Paren(p) => conv_ty(&p.elem),
        syn::Type::Array(a) => conv_table(&a.elem, t.span()),
        syn::Type::Slice(a) => conv_table(&a.elem, t.span()),
        _ => err(t.span(), "unsupported type"),
    }
}

fn conv_table(elem: &syn::Type, sp: proc_macro2::Span) -> R<Ty> {
    match conv_ty(elem)? {
        Ty::Int(IntTy::U64) => Ok(Ty::Table),
        Ty::Tuple(v) if v == vec![Ty::Int(IntTy::U64), Ty::Int(IntTy::U64)] => Ok(Ty::Table2),
        _ => err(sp, "unsupported table element type"),
    }
}

pub fn is_mut_ref(t: &syn::Type) -> bool {
    matches!(t, syn::Type::Reference(r) if r.mutability.is_some())
}
