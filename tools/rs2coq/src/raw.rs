//! Raw mode (rules 28-30): the cell-level translation of stackvec.rs and of `bigint::shl_limbs` over
//! the memory model of model/RawVec.v (`raw` = cells + length; `write_cell`, `read_cell`,
//! `write_cells`, `copy_within`, `write_zeros`) and model/SrcLibRaw.v (`raw_slice`, `zrange`).
use crate::emit::S;
use crate::expr::path_str;
use crate::lower::*;
use crate::ty::*;
use syn::spanned::Spanned;

const U64: Ty = Ty::Int(IntTy::U64);
const USIZE: Ty = Ty::Int(IntTy::Usize);

/// rule 29 / C-PTRCAST: a pointer cast is the identity only when the pointee stays a limb
fn limb_ptr_type(t: &syn::Type) -> bool {
    let s: String = crate::check::text(t);
    matches!(s.as_str(), "* const bigint :: Limb" | "* mut bigint :: Limb" | "* const Limb" | "* mut Limb")
}

fn is_stable(t: &str) -> bool {
    is_numeral(t) || (t.starts_with('t') && t.len() > 1 && t[1..].chars().all(|c| c.is_ascii_digit()))
}

impl<'a> Cx<'a> {
    fn raw_check(&self, sp: proc_macro2::Span) -> R<()> {
        match &self.g.stackvec_ok {
            Ok(()) => Ok(()),
            Err(m) => err(sp, m),
        }
    }

    /// the `raw` variable behind `x`, `*x`, `self`, `self.data`
    fn raw_var(&self, e: &syn::Expr) -> R<String> {
        let inner = match e {
            syn::Expr::Field(f) if matches!(&f.member, syn::Member::Named(id) if id == "data") => &*f.base,
            e => e,
        };
        match self.place_of(inner) {
            Ok(Place::Var(x)) => match self.lookup(&x) {
                Some((_, v)) if v.ty == Ty::Raw => Ok(x),
                _ => err(e.span(), "not a raw vector variable"),
            },
            _ => err(e.span(), "not a raw vector variable"),
        }
    }

    /// does the expression denote a raw pointer (rule 29)
    pub fn is_ptr_expr(&self, e: &syn::Expr) -> bool {
        match e {
            syn::Expr::Paren(p) => self.is_ptr_expr(&p.expr),
            syn::Expr::Group(p) => self.is_ptr_expr(&p.expr),
            syn::Expr::Cast(c) => matches!(&*c.ty, syn::Type::Ptr(_)),
            syn::Expr::MethodCall(m) => {
                let n = m.method.to_string();
                (n == "as_ptr" || n == "as_mut_ptr") && m.args.is_empty() || (n == "add" && m.args.len() == 1 && self.is_ptr_expr(&m.receiver))
            }
            syn::Expr::Path(p) => match p.path.get_ident().and_then(|i| self.lookup(&i.to_string())) {
                Some((_, v)) => v.ptr.is_some(),
                None => false,
            },
            _ => false,
        }
    }

    /// rule 29: a raw pointer as a translation-time value.  `x.as_ptr()` / `x.as_mut_ptr()` /
    /// `self.data.as_ptr()` = the base of the buffer of the raw vector `x` (through `Deref` in
    /// Rust); `s.as_ptr()` for a slice parameter = that foreign slice; `p.add(k)` on a base pointer
    /// = cell `k` (evaluated with its checks, once); `p as *const T` / `as *mut T` = `p`.
    pub fn lower_ptr(&mut self, e: &syn::Expr) -> R<Ptr> {
        match e {
            syn::Expr::Paren(p) => self.lower_ptr(&p.expr),
            syn::Expr::Group(p) => self.lower_ptr(&p.expr),
            syn::Expr::Cast(c) if matches!(&*c.ty, syn::Type::Ptr(_)) => {
                if !limb_ptr_type(&c.ty) {
                    return err(e.span(), "a pointer cast to another element type (only `*const` / `*mut` `[bigint::]Limb` keeps the cell arithmetic)");
                }
                self.lower_ptr(&c.expr)
            }
            syn::Expr::Path(p) if p.path.get_ident().is_some() => {
                let n = p.path.get_ident().unwrap().to_string();
                match self.lookup(&n) {
                    Some((_, Var { ptr: Some(q), .. })) => Ok(q.clone()),
                    _ => err(e.span(), format!("`{}` is not a raw pointer", n)),
                }
            }
            syn::Expr::MethodCall(m) if m.turbofish.is_none() => {
                let name = m.method.to_string();
                match (name.as_str(), m.args.len()) {
                    ("as_ptr", 0) | ("as_mut_ptr", 0) => {
                        if let Ok(x) = self.raw_var(&m.receiver) {
                            return Ok(Ptr::Own { var: x, off: "0".into() });
                        }
                        if name == "as_ptr" {
                            if let syn::Expr::Path(p) = &*m.receiver {
                                if let Some(id) = p.path.get_ident() {
                                    if let Some((_, v)) = self.lookup(&id.to_string()) {
                                        if v.ty == Ty::Slice {
                                            return Ok(Ptr::Foreign { var: id.to_string() });
                                        }
                                    }
                                }
                            }
                        }
                        err(e.span(), format!("`{}()` on something other than a raw vector / a slice parameter", name))
                    }
                    ("add", 1) if matches!(crate::expr::strip_ref(&m.receiver), syn::Expr::Cast(_)) => {
                        err(e.span(), "`add` on a casted pointer (the element size of the offset would not be checked)")
                    }
                    ("add", 1) => match self.lower_ptr(&m.receiver)? {
                        Ptr::Own { var, off } if off == "0" => {
                            let k = self.lower_expr(&m.args[0], Some(&USIZE))?;
                            if k.ty != USIZE {
                                return err(e.span(), "pointer offset is not a usize");
                            }
                            // the offset is evaluated here, once
                            let off = if is_stable(&k.t) {
                                k.t
                            } else {
                                let t = self.fresh();
                                self.push(S::Let(t.clone(), k.t));
                                t
                            };
                            Ok(Ptr::Own { var, off })
                        }
                        _ => err(e.span(), "`add` on a pointer that is not the base of the vector's own buffer"),
                    },
                    _ => err(e.span(), "unsupported pointer expression"),
                }
            }
            _ => err(e.span(), "unsupported pointer expression"),
        }
    }

    /// `let p = <pointer expression>;`
    pub fn try_lower_ptr_local(&mut self, pat: &syn::Pat, init: &syn::Expr) -> R<Option<()>> {
        if !self.raw_mode || !self.is_ptr_expr(init) {
            return Ok(None);
        }
        let name = match pat {
            syn::Pat::Ident(pi) if pi.by_ref.is_none() && pi.subpat.is_none() && pi.mutability.is_none() => pi.ident.to_string(),
            _ => return err(pat.span(), "a raw pointer must be bound to a plain immutable identifier"),
        };
        let q = self.lower_ptr(init)?;
        self.declare(pat.span(), &name, Ty::Ptr, false)?;
        self.lookup_mut(&name).unwrap().ptr = Some(q);
        Ok(Some(()))
    }

    fn own(&mut self, e: &syn::Expr) -> R<(String, String)> {
        match self.lower_ptr(e)? {
            Ptr::Own { var, off } => Ok((var, off)),
            Ptr::Foreign { .. } => err(e.span(), "a pointer into the vector's own buffer is required here"),
        }
    }

    /// store new cells into the raw variable `x`: the record is rebuilt
    fn set_cells(&mut self, x: &str, op: String) {
        let cn = self.cn(x);
        let t = self.fresh();
        self.push(S::Bind(t.clone(), op));
        self.push(S::Let(cn.clone(), format!("(mkRaw {} (rlen {}))", t, cn)));
        self.mark_assigned(x);
    }

    /// rule 29: `ptr::write / read / copy_nonoverlapping / copy / write_bytes`,
    /// `slice::from_raw_parts`, `Self::new()`.  `Ok(None)`: not one of them.
    pub fn lower_call_raw(&mut self, sp: proc_macro2::Span, s: &str, args: &[&syn::Expr]) -> R<Option<Val>> {
        match (s, args.len()) {
            ("ptr::write", 2) => {
                self.raw_check(sp)?;
                let (x, off) = self.own(args[0])?;
                let after = self.assign_log.len();
                let v = self.lower_expr(args[1], Some(&U64))?;
                self.no_stale_reads(sp, &[(off.clone(), after)])?;
                if v.ty != U64 {
                    return err(sp, format!("`ptr::write` of a value of type {}", v.ty));
                }
                let cn = self.cn(&x);
                self.set_cells(&x, format!("write_cell (cells {}) {} {}", cn, off, v.t));
                Ok(Some(Val::unit()))
            }
            ("ptr::read", 1) => {
                self.raw_check(sp)?;
                let (x, off) = self.own(args[0])?;
                let t = self.fresh();
                let cn = self.cn(&x);
                self.push(S::Bind(t.clone(), format!("read_cell (cells {}) {}", cn, off)));
                Ok(Some(Val::new(t, U64)))
            }
            ("ptr::copy_nonoverlapping", 3) => {
                self.raw_check(sp)?;
                let src = match self.lower_ptr(args[0])? {
                    Ptr::Foreign { var } => var,
                    _ => return err(sp, "`ptr::copy_nonoverlapping`: the source must be a foreign slice"),
                };
                let (x, off) = self.own(args[1])?;
                // the count must be, literally, the length of the source slice
                let ok = match args[2] {
                    syn::Expr::MethodCall(m) if m.method == "len" && m.args.is_empty() && m.turbofish.is_none() => {
                        matches!(&*m.receiver, syn::Expr::Path(p) if p.path.is_ident(&src))
                    }
                    _ => false,
                };
                if !ok {
                    return err(sp, format!("`ptr::copy_nonoverlapping`: the count must be `{}.len()`", src));
                }
                let (cn, cs) = (self.cn(&x), self.cn(&src));
                self.set_cells(&x, format!("write_cells (cells {}) {} {}", cn, off, cs));
                Ok(Some(Val::unit()))
            }
            ("ptr::copy", 3) => {
                self.raw_check(sp)?;
                let (x1, o1) = self.own(args[0])?;
                let (x2, o2) = self.own(args[1])?;
                if x1 != x2 {
                    return err(sp, "`ptr::copy` between two vectors");
                }
                let after = self.assign_log.len();
                let n = self.lower_expr(args[2], Some(&USIZE))?;
                self.no_stale_reads(sp, &[(o1.clone(), after), (o2.clone(), after)])?;
                if n.ty != USIZE {
                    return err(sp, "`ptr::copy`: the count is not a usize");
                }
                let cn = self.cn(&x1);
                self.set_cells(&x1, format!("copy_within (cells {}) {} {} {}", cn, o1, o2, n.t));
                Ok(Some(Val::unit()))
            }
            ("ptr::write_bytes", 3) => {
                self.raw_check(sp)?;
                let (x, off) = self.own(args[0])?;
                let zero = matches!(args[1], syn::Expr::Lit(syn::ExprLit { lit: syn::Lit::Int(i), .. }) if i.base10_digits() == "0" && i.suffix().is_empty());
                if off != "0" || !zero {
                    return err(sp, "`ptr::write_bytes` is only supported as `write_bytes(<base of the buffer>, 0, n)`");
                }
                let n = self.lower_expr(args[2], Some(&USIZE))?;
                if n.ty != USIZE {
                    return err(sp, "`ptr::write_bytes`: the count is not a usize");
                }
                let cn = self.cn(&x);
                self.set_cells(&x, format!("write_zeros (cells {}) {}", cn, n.t));
                Ok(Some(Val::unit()))
            }
            ("slice::from_raw_parts", 2) => {
                self.raw_check(sp)?;
                let (x, off) = self.own(args[0])?;
                if off != "0" {
                    return err(sp, "`slice::from_raw_parts` is only supported at the base of the buffer");
                }
                let n = self.lower_expr(args[1], Some(&USIZE))?;
                if n.ty != USIZE {
                    return err(sp, "`slice::from_raw_parts`: the length is not a usize");
                }
                let t = self.fresh();
                let cn = self.cn(&x);
                self.push(S::Bind(t.clone(), format!("raw_slice (cells {}) {}", cn, n.t)));
                Ok(Some(Val::new(t, Ty::Slice)))
            }
            _ => Ok(None),
        }
    }

    /// rule 28: `Self { length: e, data: [mem::MaybeUninit::uninit(); bigint::BIGINT_LIMBS] }`
    pub fn lower_struct_raw(&mut self, s: &syn::ExprStruct) -> R<Val> {
        self.raw_check(s.span())?;
        if s.rest.is_some() || s.fields.len() != 2 {
            return err(s.span(), "a `StackVec` literal must give exactly `length` and `data`");
        }
        let mut len = None;
        let mut data_ok = false;
        for fv in &s.fields {
            let n = match &fv.member {
                syn::Member::Named(id) => id.to_string(),
                _ => return err(fv.span(), "unnamed field"),
            };
            match n.as_str() {
                "length" => {
                    let v = self.lower_expr(&fv.expr, Some(&Ty::Int(IntTy::U16)))?;
                    if v.ty != Ty::Int(IntTy::U16) {
                        return err(fv.span(), "`length` is a u16");
                    }
                    len = Some(v.t);
                }
                "data" => {
                    // an array of uninitialised cells
                    if let syn::Expr::Repeat(r) = &fv.expr {
                        data_ok = crate::check::text(r) == "[mem :: MaybeUninit :: uninit () ; bigint :: BIGINT_LIMBS]";
                    }
                    if !data_ok {
                        return err(fv.span(), "`data` must be `[mem::MaybeUninit::uninit(); bigint::BIGINT_LIMBS]`");
                    }
                }
                _ => return err(fv.span(), format!("unknown field `{}`", n)),
            }
        }
        match (len, data_ok) {
            (Some(l), true) => {
                self.needs.l = true;
                Ok(Val::new(format!("(mkRaw (repeat None (Z.to_nat (BIGINT_LIMBS L))) {})", l), Ty::Raw))
            }
            _ => err(s.span(), "a `StackVec` literal must give exactly `length` and `data`"),
        }
    }

    /// methods of a raw vector: the translated functions of `impl StackVec` (`self` first)
    pub fn lower_method_raw(&mut self, m: &syn::ExprMethodCall, owner: &str) -> R<Val> {
        let sp = m.span();
        if owner == "StackVec" {
            self.raw_check(sp)?;
        }
        let name = m.method.to_string();
        if name == "as_ptr" || name == "as_mut_ptr" {
            return err(sp, "a raw pointer is only supported as the argument of a `ptr::` / `slice::` primitive or bound by `let`");
        }
        let key = format!("{}::{}", owner, name);
        let fi = match self.g.get_fn(&self.file, &key) {
            Some(f) => f.clone(),
            None if self.g.is_omitted(&self.file, &key) => return err(sp, format!("calls `{}`, which was omitted", key)),
            None => return err(sp, format!("method `{}` is not translated", key)),
        };
        self.needs.union(fi.needs);
        let recv = &*m.receiver;
        let recv_arg: syn::Expr = match fi.self_param {
            Some((_, true)) => syn::parse_quote!(&mut #recv),
            _ => recv.clone(),
        };
        let mut all: Vec<&syn::Expr> = vec![&recv_arg];
        all.extend(m.args.iter());
        self.call_generic(sp, format!("{} {}", fi.coq_name, fi.needs.args()), &fi.all_params(), &fi.ret, true, vec![], &all)
    }

    /// `a..b` as a list (rule 30)
    pub fn lower_range_seq(&mut self, r: &syn::ExprRange) -> R<(String, Ty)> {
        match (&r.start, &r.end, &r.limits) {
            (Some(a), Some(b), syn::RangeLimits::HalfOpen(_)) => {
                let ty = self.ty_of(a).or_else(|| self.ty_of(b)).unwrap_or(USIZE);
                if ty != USIZE {
                    return err(r.span(), "only ranges of usize are supported");
                }
                let va = self.lower_pure(a, Some(&USIZE))?;
                let vb = self.lower_pure(b, Some(&USIZE))?;
                if va.ty != USIZE || vb.ty != USIZE {
                    return err(r.span(), "only ranges of usize are supported");
                }
                Ok((format!("(zrange {} {})", va.t, vb.t), USIZE))
            }
            _ => err(r.span(), "only `a..b` ranges are supported as a loop source"),
        }
    }
}

/// the path of a call, with `Self::` resolved
pub fn raw_call_key(cx: &Cx, p: &syn::Path) -> String {
    let s = path_str(p);
    match (s.strip_prefix("Self::"), cx.self_kind.as_deref()) {
        (Some(rest), Some("StackVec")) => format!("StackVec::{}", rest),
        (Some(rest), Some("HeapVec")) => format!("HeapVec::{}", rest),
        _ => s,
    }
}
