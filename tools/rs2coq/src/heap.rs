//! Heap mode (rule 31): the wrappers of heapvec.rs over `std::vec::Vec`, whose methods are the
//! library primitives of model/SrcLibHeap.v (`std_push`, `std_pop`, ..) on the record `vec` of
//! model/Vec.v.
use crate::emit::S;
use crate::lower::*;
use crate::ty::*;
use syn::spanned::Spanned;

const U64: Ty = Ty::Int(IntTy::U64);
const USIZE: Ty = Ty::Int(IntTy::Usize);

impl<'a> Cx<'a> {
    fn heap_check(&self, sp: proc_macro2::Span) -> R<()> {
        match &self.g.heapvec_ok {
            Ok(()) => Ok(()),
            Err(m) => err(sp, m),
        }
    }

    /// `Vec::with_capacity(n)`.  `Ok(None)`: not a primitive of this mode.
    pub fn lower_call_heap(&mut self, sp: proc_macro2::Span, s: &str, args: &[&syn::Expr]) -> R<Option<Val>> {
        match (s, args.len()) {
            ("Vec::with_capacity", 1) => {
                self.heap_check(sp)?;
                let n = self.lower_expr(args[0], Some(&USIZE))?;
                if n.ty != USIZE {
                    return err(sp, "`Vec::with_capacity`: the capacity is not a usize");
                }
                Ok(Some(Val::new(format!("(std_with_capacity {})", n.t), Ty::StdVec)))
            }
            _ => Ok(None),
        }
    }

    /// `Self { data: e }`: `HeapVec` is its single field
    pub fn lower_struct_heap(&mut self, s: &syn::ExprStruct) -> R<Val> {
        self.heap_check(s.span())?;
        if s.rest.is_some() || s.fields.len() != 1 {
            return err(s.span(), "a `HeapVec` literal must give exactly `data`");
        }
        let fv = &s.fields[0];
        match &fv.member {
            syn::Member::Named(id) if id == "data" => {}
            _ => return err(fv.span(), "a `HeapVec` literal must give exactly `data`"),
        }
        let v = self.lower_expr(&fv.expr, Some(&Ty::StdVec))?;
        if v.ty != Ty::StdVec {
            return err(fv.span(), format!("field `data` : Vec<Limb> initialised with {}", v.ty));
        }
        Ok(Val::new(v.t, Ty::Hv))
    }

    /// the `HeapVec` variable whose field `data` the receiver is
    fn std_place(&self, e: &syn::Expr) -> R<(String, String)> {
        if let syn::Expr::Field(f) = e {
            if matches!(&f.member, syn::Member::Named(id) if id == "data") {
                if let Ok(Place::Var(x)) = self.place_of(&f.base) {
                    if let Some((_, v)) = self.lookup(&x) {
                        if v.ty == Ty::Hv {
                            return Ok((x.clone(), v.cname.clone()));
                        }
                    }
                }
            }
        }
        err(e.span(), "a `Vec` method on something other than the field `data` of a `HeapVec` variable")
    }

    /// rule 31: the methods of `std::vec::Vec` that heapvec.rs calls
    pub fn lower_method_std(&mut self, m: &syn::ExprMethodCall) -> R<Val> {
        let sp = m.span();
        self.heap_check(sp)?;
        if m.turbofish.is_some() {
            return err(sp, "turbofish on a `Vec` method");
        }
        let name = m.method.to_string();
        let args: Vec<&syn::Expr> = m.args.iter().collect();
        let (x, cn) = self.std_place(&m.receiver)?;
        let lower_args = |cx: &mut Self, want: &[Ty]| -> R<Vec<String>> {
            if args.len() != want.len() {
                return err(sp, "wrong number of arguments");
            }
            let mut ops = vec![(cn.clone(), cx.assign_log.len())];
            let mut ts = vec![];
            for (a, w) in args.iter().zip(want.iter()) {
                let v = cx.lower_expr(crate::expr::strip_ref(a), Some(w))?;
                let v = cx.coerce(v, w);
                if v.ty != *w {
                    return err(a.span(), format!("argument of type {} where {} is expected", v.ty, w));
                }
                ops.push((v.t.clone(), cx.assign_log.len()));
                ts.push(v.t);
            }
            cx.no_stale_reads(sp, &ops)?;
            Ok(ts)
        };
        match name.as_str() {
            "len" => {
                lower_args(self, &[])?;
                Ok(Val::new(format!("(vlen {})", cn), USIZE))
            }
            "capacity" => {
                lower_args(self, &[])?;
                Ok(Val::new(format!("(vcap {})", cn), USIZE))
            }
            "push" => {
                let ts = lower_args(self, &[U64])?;
                self.push(S::Let(cn.clone(), format!("(std_push {} {})", cn, ts[0])));
                self.mark_assigned(&x);
                Ok(Val::unit())
            }
            "pop" => {
                lower_args(self, &[])?;
                let t = self.fresh();
                self.push(S::Let(format!("'({}, {})", t, cn), format!("std_pop {}", cn)));
                self.mark_assigned(&x);
                Ok(Val::new(t, Ty::Opt(Box::new(U64))))
            }
            "extend_from_slice" => {
                let ts = lower_args(self, &[Ty::Slice])?;
                self.push(S::Let(cn.clone(), format!("(std_extend {} {})", cn, ts[0])));
                self.mark_assigned(&x);
                Ok(Val::unit())
            }
            "resize" => {
                let ts = lower_args(self, &[USIZE, U64])?;
                self.push(S::Let(cn.clone(), format!("(std_resize {} {} {})", cn, ts[0], ts[1])));
                self.mark_assigned(&x);
                Ok(Val::unit())
            }
            "set_len" => {
                let ts = lower_args(self, &[USIZE])?;
                self.push(S::Bind(cn.clone(), format!("std_set_len {} {}", cn, ts[0])));
                self.mark_assigned(&x);
                Ok(Val::unit())
            }
            _ => err(sp, format!("`Vec::{}` is not one of the std methods that rule 31 gives", name)),
        }
    }
}
