//! Vectors, slices, iterators (rules 14, 17, 18) and method delegation (rule 22).
use crate::emit::S;
use crate::expr::{path_str, strip_ref};
use crate::lower::*;
use crate::ty::*;
use syn::spanned::Spanned;

const U64: Ty = Ty::Int(IntTy::U64);
const USIZE: Ty = Ty::Int(IntTy::Usize);

// ---------------------------------------------------------------------- delegation (rule 22)

/// an argument of the delegating call: the receiver (`self`, `&self`, `&self.data`, ..) or the
/// i-th parameter
#[derive(Clone, Debug, PartialEq)]
pub enum DArg {
    /// `data`: the field `.data` of a `Bigint` receiver is taken
    SelfVal { data: bool },
    Param(usize),
}

/// the body of a delegating method: one call
#[derive(Clone, Debug)]
pub enum DExpr {
    /// `path(args)`
    Call(String, Vec<DArg>),
    /// `recv.method(args)`
    Method(DArg, String, Vec<DArg>),
    /// `Self { data: e }`
    Wrap(Box<DExpr>),
}

#[derive(Clone, Debug)]
pub struct Deleg {
    /// None: no receiver; Some(m): `&self` (false) / `&mut self` (true)
    pub self_mut: Option<bool>,
    pub nparams: usize,
    pub body: DExpr,
    /// declared result type
    pub ret: Option<Ty>,
}

impl DExpr {
    fn args_in_order(&self, out: &mut Vec<DArg>) {
        match self {
            DExpr::Call(_, a) => out.extend(a.iter().cloned()),
            DExpr::Method(r, _, a) => {
                out.push(r.clone());
                out.extend(a.iter().cloned());
            }
            DExpr::Wrap(e) => e.args_in_order(out),
        }
    }
    /// normal form used to compare the two vector back-ends
    pub fn show(&self) -> String {
        let arg = |a: &DArg| match a {
            DArg::SelfVal { data } => format!("self{}", if *data { ".data" } else { "" }),
            DArg::Param(i) => format!("${}", i),
        };
        match self {
            DExpr::Call(p, a) => format!("{}({})", p, a.iter().map(arg).collect::<Vec<_>>().join(", ")),
            DExpr::Method(r, m, a) => format!("{}.{}({})", arg(r), m, a.iter().map(arg).collect::<Vec<_>>().join(", ")),
            DExpr::Wrap(e) => format!("Self {{ data: {} }}", e.show()),
        }
    }
}

/// Is the method the single delegating call that rule 22 assumes?  `vec_like`: the impl is one of
/// the vector back-ends, whose `self` / `&self.data` both denote the vector.
pub fn deleg_of(sig: &syn::Signature, body: &syn::Block, vec_like: bool) -> Result<Deleg, String> {
    let mut self_mut = None;
    let mut params: Vec<String> = vec![];
    for inp in &sig.inputs {
        match inp {
            syn::FnArg::Receiver(r) => self_mut = Some(r.mutability.is_some() && r.reference.is_some()),
            syn::FnArg::Typed(pt) => match &*pt.pat {
                syn::Pat::Ident(pi) => params.push(pi.ident.to_string()),
                _ => return Err("parameter pattern".into()),
            },
        }
    }
    let e = match body.stmts.as_slice() {
        [syn::Stmt::Expr(e, None)] => e,
        _ => return Err("the body is not a single expression".into()),
    };
    fn arg(e: &syn::Expr, params: &[String], vec_like: bool) -> Result<DArg, String> {
        match e {
            syn::Expr::Reference(r) => arg(&r.expr, params, vec_like),
            syn::Expr::Paren(p) => arg(&p.expr, params, vec_like),
            syn::Expr::Path(p) if p.path.is_ident("self") => Ok(DArg::SelfVal { data: false }),
            syn::Expr::Path(p) if p.path.get_ident().is_some() => {
                let n = p.path.get_ident().unwrap().to_string();
                match params.iter().position(|x| *x == n) {
                    Some(i) => Ok(DArg::Param(i)),
                    None => Err(format!("argument `{}` is not a parameter", n)),
                }
            }
            syn::Expr::Field(f) => match (&*f.base, &f.member) {
                (syn::Expr::Path(p), syn::Member::Named(id)) if p.path.is_ident("self") && id == "data" => {
                    Ok(DArg::SelfVal { data: !vec_like })
                }
                _ => Err("unsupported argument".into()),
            },
            _ => Err("unsupported argument".into()),
        }
    }
    fn dexpr(e: &syn::Expr, params: &[String], vec_like: bool) -> Result<DExpr, String> {
        match e {
            syn::Expr::Paren(p) => dexpr(&p.expr, params, vec_like),
            syn::Expr::Call(c) => {
                let p = match &*c.func {
                    syn::Expr::Path(p) => path_str(&p.path),
                    _ => return Err("call of a non-path".into()),
                };
                let mut a = vec![];
                for x in &c.args {
                    a.push(arg(x, params, vec_like)?);
                }
                Ok(DExpr::Call(p, a))
            }
            syn::Expr::MethodCall(m) => {
                let r = arg(&m.receiver, params, vec_like)?;
                let mut a = vec![];
                for x in &m.args {
                    a.push(arg(x, params, vec_like)?);
                }
                Ok(DExpr::Method(r, m.method.to_string(), a))
            }
            syn::Expr::Struct(s) if !vec_like && s.path.is_ident("Self") && s.rest.is_none() && s.fields.len() == 1 => {
                let fv = &s.fields[0];
                match &fv.member {
                    syn::Member::Named(id) if id == "data" => Ok(DExpr::Wrap(Box::new(dexpr(&fv.expr, params, vec_like)?))),
                    _ => Err("struct literal other than `Self { data: .. }`".into()),
                }
            }
            _ => Err("the body is not a single delegating call".into()),
        }
    }
    let d = dexpr(e, &params, vec_like)?;
    // the receiver first, then every parameter exactly once, in order: substituting the actual
    // arguments keeps Rust's evaluation order
    let mut got = vec![];
    d.args_in_order(&mut got);
    let mut want: Vec<DArg> = vec![];
    if self_mut.is_some() {
        match got.first() {
            Some(DArg::SelfVal { .. }) => want.push(got[0].clone()),
            _ => return Err("the receiver is not the first argument of the delegating call".into()),
        }
    }
    want.extend((0..params.len()).map(DArg::Param));
    if got != want {
        return Err("the delegating call does not pass the receiver and the parameters exactly once, in order".into());
    }
    Ok(Deleg { self_mut, nparams: params.len(), body: d, ret: None })
}

impl Deleg {
    /// the call with the actual receiver / arguments substituted
    pub fn instantiate(&self, recv: Option<&syn::Expr>, args: &[&syn::Expr]) -> syn::Expr {
        let self_mut = self.self_mut == Some(true);
        let arg = |a: &DArg, call_position: bool| -> syn::Expr {
            match a {
                DArg::Param(i) => args[*i].clone(),
                DArg::SelfVal { data } => {
                    let r = recv.unwrap();
                    let r: syn::Expr = if *data { syn::parse_quote!((#r).data) } else { syn::parse_quote!((#r)) };
                    if self_mut && call_position {
                        syn::parse_quote!(&mut #r)
                    } else {
                        r
                    }
                }
            }
        };
        fn go(d: &DExpr, arg: &dyn Fn(&DArg, bool) -> syn::Expr) -> syn::Expr {
            match d {
                DExpr::Call(p, a) => {
                    let path: syn::Path = syn::parse_str(p).unwrap();
                    let a: Vec<syn::Expr> = a.iter().map(|x| arg(x, true)).collect();
                    syn::parse_quote!(#path(#(#a),*))
                }
                DExpr::Method(r, m, a) => {
                    let r = arg(r, false);
                    let m = syn::Ident::new(m, proc_macro2::Span::call_site());
                    let a: Vec<syn::Expr> = a.iter().map(|x| arg(x, true)).collect();
                    syn::parse_quote!(#r.#m(#(#a),*))
                }
                DExpr::Wrap(e) => {
                    let e = go(e, arg);
                    syn::parse_quote!(Bigint { data: #e })
                }
            }
        }
        go(&self.body, &arg)
    }
}

// ---------------------------------------------------------------------- lowering

impl<'a> Cx<'a> {
    fn limb_check(&self, sp: proc_macro2::Span) -> R<()> {
        match &self.g.limb_ok {
            Ok(()) => Ok(()),
            Err(m) => err(sp, m),
        }
    }

    /// deref coercions: `&VecType -> &[Limb]` = `vl`, a table is a slice
    pub fn coerce(&self, v: Val, want: &Ty) -> Val {
        match (&v.ty, want) {
            (Ty::Vec, Ty::Slice) => Val::new(format!("(vl {})", v.t), Ty::Slice),
            // rule 31: `&self.data` (a `Vec<Limb>`) as a slice
            (Ty::StdVec, Ty::Slice) => Val::new(format!("(vl {})", v.t), Ty::Slice),
            (Ty::Table, Ty::Slice) => Val::new(v.t, Ty::Slice),
            _ => v,
        }
    }

    /// value of a constant integer expression: literals, casts of them, immutable locals bound to
    /// a literal (rule 21)
    pub fn const_eval(&self, e: &syn::Expr) -> Option<u128> {
        match e {
            syn::Expr::Paren(p) => self.const_eval(&p.expr),
            syn::Expr::Group(p) => self.const_eval(&p.expr),
            syn::Expr::Lit(syn::ExprLit { lit: syn::Lit::Int(i), .. }) => i.base10_parse::<u128>().ok(),
            syn::Expr::Cast(c) => {
                let v = self.const_eval(&c.expr)?;
                match self.conv_ty(&c.ty).ok()? {
                    Ty::Int(t) if !t.signed() && (t.bits() == 128 || v < (1u128 << t.bits())) => Some(v),
                    Ty::Int(t) if t.signed() && v < (1u128 << (t.bits() - 1)) => Some(v),
                    _ => None,
                }
            }
            syn::Expr::Path(p) => {
                let id = p.path.get_ident()?;
                self.lookup(&id.to_string())?.1.konst
            }
            _ => None,
        }
    }

    pub fn deleg_ret_ty(&self, recv: &Ty, name: &str) -> Option<Ty> {
        let key = format!("{}::{}", if *recv == Ty::Big { "Bigint" } else { "VecType" }, name);
        if let Some(f) = self.g.get_fn(&self.file, &key) {
            return Some(f.ret.clone());
        }
        match self.g.deleg.get(&key) {
            Some(Ok(d)) => d.ret.clone(),
            _ => None,
        }
    }

    /// call of a delegating method / associated function (rule 22)
    pub fn lower_deleg(
        &mut self,
        sp: proc_macro2::Span,
        key: &str,
        recv: Option<&syn::Expr>,
        args: &[&syn::Expr],
        expected: Option<&Ty>,
    ) -> R<Val> {
        self.limb_check(sp)?;
        let g = self.g;
        let d = match g.deleg.get(key) {
            Some(Ok(d)) => d,
            Some(Err(e)) => return err(sp, format!("`{}` is not a delegating method ({})", key, e)),
            None => return err(sp, format!("unknown method `{}`", key)),
        };
        if d.nparams != args.len() || d.self_mut.is_some() != recv.is_some() {
            return err(sp, format!("wrong number of arguments for `{}`", key));
        }
        if self.macro_depth >= 16 {
            return err(sp, "delegation too deep");
        }
        let e = d.instantiate(recv, args);
        self.macro_depth += 1;
        let r = self.lower_expr(&e, expected);
        self.macro_depth -= 1;
        r.map_err(|m| format!("line {}:{}: in the delegating method `{}`: {}", sp.start().line, sp.start().column + 1, key, m))
    }

    /// `let xi = x.get_mut(i).unwrap();` (rule 18): `xi` aliases `x[i]`
    pub fn try_lower_alias(&mut self, pat: &syn::Pat, init: &syn::Expr) -> R<Option<()>> {
        let m = match init {
            syn::Expr::MethodCall(m) if m.method == "unwrap" && m.args.is_empty() => m,
            _ => return Ok(None),
        };
        let g = match &*m.receiver {
            syn::Expr::MethodCall(g) if g.method == "get_mut" && g.args.len() == 1 => g,
            _ => return Ok(None),
        };
        let name = match pat {
            syn::Pat::Ident(pi) if pi.by_ref.is_none() && pi.subpat.is_none() && pi.mutability.is_none() => pi.ident.to_string(),
            _ => return err(pat.span(), "`get_mut(..).unwrap()` must be bound to a plain identifier"),
        };
        let x = match self.place_of(&g.receiver)? {
            Place::Var(x) => x,
            _ => return err(g.receiver.span(), "`get_mut` on something other than a vector variable"),
        };
        let vx = match self.lookup(&x) {
            Some((_, v)) if v.ty == Ty::Vec => v.clone(),
            _ => return err(g.receiver.span(), "`get_mut` on something other than a vector variable"),
        };
        self.limb_check(init.span())?;
        let i = self.lower_expr(&g.args[0], Some(&USIZE))?;
        if i.ty != USIZE {
            return err(g.args[0].span(), "index is not a usize");
        }
        // the index is evaluated once; it must stay valid while the alias lives
        let idx = if i.t.chars().all(|c| c.is_alphanumeric() || c == '_' || c == '\'') && i.t.starts_with('t') || is_numeral(&i.t) {
            i.t.clone()
        } else {
            let t = self.fresh();
            self.push(S::Let(t.clone(), i.t.clone()));
            t
        };
        // `.unwrap()` of `get_mut`: outside the vector => panic
        self.push(S::Bind("_".into(), format!("unwrap (slice_get_opt (vl {}) {})", vx.cname, idx)));
        let cn = self.declare(pat.span(), &name, U64, false)?;
        let _ = cn;
        self.lookup_mut(&name).unwrap().alias = Some((x, idx));
        Ok(Some(()))
    }

    /// `x[i]`, `x[..n]` on vectors, slices and reverse views (rule 18)
    pub fn lower_index(&mut self, ix: &syn::ExprIndex) -> R<Val> {
        let base = self.lower_recv(&ix.expr, None)?;
        if base.ty != Ty::Bytes {
            self.limb_check(ix.span())?;
        }
        if let syn::Expr::Range(r) = &*ix.index {
            // `&s[..n]` (slice_to), `&s[n..]` (slice_from: byte slices only, rule 24)
            let (bound, op) = match (&r.start, &r.end, &r.limits) {
                (None, Some(e), syn::RangeLimits::HalfOpen(_)) => (e, "slice_to"),
                (Some(e), None, syn::RangeLimits::HalfOpen(_)) if base.ty == Ty::Bytes => (e, "slice_from"),
                _ => return err(ix.span(), "only `[..n]` (and `[n..]` on byte slices) ranges are supported"),
            };
            let (l, rty) = match base.ty {
                Ty::Slice => (base.t.clone(), Ty::Slice),
                Ty::Bytes => (base.t.clone(), Ty::Bytes),
                Ty::Vec => (format!("(vl {})", base.t), Ty::Slice),
                t => return err(ix.span(), format!("range index on a value of type {}", t)),
            };
            let after_base = self.assign_log.len();
            let n = self.lower_expr(bound, Some(&USIZE))?;
            self.no_stale_reads(ix.span(), &[(base.t.clone(), after_base)])?;
            if n.ty != USIZE {
                return err(ix.span(), "range bound is not a usize");
            }
            let t = self.fresh();
            self.push(S::Bind(t.clone(), format!("{} {} {}", op, l, n.t)));
            return Ok(Val::new(t, rty));
        }
        let after_base = self.assign_log.len();
        let i = self.lower_expr(&ix.index, Some(&USIZE))?;
        self.no_stale_reads(ix.span(), &[(base.t.clone(), after_base)])?;
        if i.ty != USIZE {
            return err(ix.span(), "index is not a usize");
        }
        match base.ty {
            Ty::Slice => {
                let t = self.fresh();
                self.push(S::Bind(t.clone(), format!("slice_get {} {}", base.t, i.t)));
                Ok(Val::new(t, U64))
            }
            Ty::Bytes => {
                let t = self.fresh();
                self.push(S::Bind(t.clone(), format!("slice_get {} {}", base.t, i.t)));
                Ok(Val::new(t, Ty::Int(IntTy::U8)))
            }
            Ty::Vec => {
                let t = self.fresh();
                self.push(S::Bind(t.clone(), format!("vec_get {} {}", base.t, i.t)));
                Ok(Val::new(t, U64))
            }
            Ty::RView => {
                // `impl ops::Index<usize> for ReverseView`
                let fi = match self.g.get_fn(&self.file, "ReverseView::index") {
                    Some(f) => f.clone(),
                    None => return err(ix.span(), "calls `ReverseView::index`, which was omitted"),
                };
                self.needs.union(fi.needs);
                let t = self.fresh();
                self.push(S::Bind(t.clone(), format!("{} {} {} {}", fi.coq_name, fi.needs.args(), base.t, i.t)));
                Ok(Val::new(t, U64))
            }
            t => err(ix.span(), format!("indexing a value of type {}", t)),
        }
    }

    /// the variable behind a vector-valued receiver / `&mut` argument (`x`, `*x`, `x.data`)
    fn vec_place(&self, e: &syn::Expr) -> R<(String, Var)> {
        match self.place_of(strip_ref(e))? {
            Place::Var(x) => match self.lookup(&x) {
                Some((_, v)) if matches!(v.ty, Ty::Vec | Ty::Big) => Ok((x.clone(), v.clone())),
                _ => err(e.span(), "the receiver is not a vector variable"),
            },
            _ => err(e.span(), "the receiver is not a vector variable"),
        }
    }

    /// Methods of the types of rules 14-22.  `Ok(None)`: not one of them.
    pub fn lower_method_ext(&mut self, m: &syn::ExprMethodCall, expected: Option<&Ty>) -> R<Option<Val>> {
        let sp = m.span();
        let name = m.method.to_string();
        let args: Vec<&syn::Expr> = m.args.iter().collect();
        // ---- `.unwrap()`
        if name == "unwrap" && args.is_empty() {
            let v = self.lower_recv(&m.receiver, None)?;
            return match &v.ty {
                Ty::OptUpd => {
                    let pats: Vec<String> = v.upd.iter().map(|x| self.cn(x)).collect();
                    self.push(S::Bind(crate::emit::tuple_pat(&pats), format!("unwrap {}", v.t)));
                    for x in &v.upd {
                        self.mark_assigned(x);
                    }
                    Ok(Some(Val::unit()))
                }
                Ty::Opt(t) => {
                    let r = self.fresh();
                    self.push(S::Bind(r.clone(), format!("unwrap {}", v.t)));
                    Ok(Some(Val::new(r, (**t).clone())))
                }
                t => err(sp, format!("`unwrap()` on a value of type {}", t)),
            };
        }
        // ---- rule 25: `.is_some()`, `.is_none()`, `.map_or(d, |p| pure)` on an Option
        if (name == "is_some" || name == "is_none") && args.is_empty() {
            let v = self.lower_recv(&m.receiver, None)?;
            return match &v.ty {
                Ty::Opt(_) => {
                    let (a, b) = if name == "is_some" { ("true", "false") } else { ("false", "true") };
                    Ok(Some(Val::new(format!("(match {} with Some _ => {} | None => {} end)", v.t, a, b), Ty::Bool)))
                }
                t => err(sp, format!("`{}()` on a value of type {}", name, t)),
            };
        }
        if name == "map_or" && args.len() == 2 {
            let v = self.lower_recv(&m.receiver, None)?;
            let inner = match &v.ty {
                Ty::Opt(t) => (**t).clone(),
                t => return err(sp, format!("`map_or` on a value of type {}", t)),
            };
            let after_v = self.assign_log.len();
            let d = self.lower_expr(args[0], expected)?;
            self.no_stale_reads(sp, &[(v.t.clone(), after_v)])?;
            let c = match args[1] {
                syn::Expr::Closure(c) if c.inputs.len() == 1 => c,
                a => return err(a.span(), "`map_or` needs a one-parameter closure"),
            };
            let pb = self.elem_pattern(&c.inputs[0], &inner)?;
            self.push_pat_scope(&pb);
            let body = self.lower_pure_lets(&c.body, Some(&d.ty));
            self.scopes.pop();
            let body = body?;
            if body.ty != d.ty {
                return err(c.body.span(), format!("the closure of `map_or` returns {} but the default is {}", body.ty, d.ty));
            }
            let pat = pb.pat.trim_start_matches('\'').to_string();
            return Ok(Some(Val::new(format!("(match {} with Some {} => {} | None => {} end)", v.t, pat, body.t, d.t), d.ty)));
        }
        // ---- rule 25: `(c as char).to_digit(10)` on a u8
        if name == "to_digit" && args.len() == 1 {
            if let syn::Expr::Cast(c) = strip_ref(&m.receiver) {
                let is_char = matches!(&*c.ty, syn::Type::Path(p) if p.path.is_ident("char"));
                let radix10 = matches!(args[0], syn::Expr::Lit(syn::ExprLit { lit: syn::Lit::Int(i), .. }) if i.base10_digits() == "10" && i.suffix().is_empty());
                if is_char && radix10 {
                    let v = self.lower_expr(&c.expr, Some(&Ty::Int(IntTy::U8)))?;
                    if v.ty != Ty::Int(IntTy::U8) {
                        return err(sp, format!("`as char` of a value of type {}", v.ty));
                    }
                    return Ok(Some(Val::new(format!("(u8_to_digit10 {})", v.t), Ty::Opt(Box::new(Ty::Int(IntTy::U32))))));
                }
            }
            return err(sp, "`to_digit` is only supported as `(c as char).to_digit(10)` with `c: u8`");
        }
        // ---- rule 25: `e.take_while(|p| pure).count()`
        if name == "count" && args.is_empty() {
            if let syn::Expr::MethodCall(tw) = &*m.receiver {
                if tw.method == "take_while" && tw.args.len() == 1 {
                    let (l, ety) = self.lower_seq(&tw.receiver)?;
                    let c = match &tw.args[0] {
                        syn::Expr::Closure(c) if c.inputs.len() == 1 => c,
                        a => return err(a.span(), "`take_while` needs a one-parameter closure"),
                    };
                    if ety != Ty::Int(IntTy::U8) && ety != U64 {
                        return err(sp, "`take_while(..).count()` is only supported on integer items");
                    }
                    let pb = self.elem_pattern(&c.inputs[0], &ety)?;
                    self.push_pat_scope(&pb);
                    let body = self.lower_pure_lets(&c.body, Some(&Ty::Bool));
                    self.scopes.pop();
                    let body = body?;
                    if body.ty != Ty::Bool {
                        return err(c.body.span(), "the closure of `take_while` must return a bool");
                    }
                    return Ok(Some(Val::new(format!("(take_while_count (fun {} => {}) {})", pb.pat, body.t, l), USIZE)));
                }
            }
        }
        // ---- `.any(|x| pure)` on an iterator expression
        if name == "any" && args.len() == 1 {
            // `Iterator::any` takes `&mut self`: on a variable it would advance it (C-ANY)
            self.seq_temp_only = true;
            let r = self.lower_seq(&m.receiver);
            self.seq_temp_only = false;
            let (l, ety) = r?;
            let c = match args[0] {
                syn::Expr::Closure(c) if c.inputs.len() == 1 => c,
                a => return err(a.span(), "`any` needs a one-parameter closure"),
            };
            let pb = self.elem_pattern(&c.inputs[0], &ety)?;
            self.push_pat_scope(&pb);
            let body = self.lower_pure(&c.body, Some(&Ty::Bool));
            self.scopes.pop();
            let body = body?;
            if body.ty != Ty::Bool {
                return err(c.body.span(), "the closure of `any` must return a bool");
            }
            return Ok(Some(Val::new(format!("(existsb (fun {} => {}) {})", pb.pat, body.t, l), Ty::Bool)));
        }
        // ---- iterator adaptors (rule 17): the value is the list of the remaining items
        if matches!(name.as_str(), "iter" | "rev" | "zip" | "enumerate" | "skip") {
            let whole = syn::Expr::MethodCall(m.clone());
            let (t, ty) = self.lower_seq(&whole)?;
            return Ok(Some(Val::new(t, Ty::Seq(Box::new(ty)))));
        }
        let rty = match self.ty_of(&m.receiver) {
            Some(t) => t,
            None => return Ok(None),
        };
        if rty == Ty::Raw {
            return Ok(Some(self.lower_method_raw(m, "StackVec")?));
        }
        if rty == Ty::Hv {
            return Ok(Some(self.lower_method_raw(m, "HeapVec")?));
        }
        if rty == Ty::StdVec {
            return Ok(Some(self.lower_method_std(m)?));
        }
        let noargs = |n: usize| -> R<()> {
            if n != 0 {
                err(sp, "method takes no argument")
            } else {
                Ok(())
            }
        };
        match (&rty, name.as_str()) {
            // ---- integers
            (Ty::Int(_), "cmp") if args.len() == 1 => {
                let a = self.lower_recv(&m.receiver, Some(&rty))?;
                let after_a = self.assign_log.len();
                let b = self.lower_expr(strip_ref(args[0]), Some(&rty))?;
                self.no_stale_reads(sp, &[(a.t.clone(), after_a)])?;
                if a.ty != b.ty {
                    return err(sp, format!("`cmp` of {} with {}", a.ty, b.ty));
                }
                Ok(Some(Val::new(format!("(Z.compare {} {})", a.t, b.t), Ty::Ordering)))
            }
            (Ty::Int(t), "pow") if args.len() == 1 => {
                // rule 21: constant operands, evaluated here (unsigned types only)
                let (b, e) = match (self.const_eval(&m.receiver), self.const_eval(args[0])) {
                    (Some(b), Some(e)) if !t.signed() => (b, e),
                    _ => return err(sp, "`pow` is only supported on constant operands of an unsigned type"),
                };
                let e32 = match u32::try_from(e) {
                    Ok(x) => x,
                    Err(_) => return err(sp, "`pow`: the exponent is not a u32"),
                };
                match b.checked_pow(e32) {
                    Some(v) if t.bits() == 128 || v < (1u128 << t.bits()) => Ok(Some(Val::new(v.to_string(), rty.clone()))),
                    _ => err(sp, "`pow` of constants overflows its type"),
                }
            }
            // ---- iterators (rule 17)
            (Ty::Seq(it), "next") => {
                noargs(args.len())?;
                let x = match self.place_of(&m.receiver)? {
                    Place::Var(x) => x,
                    _ => return err(sp, "`next()` on something other than an iterator variable"),
                };
                let cn = self.cn(&x);
                let t = self.fresh();
                self.push(S::Let(format!("'({}, {})", t, cn), format!("iter_next {}", cn)));
                self.mark_assigned(&x);
                Ok(Some(Val::new(t, Ty::Opt(it.clone()))))
            }
            (Ty::Seq(_), "count") => {
                noargs(args.len())?;
                let (l, _) = self.lower_seq(&m.receiver)?;
                Ok(Some(Val::new(format!("(zlen {})", l), USIZE)))
            }
            (Ty::Seq(_), "clone") => {
                noargs(args.len())?;
                let (l, _) = self.lower_seq(&m.receiver)?;
                Ok(Some(Val::new(l, rty.clone())))
            }
            // ---- slices
            (Ty::Bytes, "len") => {
                noargs(args.len())?;
                let r = self.lower_recv(&m.receiver, None)?;
                Ok(Some(Val::new(format!("(zlen {})", r.t), USIZE)))
            }
            (Ty::Bytes, "is_empty") => {
                noargs(args.len())?;
                let r = self.lower_recv(&m.receiver, None)?;
                Ok(Some(Val::new(format!("(zlen {} =? 0)", r.t), Ty::Bool)))
            }
            (Ty::Bytes, "get") if args.len() == 1 => {
                let r = self.lower_recv(&m.receiver, None)?;
                let after_r = self.assign_log.len();
                let i = self.lower_expr(args[0], Some(&USIZE))?;
                self.no_stale_reads(sp, &[(r.t.clone(), after_r)])?;
                if i.ty != USIZE {
                    return err(sp, "index is not a usize");
                }
                Ok(Some(Val::new(format!("(slice_get_opt {} {})", r.t, i.t), Ty::Opt(Box::new(Ty::Int(IntTy::U8))))))
            }
            (Ty::Bytes, "first") => {
                noargs(args.len())?;
                let r = self.lower_recv(&m.receiver, None)?;
                Ok(Some(Val::new(format!("(hd_error {})", r.t), Ty::Opt(Box::new(Ty::Int(IntTy::U8))))))
            }
            (Ty::Slice, "len") => {
                noargs(args.len())?;
                let r = self.lower_recv(&m.receiver, None)?;
                Ok(Some(Val::new(format!("(zlen {})", r.t), USIZE)))
            }
            (Ty::Slice, "is_empty") => {
                noargs(args.len())?;
                let r = self.lower_recv(&m.receiver, None)?;
                Ok(Some(Val::new(format!("(zlen {} =? 0)", r.t), Ty::Bool)))
            }
            (Ty::Slice, "get") | (Ty::Vec, "get") if args.len() == 1 => {
                let r = self.lower_recv(&m.receiver, None)?;
                let after_r = self.assign_log.len();
                let r = self.coerce(r, &Ty::Slice);
                let i = self.lower_expr(args[0], Some(&USIZE))?;
                self.no_stale_reads(sp, &[(r.t.clone(), after_r)])?;
                if i.ty != USIZE {
                    return err(sp, "index is not a usize");
                }
                Ok(Some(Val::new(format!("(slice_get_opt {} {})", r.t, i.t), Ty::Opt(Box::new(U64)))))
            }
            // ---- vectors: the operations of model/Vec.v and SrcLib.v
            (Ty::Vec, "len") | (Ty::Vec, "capacity") | (Ty::Vec, "is_empty") => {
                noargs(args.len())?;
                self.limb_check(sp)?;
                let r = self.lower_recv(&m.receiver, None)?;
                Ok(Some(match name.as_str() {
                    "len" => Val::new(format!("(vlen {})", r.t), USIZE),
                    "capacity" => Val::new(format!("(vcap {})", r.t), USIZE),
                    _ => Val::new(format!("(vlen {} =? 0)", r.t), Ty::Bool),
                }))
            }
            (Ty::Vec, "try_push") | (Ty::Vec, "try_resize") => {
                self.limb_check(sp)?;
                let (x, vx) = self.vec_place(&m.receiver)?;
                let want: &[Ty] = if name == "try_push" { &[U64] } else { &[USIZE, U64] };
                if args.len() != want.len() {
                    return err(sp, "wrong number of arguments");
                }
                let mut ts = vec![];
                let mut ops = vec![(vx.cname.clone(), self.assign_log.len())];
                for (a, w) in args.iter().zip(want.iter()) {
                    let v = self.lower_expr(a, Some(w))?;
                    if v.ty != *w {
                        return err(a.span(), format!("argument of type {} where {} is expected", v.ty, w));
                    }
                    ops.push((v.t.clone(), self.assign_log.len()));
                    ts.push(v.t);
                }
                self.no_stale_reads(sp, &ops)?;
                self.needs.c = true;
                let mut v = Val::new(format!("({} (alloc c) {} {})", name, vx.cname, ts.join(" ")), Ty::OptUpd);
                v.upd = vec![x];
                Ok(Some(v))
            }
            (Ty::Vec, "set_len") if args.len() == 1 => {
                self.limb_check(sp)?;
                let (x, vx) = self.vec_place(&m.receiver)?;
                let n = self.lower_expr(args[0], Some(&USIZE))?;
                if n.ty != USIZE {
                    return err(sp, "length is not a usize");
                }
                self.push(S::Bind(vx.cname.clone(), format!("vec_set_len {} {}", vx.cname, n.t)));
                self.mark_assigned(&x);
                Ok(Some(Val::unit()))
            }
            (Ty::Vec, "iter_mut") | (Ty::Vec, "get_mut") => {
                err(sp, format!("`{}()` is only supported as a loop source / in `let xi = x.get_mut(i).unwrap()`", name))
            }
            // ---- delegation (rule 22) and the translated methods of `impl Bigint`
            (Ty::Vec, _) | (Ty::Big, _) => {
                let key = format!("{}::{}", if rty == Ty::Big { "Bigint" } else { "VecType" }, name);
                if let Some(fi) = self.g.get_fn(&self.file, &key).cloned() {
                    // a translated method: `self` is the first argument
                    self.needs.union(fi.needs);
                    let recv = &*m.receiver;
                    let recv_arg: syn::Expr = match fi.self_param {
                        Some((_, true)) => syn::parse_quote!(&mut #recv),
                        _ => recv.clone(),
                    };
                    let mut all: Vec<&syn::Expr> = vec![&recv_arg];
                    all.extend(args.iter().cloned());
                    let v = self.call_generic(sp, format!("{} {}", fi.coq_name, fi.needs.args()), &fi.all_params(), &fi.ret, true, vec![], &all)?;
                    return Ok(Some(v));
                }
                if self.g.is_omitted(&self.file, &key) {
                    return err(sp, format!("calls `{}`, which was omitted", key));
                }
                Ok(Some(self.lower_deleg(sp, &key, Some(&m.receiver), &args, expected)?))
            }
            _ => Ok(None),
        }
    }

    /// associated functions of the vector types, `Number::default`, and the functions given by
    /// name (rule 23).  `Ok(None)`: not one of them.
    pub fn lower_call_ext(&mut self, sp: proc_macro2::Span, s: &str, args: &[&syn::Expr], expected: Option<&Ty>) -> R<Option<Val>> {
        match s {
            "VecType::new" if args.is_empty() => {
                self.limb_check(sp)?;
                self.needs.l = true;
                Ok(Some(Val::new("(vnew L)", Ty::Vec)))
            }
            "VecType::try_from" if args.len() == 1 => {
                self.limb_check(sp)?;
                let v = self.lower_expr(strip_ref(args[0]), Some(&Ty::Slice))?;
                let v = self.coerce(v, &Ty::Slice);
                if v.ty != Ty::Slice {
                    return err(sp, format!("`try_from` of a value of type {}", v.ty));
                }
                self.needs.c = true;
                self.needs.l = true;
                Ok(Some(Val::new(format!("(try_from (alloc c) L {})", v.t), Ty::Opt(Box::new(Ty::Vec)))))
            }
            "VecType::from_u64" | "Bigint::new" | "Bigint::from_u64" => Ok(Some(self.lower_deleg(sp, s, None, args, expected)?)),
            // rule 27: the crate's exported `parse_float` is parse.rs's (lib.rs checked)
            "minimal_lexical::parse_float" => {
                if !self.g.export_parse_float {
                    return err(sp, "lib.rs does not say `pub use self::parse::parse_float;`");
                }
                let fi = match self.g.get_fn("parse.rs", "parse_float") {
                    Some(f) => f.clone(),
                    None => return err(sp, "calls `parse_float` of parse.rs, which was omitted"),
                };
                self.needs.union(fi.needs);
                let v = self.call_generic(sp, format!("{} {}", fi.coq_name, fi.needs.args()), &fi.params, &fi.ret, true, vec![], args)?;
                Ok(Some(v))
            }
            "Number::default" if args.is_empty() => {
                if !self.g.number_default {
                    return err(sp, "`Number` does not derive `Default`");
                }
                Ok(Some(Val::new("(mkNumber 0 0 false)", Ty::Num)))
            }
            // rule 23: raw pointer code, given as SrcLib's rs_shl_limbs
            "shl_limbs" => {
                self.limb_check(sp)?;
                if !self.g.shl_limbs_ok || self.file != "bigint.rs" {
                    return err(sp, "`shl_limbs` is not the function of bigint.rs that rule 23 gives");
                }
                let v = self.call_generic(sp, "rs_shl_limbs b".into(), &[(Ty::Vec, true), (USIZE, false)], &Ty::Opt(Box::new(Ty::Unit)), true, vec![], args)?;
                Ok(Some(v))
            }
            _ => Ok(None),
        }
    }
}
