#!/bin/bash
# Regenerate /verif/coq/gen/Src.v from the Rust source with the rs2coq translator.
#
#   tools/rs2coq/run.sh                 translate $RS2COQ_SRC (default /repo/src) into
#                                       $RS2COQ_OUT (default /verif/coq/gen/Src.v)
# Environment:
#   RS2COQ_SRC   directory holding mask.rs, num.rs, lemire.rs, ...   (default /repo/src)
#   RS2COQ_OUT   output file                                        (default /verif/coq/gen/Src.v)
# The output file is only rewritten when its content changes (so `make` does not rebuild
# needlessly).  A function that cannot be translated (construct outside the supported subset) is
# OMITTED from the output, together with its callers; the line `rs2coq: omitted: <names|none>` is
# echoed, and the proofs that mention an omitted definition stop compiling (fail closed per
# theorem).  Exit status: 0 ok (possibly with omissions); 1 build failure; 2 a source file is
# missing / unparsable or a declaration the translator relies on changed (output left untouched).
set -u
HERE="$(cd "$(dirname "$0")" && pwd)"
SRC="${RS2COQ_SRC:-/repo/src}"
OUT="${RS2COQ_OUT:-/verif/coq/gen/Src.v}"
export CARGO_TARGET_DIR=/verif/.cache/rs2coq-target
export CARGO_NET_OFFLINE=true
mkdir -p "$CARGO_TARGET_DIR"
if ! ( cd "$HERE" && timeout 900 cargo build --offline --release -q ) > "$CARGO_TARGET_DIR/build.log" 2>&1; then
  cat "$CARGO_TARGET_DIR/build.log" >&2
  echo "rs2coq/run.sh: building the translator failed" >&2
  exit 1
fi
TMP="$(mktemp "${TMPDIR:-/tmp}/Src.v.XXXXXX")"
trap 'rm -f "$TMP"' EXIT
ERR="$(mktemp "${TMPDIR:-/tmp}/Src.err.XXXXXX")"
trap 'rm -f "$TMP" "$ERR"' EXIT
timeout 120 "$CARGO_TARGET_DIR/release/rs2coq" "$SRC" > "$TMP" 2> "$ERR"
rc=$?
grep -v '^rs2coq: omitted:' "$ERR" >&2
grep '^rs2coq: omitted:' "$ERR"
if [ $rc -ne 0 ]; then
  echo "rs2coq/run.sh: translation of $SRC FAILED (exit $rc); $OUT left untouched" >&2
  exit $rc
fi
if [ -f "$OUT" ] && cmp -s "$TMP" "$OUT"; then
  echo "rs2coq/run.sh: $OUT is up to date"
else
  mkdir -p "$(dirname "$OUT")"
  cp "$TMP" "$OUT.tmp.$$" && mv -f "$OUT.tmp.$$" "$OUT"
  echo "rs2coq/run.sh: wrote $OUT"
fi
