#!/bin/bash
# Regenerate the Gallina translation of the Rust source with the rs2coq translator:
#   gen/Src.v  gen/SrcBigint.v  gen/SrcSlow.v  gen/SrcParse.v        (the library, $RS2COQ_SRC)
#   gen/SrcFrontSimple.v  SrcFrontFuzz.v  SrcFrontTest.v  SrcFrontEtc.v  SrcFrontRng.v  SrcFrontRand.v
#   gen/SrcFrontUnit.v   (the shipped string
#       front-ends, read below $RS2COQ_SRC/..; a missing one only yields OMITTED comments)
#   gen/SrcStackVec.v   (the unsafe vector back-end stackvec.rs over the cells of model/RawVec.v)
#   gen/SrcHeapVec.v    (the wrappers of heapvec.rs over the std `Vec` primitives of model/SrcLibHeap.v)
#
#   tools/rs2coq/run.sh [OUT_DIR]       translate $RS2COQ_SRC (default /repo/src) into OUT_DIR
#                                       (default: $RS2COQ_OUT_DIR, else /verif/coq/gen)
# Environment:
#   RS2COQ_SRC      directory holding mask.rs, num.rs, lemire.rs, bigint.rs, ...  (default /repo/src)
#   RS2COQ_OUT_DIR  output directory                                          (default /verif/coq/gen)
#   RS2COQ_OUT      old interface: ONLY Src.v is generated, into this file (the one-argument CLI
#                   of the binary; used by selftest.sh)
#   RS2COQ_TARGET   cargo target directory                     (default /verif/.cache/rs2coq-target)
# The first line printed is `rs2coq/run.sh: source directory <dir> -> <where the output goes>`.
# Each output file is only rewritten when its content changes (so `make` does not rebuild
# needlessly).  A function that cannot be translated (construct outside the supported subset) is
# OMITTED from the output, together with its callers; the line `rs2coq: omitted: <names|none>` is
# echoed, and the proofs that mention an omitted definition stop compiling (fail closed per
# theorem).  Exit status: 0 ok (possibly with omissions); 1 build failure; 2 a source file is
# missing / unparsable or a declaration the translator relies on changed (outputs left untouched).
set -u
HERE="$(cd "$(dirname "$0")" && pwd)"
SRC="${RS2COQ_SRC:-/repo/src}"
OUT_DIR="${1:-${RS2COQ_OUT_DIR:-/verif/coq/gen}}"
# the first output line names the tree that is translated and where the result goes (an RS2COQ_SRC /
# RS2COQ_OUT_DIR / RS2COQ_OUT inherited from the caller's environment must not go unnoticed)
if [ -n "${RS2COQ_OUT:-}" ] && [ $# -eq 0 ]; then
  echo "rs2coq/run.sh: source directory $SRC -> $RS2COQ_OUT (Src.v only)"
else
  echo "rs2coq/run.sh: source directory $SRC -> $OUT_DIR"
fi
export CARGO_TARGET_DIR="${RS2COQ_TARGET:-/verif/.cache/rs2coq-target}"
export CARGO_NET_OFFLINE=true
mkdir -p "$CARGO_TARGET_DIR"
if ! ( cd "$HERE" && timeout 900 cargo build --offline --release -q ) > "$CARGO_TARGET_DIR/build.log" 2>&1; then
  cat "$CARGO_TARGET_DIR/build.log" >&2
  echo "rs2coq/run.sh: building the translator failed" >&2
  exit 1
fi
BIN="$CARGO_TARGET_DIR/release/rs2coq"
TMP="$(mktemp -d "${TMPDIR:-/tmp}/rs2coq.XXXXXX")"
trap 'rm -rf "$TMP"' EXIT

# install $1 as $2 unless $2 already has that content
install_if_changed() {
  if [ -f "$2" ] && cmp -s "$1" "$2"; then
    echo "rs2coq/run.sh: $2 is up to date"
  else
    mkdir -p "$(dirname "$2")"
    cp "$1" "$2.tmp.$$" && mv -f "$2.tmp.$$" "$2"
    echo "rs2coq/run.sh: wrote $2"
  fi
}

report() {  # $1 = stderr file of the translator
  grep -v '^rs2coq: omitted:' "$1" >&2
  grep '^rs2coq: omitted:' "$1"
}

if [ -n "${RS2COQ_OUT:-}" ] && [ $# -eq 0 ]; then
  # old interface: Src.v only
  timeout 120 "$BIN" "$SRC" > "$TMP/Src.v" 2> "$TMP/err"
  rc=$?
  report "$TMP/err"
  if [ $rc -ne 0 ]; then
    echo "rs2coq/run.sh: translation of $SRC FAILED (exit $rc); $RS2COQ_OUT left untouched" >&2
    exit $rc
  fi
  install_if_changed "$TMP/Src.v" "$RS2COQ_OUT"
  exit 0
fi

FILES="Src.v SrcBigint.v SrcSlow.v SrcParse.v SrcFrontSimple.v SrcFrontFuzz.v SrcFrontTest.v SrcFrontEtc.v SrcStackVec.v SrcHeapVec.v SrcFrontRng.v SrcFrontRand.v SrcFrontUnit.v"
mkdir -p "$TMP/out"
timeout 120 "$BIN" "$SRC" "$TMP/out" 2> "$TMP/err"
rc=$?
report "$TMP/err"
if [ $rc -ne 0 ]; then
  echo "rs2coq/run.sh: translation of $SRC FAILED (exit $rc); $OUT_DIR left untouched" >&2
  exit $rc
fi
for f in $FILES; do
  if [ ! -s "$TMP/out/$f" ]; then
    echo "rs2coq/run.sh: the translator did not produce $f; $OUT_DIR left untouched" >&2
    exit 2
  fi
done
for f in $FILES; do
  install_if_changed "$TMP/out/$f" "$OUT_DIR/$f"
done
