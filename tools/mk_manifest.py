#!/usr/bin/env python3
"""Writes /verif/MANIFEST.json and /verif/levels.json from the table below (one source of truth
for the level each check claims)."""
import json

PROOF_AX = ("Coq 8.16.1 kernel incl. vm_compute (no native_compute); axioms per theorem as Print Assumptions "
            "reports them, parsed on every run against the allow-list {Classical_Prop.classic, "
            "ClassicalDedekindReals.sig_forall_dec, ClassicalDedekindReals.sig_not_dec, "
            "FunctionalExtensionality.functional_extensionality_dep} (stdlib axioms Flocq's reals use); "
            "data translator harness/dump + tools/gen_coq.py; hand-written Gallina model tied to /repo by the "
            "correspondence harness (Rust runner vs extracted OCaml model, ExtrOcamlBasic only) - that tie is "
            "differential testing, not proof; rustc/LLVM/hardware IEEE arithmetic modelled, not verified.")

# id -> (category, technique, text, note)
P = {
 'C01': ('other', 'Coq theorems on a Gallina model of parse_float + model/code correspondence + exact-oracle search',
         "Partial proof. Proved in Coq (props/C01.v): the meaning of the oracle RN (Flocq round-to-nearest-even on FLT), "
         "parse_number's value bracket, the shift-and-round primitive (C18), big-integer exactness (C12), table exactness (C14). "
         "Not yet proved: soundness of Eisel-Lemire/Bellerophon and the slow-path comparison, so the end-to-end theorem is not closed; "
         "those stages are attacked on every run by directed generators (exact midpoints, closest approaches, fallback witnesses) against "
         "the exact rational oracle on all 8 configurations x 2 build modes, and the model is diffed against the code.", PROOF_AX),
 'C02': ('other', 'Coq theorems on a Gallina model of parse_float + model/code correspondence + exact-oracle search',
         "As C01 for binary32; the model computes f32 directly (no f64 detour) and the correspondence pins the code to it, "
         "incl. fast-path fence posts at 2^24+-1.", PROOF_AX),
 'C03': ('other', 'Coq theorems about RN (fixed points) + correspondence on Rust-rendered floats',
         "Spec-level theorems about RN in Coq (finite floats are fixed points of RN) + differential run of shortest / 9-17 digit / exact "
         "renderings produced by Rust's own formatter; end-to-end inherits the open parts of C01/C02.", PROOF_AX),
 'C04': ('other', 'Coq model with explicit Panic outcomes + correspondence in release and checked builds',
         "The model makes every overflow check, debug assertion, unwrap and index an explicit Panic outcome; no closed no-panic theorem yet. "
         "The check runs valid inputs (lengths to 10^6 in thorough, exponents to the i32 limits) on release and "
         "debug-assertions+overflow-checks builds of all 8 configurations and diffs against the model.", PROOF_AX),
 'C05': ('other', 'cross-configuration differential on the real code + Coq model per configuration',
         "All 8 configurations of the real code are run on the same inputs and compared bit for bit (this found the compact defect, now fixed); "
         "Coq: table/on-demand power equality across configurations (C14).", PROOF_AX),
 'C06': ('other', 'Coq theorems on digit truncation + correspondence with deep-digit generators',
         "parse_number bracket theorem (digits beyond the 19th only move the value inside [w,w+1)) proved; the 768-digit bound is checked "
         "on the regenerated MAX_DIGITS; deep-digit ties / 9-tails / trailing zeros at depths 20..10^6 run against the exact oracle.", PROOF_AX),
 'C07': ('other', 'Coq theorems on saturation and rounding thresholds + correspondence at range ends',
         "Proved: shift-and-round incl. subnormals/overflow (C18). Directed cases at 2^-1075, 2^-1074, 2^-1022, 2^1024-2^970, "
         "i32 limit exponents with compensating digit strings, zero significands.", PROOF_AX),
 'C08': ('other', 'Coq model with explicit UB outcomes for unchecked sites + unsafe-site inventory + garbage-byte differential',
         "Partial by nature: the model returns UB when an unchecked index/raw write leaves its side condition; arbitrary bytes are run through "
         "model and code (outcome class and value), the unsafe-site inventory of /repo/src is diffed against the one the model was written "
         "against; Miri in the thorough tier. Machine-level memory behaviour is observed, not proved.", PROOF_AX),
 'C09': ('other', 'Coq: RN monotone (spec level) + ordered-pair differential on the real code',
         "Monotonicity of the oracle proved in Coq from Flocq; adjacent pairs across every algorithm switch-over are compared on the real code directly.", PROOF_AX),
 'C10': ('other', 'Coq: RN invariant under equal rationals + re-splitting differential',
         "All re-splittings of a digit sequence with compensating exponent and appended zeros must give identical bits on every configuration; "
         "model diffed against code.", PROOF_AX),
 'C11': ('other', 'Coq model of both moderate stages + refinement correspondence + number-theoretic search',
         "No closed soundness theorem yet for Eisel-Lemire/Bellerophon; per-q table facts proved (C14). The stage is called directly on "
         "closest approaches, algebraic ties, all-ones fallback witnesses for every q and judged against exact rationals; correspondence is "
         "refinement (impl may decline more).", PROOF_AX),
 'C12': ('other', 'Coq induction over limb lists (value of result = operation on naturals) + limb-for-limb correspondence',
         "Theorems in props/C12.v over the list-of-limbs model; both back-ends run on carry-chain patterns at and one limb past capacity.", PROOF_AX),
 'C13': ('other', 'Coq refinement of the vector model to a bounded sequence over all histories + history correspondence',
         "Step-wise refinement lifted to all operation histories by induction (fold_left); histories with fill/shrink/regrow phases run on "
         "StackVec and HeapVec and compared step by step.", PROOF_AX),
 'C14': ('proof', 'Coq: vm_compute over the regenerated tables (finite domain, forallb lifted by forallb_forall)',
         "Every table entry and on-demand power is re-dumped from the compiled crate on every run, translated to Coq and checked against its "
         "mathematical definition by the kernel (8 closed theorems, no axioms). Finite domain, so this is a proof about the data the code uses.",
         "Coq kernel + vm_compute; the dump tool and gen_coq.py (translator); libm/std pow are executed on their complete reachable argument set, not modelled."),
 'C15': ('other', 'counting global allocator + nm on the rlib + allocation-construct inventory',
         "Partial by nature: allocation is a runtime effect. Counting allocator around every call in all non-alloc builds, symbol check of the "
         "compiled library, inventory of allocation-capable constructs tied to the model's storage selection.", PROOF_AX),
 'C16': ('other', 'Coq model is a function of the byte lists by construction + iterator-shape / history / thread differential',
         "Partial by nature: a Gallina function cannot depend on addresses or schedules; the check feeds every input through 10 iterator "
         "shapes, stack-poisoning histories and 16 threads on the real code and compares bit for bit.", PROOF_AX),
 'C17': ('other', 'Coq theorems over all bit patterns of the regenerated format constants + correspondence',
         "Field helpers proved for every bit pattern (props/C17.v), constants regenerated from the compiled crate; all 2^32 f32 patterns on the "
         "real code in the thorough tier.", PROOF_AX),
 'C18': ('other', 'Coq theorem linking the rounding primitive to Flocq round-to-nearest-even + correspondence on every exponent',
         "round + round_nearest_tie_even proved equal to the Z-level nearest-even shift for all significands/exponents in range (props/C18.v).", PROOF_AX),
 'C19': ('other', 'Coq theorems on the lexer model + correspondence on the four shipped front-end copies',
         "Lexer decomposition / exponent saturation theorems; the repository's own front-end files are compiled into the harness (not transcribed) "
         "and diffed against the model on grammar-derived and arbitrary byte strings.", PROOF_AX),
}

THOROUGH_NOTE = {}

def main():
    checks = []
    levels = {}
    for pid in sorted(P):
        cat, tech, text, note = P[pid]
        checks.append({
            'property_id': pid,
            'quick_cmd': './check %s' % pid,
            'thorough_cmd': './check %s --tier thorough' % pid,
            'evidence_file': '/verif/evidence/%s.json' % pid,
            'replay_cmd_template': './check %s --replay {path}' % pid,
            'engine': 'coq+correspondence',
            'level_claimed': {'category': cat, 'text': text, 'design_ref': 'DESIGN.md section 6 (%s), section 13 (status)' % pid},
            'level_note': note,
            'technique': tech,
        })
        levels[pid] = {'level': cat, 'assumptions': [note], 'explanation': text}
    man = {
        'version': 1,
        'setup_cmd': 'tools/setup.sh',
        'hooks': {
            'guard': 'cargo feature "verif" of minimal-lexical',
            'enable': 'harness/Cargo.toml depends on minimal-lexical with features = ["verif"] (path = /repo)',
            'baseline_off_cmd': 'cd /repo && cargo test --workspace --no-fail-fast --offline',
            'source_commits': ['532fcbf'],
            'add_only': True,
        },
        'engines': [{
            'name': 'coq+correspondence', 'path': '/verif/coq, /verif/harness, /verif/ocaml, /verif/tools',
            'serves_properties': sorted(P),
            'kind_free_text': 'Coq 8.16.1 + Flocq development (regenerated data, hand-written executable model, theorems per property) '
                              'tied to /repo by a Rust/OCaml correspondence harness with directed generators',
        }],
        'checks': checks,
        'not_applicable': [],
        'notes': 'fix commits in /repo: 3e9833d (Bellerophon truncation error), 720588a (HeapVec::set_len assert); see KNOWN_FINDINGS and DESIGN.md 7/13.',
    }
    json.dump(man, open('/verif/MANIFEST.json', 'w'), indent=1)
    json.dump(levels, open('/verif/levels.json', 'w'), indent=1)
    print('wrote MANIFEST.json (%d checks)' % len(checks))

if __name__ == '__main__':
    main()
