#!/usr/bin/env python3
"""Writes /verif/MANIFEST.json and /verif/levels.json from the table below (one source of truth
for the level each check claims)."""
import json

PROOF_AX = ("Coq 8.16.1 kernel incl. vm_compute (no native_compute); axioms per theorem as Print Assumptions "
            "reports them, parsed on every run against the allow-list {Classical_Prop.classic, "
            "ClassicalDedekindReals.sig_forall_dec, ClassicalDedekindReals.sig_not_dec, "
            "FunctionalExtensionality.functional_extensionality_dep} (stdlib axioms Flocq's reals use); "
            "data translator harness/dump + tools/gen_coq.py; hand-written Gallina model tied to /repo by the "
            "correspondence harness (Rust runner vs extracted OCaml model, ExtrOcamlBasic only) - that tie is "
            "differential testing, not proof; rustc/LLVM/hardware IEEE arithmetic modelled, not verified.")

# id -> (category, technique, text, note)
P = {
 'C01': ('other', 'Coq theorems on a Gallina model of parse_float + model/code correspondence + exact-oracle search',
         "Partial proof. Proved in Coq (props/C01.v): the meaning of the oracle RN (Flocq round-to-nearest-even on FLT), "
         "parse_number's value bracket, the shift-and-round primitive (C18), big-integer exactness (C12), table exactness (C14). "
         "Not yet proved: soundness of Eisel-Lemire/Bellerophon and the slow-path comparison, so the end-to-end theorem is not closed; "
         "those stages are attacked on every run by directed generators (exact midpoints, closest approaches, fallback witnesses) against "
         "the exact rational oracle on all 8 configurations x 2 build modes, and the model is diffed against the code.", PROOF_AX),
 'C02': ('other', 'Coq theorems on a Gallina model of parse_float + model/code correspondence + exact-oracle search',
         "As C01 for binary32; the model computes f32 directly (no f64 detour) and the correspondence pins the code to it, "
         "incl. fast-path fence posts at 2^24+-1.", PROOF_AX),
 'C03': ('other', 'Coq theorems about RN (fixed points) + correspondence on Rust-rendered floats',
         "Spec-level theorems about RN in Coq (finite floats are fixed points of RN) + differential run of shortest / 9-17 digit / exact "
         "renderings produced by Rust's own formatter; end-to-end inherits the open parts of C01/C02.", PROOF_AX),
 'C04': ('other', 'Coq model with explicit Panic outcomes + correspondence in release and checked builds',
         "The model makes every overflow check, debug assertion, unwrap and index an explicit Panic outcome; no closed no-panic theorem yet. "
         "The check runs valid inputs (lengths to 10^6 in thorough, exponents to the i32 limits) on release and "
         "debug-assertions+overflow-checks builds of all 8 configurations and diffs against the model.", PROOF_AX),
 'C05': ('other', 'cross-configuration differential on the real code + Coq model per configuration',
         "All 8 configurations of the real code are run on the same inputs and compared bit for bit (this found the compact defect, now fixed); "
         "Coq: table/on-demand power equality across configurations (C14).", PROOF_AX),
 'C06': ('other', 'Coq theorems on digit truncation + correspondence with deep-digit generators',
         "parse_number bracket theorem (digits beyond the 19th only move the value inside [w,w+1)) proved; the 768-digit bound is checked "
         "on the regenerated MAX_DIGITS; deep-digit ties / 9-tails / trailing zeros at depths 20..10^6 run against the exact oracle.", PROOF_AX),
 'C07': ('other', 'Coq theorems on saturation and rounding thresholds + correspondence at range ends',
         "Proved: shift-and-round incl. subnormals/overflow (C18). Directed cases at 2^-1075, 2^-1074, 2^-1022, 2^1024-2^970, "
         "i32 limit exponents with compensating digit strings, zero significands.", PROOF_AX),
 'C08': ('other', 'Coq model with explicit UB outcomes for unchecked sites + unsafe-site inventory + garbage-byte differential',
         "Partial by nature: the model returns UB when an unchecked index/raw write leaves its side condition; arbitrary bytes are run through "
         "model and code (outcome class and value), the unsafe-site inventory of /repo/src is diffed against the one the model was written "
         "against; Miri in the thorough tier. Machine-level memory behaviour is observed, not proved.", PROOF_AX),
 'C09': ('other', 'Coq: RN monotone (spec level) + ordered-pair differential on the real code',
         "Monotonicity of the oracle proved in Coq from Flocq; adjacent pairs across every algorithm switch-over are compared on the real code directly.", PROOF_AX),
 'C10': ('other', 'Coq: RN invariant under equal rationals + re-splitting differential',
         "All re-splittings of a digit sequence with compensating exponent and appended zeros must give identical bits on every configuration; "
         "model diffed against code.", PROOF_AX),
 'C11': ('other', 'Coq model of both moderate stages + refinement correspondence + number-theoretic search',
         "No closed soundness theorem yet for Eisel-Lemire/Bellerophon; per-q table facts proved (C14). The stage is called directly on "
         "closest approaches, algebraic ties, all-ones fallback witnesses for every q and judged against exact rationals; correspondence is "
         "refinement (impl may decline more).", PROOF_AX),
 'C12': ('proof', 'Coq: induction over limb lists - value of the result = the operation on naturals, None <-> result does not fit (37 theorems) + limb-for-limb correspondence on both back-ends',
         "Closed theorems (props/C12.v, no axioms) over the list-of-limbs model for every operation the property lists: small add/mul, large add, long/large mul, pow by 5/10 (135/27/table decomposition, on the regenerated tables, compact and non-compact), shifts, compare, normalise, bit length, hi64 + sticky flag, from_u64; for the fixed-capacity back-end failure is reported exactly when B64^62 <= exact result (normalised operands), and the state left behind by a failed small op is characterised. Hold for arbitrary build mode. The model is tied to the code by running both on carry-chain patterns at and one limb past capacity, both back-ends, release and checked builds, and against Python integers.", PROOF_AX),
 'C13': ('proof', 'Coq: refinement of a cell-level model of StackVec (62 MaybeUninit cells + u16 length, raw writes/copies/set_len with UB outcomes) to a bounded sequence, lifted to all histories by induction + history correspondence of both models with the code',
         "Closed theorems (props/C13.v, no axioms): every operation of the safe API from a state satisfying the invariant (len <= 62, prefix initialised) returns Ok (never UB), preserves the invariant and yields the output and contents of the reference sequence; failed push/extend/resize leave the state unchanged; lifted to all finite histories from new() (fold over the op list), both build modes; eq/cmp agree with numeric comparison for normalised operands. The cell-level model itself is extracted and replayed against the real StackVec on every run (contents after every step), the list-level model against StackVec and HeapVec. Arbitrary-limb, arbitrary-length histories; the heap vector is covered at list level (never fails).", PROOF_AX),
 'C14': ('proof', 'Coq: vm_compute over the regenerated tables (finite domain, forallb lifted by forallb_forall)',
         "Every table entry and on-demand power is re-dumped from the compiled crate on every run, translated to Coq and checked against its "
         "mathematical definition by the kernel (8 closed theorems, no axioms). Finite domain, so this is a proof about the data the code uses.",
         "Coq kernel + vm_compute; the dump tool and gen_coq.py (translator); libm/std pow are executed on their complete reachable argument set, not modelled."),
 'C15': ('other', 'counting global allocator + nm on the rlib + allocation-construct inventory',
         "Partial by nature: allocation is a runtime effect. Counting allocator around every call in all non-alloc builds, symbol check of the "
         "compiled library, inventory of allocation-capable constructs tied to the model's storage selection.", PROOF_AX),
 'C16': ('other', 'Coq model is a function of the byte lists by construction + iterator-shape / history / thread differential',
         "Partial by nature: a Gallina function cannot depend on addresses or schedules; the check feeds every input through 10 iterator "
         "shapes, stack-poisoning histories and 16 threads on the real code and compares bit for bit.", PROOF_AX),
 'C17': ('proof', 'Coq: theorems generic in the format record under a boolean side condition discharged on the regenerated F32/F64 constants (25 theorems, all bit patterns) + agreement with the IEEE-754 decoder of Flocq + correspondence',
         "Closed theorems (props/C17.v) for every bit pattern 0 <= x < 2^fbits (no enumeration: generic in the format, side condition fmt_ok computed on the constants dumped from the compiled crate): subnormal detection, exponent(), mantissa(), mantissa*2^exponent = magnitude (as the decoded SpecFloat value, and as Flocq B2R of Flocq's own binary_float_of_bits), to_bits/from_bits lossless, packing (biased exponent, fraction) incl. the overlapping hidden bit, b / b+h, order of patterns = order of values. Both build modes. Code tied by L1f correspondence (all 2^32 f32 patterns in the thorough tier).", PROOF_AX),
 'C18': ('proof', 'Coq: closed form of round / round_nearest_tie_even / round_down over Z, then equality with Flocq round-to-nearest-even (and Zfloor) on FLT and with the oracle RN, for all significands and exponents in range (20 theorems) + correspondence on every exponent',
         "Theorems (props/C18.v): for every significand in [2^63,2^64), every biased exponent in [-63,2^30] (covers [-63,2100]/[-63,320]), any build mode: round + round_nearest_tie_even never panics and its packed result equals RN f (significand*2^(exp-bias)) [C18_round_nearest_RN], equals Flocq round ZnearestE / SpecFloat.binary_normalize, incl. subnormals, promotion to the smallest normal, carry, overflow; truncating variant = Flocq Zfloor rounding below 2^emax and the infinity fields from 2^emax on (this deviation from 'largest float not above' is KNOWN_FINDINGS F3, proved as C18_round_down_correct); mask helpers for all widths 0..64. Format constants are the regenerated ones via rfmt_ok. Code tied by L1r correspondence on every exponent x 10-40 significand patterns.", PROOF_AX),
 'C19': ('other', 'Coq theorems on the lexer model + correspondence on the four shipped front-end copies',
         "Lexer decomposition / exponent saturation theorems; the repository's own front-end files are compiled into the harness (not transcribed) "
         "and diffed against the model on grammar-derived and arbitrary byte strings.", PROOF_AX),
}

THOROUGH_NOTE = {}

def main():
    checks = []
    levels = {}
    for pid in sorted(P):
        cat, tech, text, note = P[pid]
        checks.append({
            'property_id': pid,
            'quick_cmd': './check %s' % pid,
            'thorough_cmd': './check %s --tier thorough' % pid,
            'evidence_file': '/verif/evidence/%s.json' % pid,
            'replay_cmd_template': './check %s --replay {path}' % pid,
            'engine': 'coq+correspondence',
            'level_claimed': {'category': cat, 'text': text, 'design_ref': 'DESIGN.md section 6 (%s), section 13 (status)' % pid},
            'level_note': note,
            'technique': tech,
        })
        levels[pid] = {'level': cat, 'assumptions': [note], 'explanation': text}
    man = {
        'version': 1,
        'setup_cmd': 'tools/setup.sh',
        'hooks': {
            'guard': 'cargo feature "verif" of minimal-lexical',
            'enable': 'harness/Cargo.toml depends on minimal-lexical with features = ["verif"] (path = /repo)',
            'baseline_off_cmd': 'cd /repo && cargo test --workspace --no-fail-fast --offline',
            'source_commits': ['532fcbf'],
            'add_only': True,
        },
        'engines': [{
            'name': 'coq+correspondence', 'path': '/verif/coq, /verif/harness, /verif/ocaml, /verif/tools',
            'serves_properties': sorted(P),
            'kind_free_text': 'Coq 8.16.1 + Flocq development (regenerated data, hand-written executable model, theorems per property) '
                              'tied to /repo by a Rust/OCaml correspondence harness with directed generators',
        }],
        'checks': checks,
        'not_applicable': [],
        'notes': 'fix commits in /repo: 3e9833d (Bellerophon truncation error), 720588a (HeapVec::set_len assert); see KNOWN_FINDINGS and DESIGN.md 7/13.',
    }
    json.dump(man, open('/verif/MANIFEST.json', 'w'), indent=1)
    json.dump(levels, open('/verif/levels.json', 'w'), indent=1)
    print('wrote MANIFEST.json (%d checks)' % len(checks))

if __name__ == '__main__':
    main()
