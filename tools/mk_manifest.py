#!/usr/bin/env python3
"""Writes /verif/MANIFEST.json and /verif/levels.json from the table below (one source of truth
for the level each check claims)."""
import json

PROOF_AX = ("Coq 8.16.1 kernel incl. vm_compute (no native_compute); axioms per theorem as Print Assumptions "
            "reports them, parsed on every run against the allow-list {Classical_Prop.classic, "
            "ClassicalDedekindReals.sig_forall_dec, ClassicalDedekindReals.sig_not_dec, "
            "FunctionalExtensionality.functional_extensionality_dep} (stdlib axioms Flocq's reals use); "
            "data translator harness/dump + tools/gen_coq.py; source translator tools/rs2coq (Rust subset -> Gallina, 27 rules, "
            "regenerates coq/gen/Src*.v from /repo/src and the four front-end files on every run, fails closed per function on constructs "
            "outside its subset) together with the hand-written library coq/model/SrcLib.v + SrcLibFront.v (loop combinators, slice / iterator / "
            "vector primitives; the vector primitives are model/Vec.v's, tied at cell level by C13); its output for EVERY function that parse_float "
            "executes (mask, extended_float, rounding, num, number, lemire, bellerophon, slow, bigint, parse: 66 definitions) and for the four "
            "shipped front-end copies is PROVED equal to the hand-written model (proofs/SrcEq*.v) and composed into rs_parse_float_correct "
            "(proofs/SrcFinal.v); the unsafe stack vector stackvec.rs is translated at cell level (raw pointers as accesses to a 62-cell buffer with explicit UB) and proved equal to the hand-written cell-level model (proofs/SrcEqStackVec.v, C13); the wrapper functions of heapvec.rs are translated with std::vec::Vec's methods given by model/SrcLibHeap.v and coincide with the heap case of model/Vec.v (proofs/SrcEqHeapVec.v); NOT translated: "
            "libm.rs and the tables (dumped from the compiled crate and executed exhaustively); the correspondence harness (Rust runner vs "
            "extracted OCaml model, ExtrOcamlBasic only) runs the same model against the compiled code - that tie is "
            "differential testing, not proof; rustc/LLVM/hardware IEEE arithmetic modelled, not verified.")

# id -> (category, technique, text, note)
E2E = ("Main theorem parse_float_correct (coq/proofs/EndToEnd6.v; props/C01.v): for all 8 shipped configurations, f32 and f64, "
       "release and debug-assertion+overflow-check build modes, every valid input of at most 2^28 digits and EVERY i32 exponent, "
       "the Gallina model of parse_float returns Ok (RN f (exact decimal value)), RN = Flocq round-to-nearest-even on the FLT format "
       "of the regenerated constants, +inf from 2^emax. Unconditional for the 4 compact (Bellerophon) configurations. For the 4 "
       "Eisel-Lemire configurations %s "
       "Composed from: parse_number closed form; fast path = Flocq Bmult/Bdiv; Eisel-Lemire soundness for every (w,q) "
       "(integers only, no axioms, incl. the 'no unrefined false tie' fact proved by modular inverses on the regenerated table); "
       "Bellerophon forward error analysis; declined-estimate lemmas; big-integer slow path (parse_mantissa, the 768-digit "
       "truncation argument, positive/negative digit comparison, 62-limb capacity); final rounding; saturated exponents. ")
DEEP_OPEN = ("one residual premise remains (deep_ok: a declined estimate never has a biased exponent below -64; it can only fail if "
             "compute_float's all-ones fallback fired on a value below 2^(femin-2)); it is stated explicitly in every theorem, is not "
             "needed without debug assertions, and is attacked by the directed search of the check (all-ones fallback witnesses for every q).")
DEEP_CLOSED = ("the one intermediate premise (a declined estimate never has a biased exponent below -64) is discharged by no_deep_fallback: "
               "a Euclid-like modular search written in Gallina, proved sound, run by the kernel's VM over every deep (q, lz) instance of both formats on the "
               "regenerated table (coq/proofs/DeepFallback*.v); so the theorem is unconditional for all 8 configurations (coq/proofs/Final.v).")
import os
DEEP = DEEP_CLOSED if os.path.exists('/verif/coq/proofs/.deep_closed') else DEEP_OPEN
E2E = E2E % DEEP
E2E_CAT = 'proof' if os.path.exists('/verif/coq/proofs/.deep_closed') else 'other'
TIE = ("The model is tied to /repo on every run: constants/tables/on-demand powers are re-dumped from the compiled crate and the "
       "proofs re-checked against them; EVERY function parse_float executes (parse.rs, number.rs, lemire.rs, bellerophon.rs, slow.rs incl. "
       "parse_mantissa, bigint.rs, rounding.rs, mask.rs, num.rs, extended_float.rs) is re-translated from the Rust source by tools/rs2coq and "
       "proved equal to the model (rs_*_eq, proofs/SrcEq*.v), composed in proofs/SrcFinal.v into rs_parse_float_eq_bytes (regenerated source = "
       "model for arbitrary bytes) and rs_parse_float_correct: the end-to-end theorem holds of the definitions regenerated from the current Rust "
       "text (pinned in props/C01.v, C02.v); the whole hand-written model is also run against the real code (8 configurations x 2 build modes) on "
       "directed generators (exact midpoints at depths 1..10^6, closest approaches for every q, algebraic ties, fallback witnesses, "
       "fast-path fence posts incl. wrapped products, every decade, deep binades, saturation, zero-limb and top-limb-carry big integers) and every "
       "result is also judged against an exact rational oracle.")
P = {
 'C01': (E2E_CAT, 'Coq end-to-end theorem parse_float_correct on a Gallina model + model/code correspondence + exact-oracle search',
         "f64: " + E2E + TIE, PROOF_AX),
 'C02': (E2E_CAT, 'Coq end-to-end theorem parse_float_correct on a Gallina model + model/code correspondence + exact-oracle search',
         "f32 (the model computes f32 directly, no f64 detour): " + E2E + TIE, PROOF_AX),
 'C03': (E2E_CAT, 'Coq: end-to-end corollaries (exact, 17/9-digit round trips) + Matula digit sufficiency proved at the oracle level + correspondence on Rust-rendered floats',
         "C03_roundtrip_exact / _17_digits / _9_digits (props/C03.v): any rendering whose value is exactly x, or within half a unit of the 17th/9th "
         "significant digit of x, parses back to x; a shortest identifying decimal of <= 17/9 digits exists. Corollaries of: " + E2E +
         "Renderings (shortest, 9/17 digits, exact) produced by Rust's own formatter are run through the real code on every run.", PROOF_AX),
 'C04': (E2E_CAT, 'Coq: no-panic as a corollary of the end-to-end theorem (every overflow check, debug assertion, unwrap, index and the 62-limb capacity is an explicit Panic outcome of the model) + correspondence in release and checked builds',
         "C04_no_panic (props/C04.v), for both build modes. Corollary of: " + E2E + "The check runs valid inputs (lengths to 10^6 in thorough, exponents to the i32 "
         "limits) on release and debug-assertions+overflow-checks builds of all 8 configurations.", PROOF_AX),
 'C05': (E2E_CAT, 'Coq: configuration independence as a corollary of the end-to-end theorem + bit-for-bit cross-configuration differential on the real code',
         "C05_config_independent (props/C05.v) for any two shipped configurations and build modes. Corollary of: " + E2E +
         "All 8 configurations of the real code are run on the same inputs and compared bit for bit (this found the compact defect, now fixed); a build-configuration inventory (every cfg / cfg! / env! predicate of the source, the functional lines of Cargo.toml, build scripts) is diffed against the one the 8 configurations were chosen for, so that code conditional on anything the harness does not build is reported.", PROOF_AX),
 'C06': (E2E_CAT, 'Coq: end-to-end theorem for inputs of up to 2^28 digits + the MAX_DIGITS truncation argument + correspondence with deep-digit generators',
         "props/C06.v: parse_number keeps 19 digits + flag, parse_mantissa keeps MAX_DIGITS digits + one sticky digit, truncation_preserves_rounding "
         "(every rounding boundary has <= MAX_DIGITS significant digits; side condition computed on the regenerated constant: f64 needs >= 768), "
         "far_digit_breaks_tie, nines_below_tie_round_down, trailing_zeros_irrelevant; source tie rs_parse_mantissa_eq, rs_slow_eq_TABLES, rs_positive/negative_digit_comp_eq_TABLES (slow.rs regenerated = model). " + E2E +
         "Deep-digit ties / 9-tails / trailing zeros at depths 20..10^6 run against the exact oracle.", PROOF_AX),
 'C07': (E2E_CAT, 'Coq: thresholds, subnormals and saturated exponents as corollaries of the end-to-end theorem + correspondence at the range ends',
         "C07_overflow_underflow, parse_float_far_small/large/zero (exponents to the i32 limits, where the decimal exponent saturates) (props/C07.v). " + E2E +
         "Directed cases at 2^-1075, 2^-1074, 2^-1022, 2^1024-2^970, every binade 90 bits below / 70 above the range, i32-limit exponents with compensating digit strings.", PROOF_AX),
 'C08': ('other', 'Coq model with explicit UB outcomes for unchecked sites (no-UB theorems for parse_float on arbitrary bytes and for all vector histories) + unsafe-site inventory + garbage-byte differential',
         "Partial by nature: parse_float_no_UB (any bytes, any exponent, 8 configurations; side condition on table lengths discharged on the regenerated tables) "
         "and history_no_ub for the cell-level StackVec model; rs_parse_float_no_UB: the same for the Gallina translation of parse_float regenerated from /repo/src on every run (proofs/SrcFinal.v); the machine-level behaviour of the compiled unsafe code is observed (garbage-byte differential on outcome class "
         "and value, unsafe-site inventory of /repo/src diffed against the one the model was written against, Miri in the thorough tier), not proved.", PROOF_AX),
 'C09': (E2E_CAT, 'Coq: monotonicity as a corollary of the end-to-end theorem and RN_monotone + ordered-pair differential on the real code',
         "C09_monotone (props/C09.v). " + E2E + "Adjacent pairs across every algorithm switch-over are compared on the real code directly.", PROOF_AX),
 'C10': (E2E_CAT, 'Coq: value invariance as a corollary of the end-to-end theorem and RN_Qeq + re-splitting differential',
         "C10_value_invariant (props/C10.v): two valid inputs denoting the same rational give the same result; source tie rs_parse_number_eq, rs_parse_number_fast_eq (the digit accumulation regenerated from parse.rs = model, arbitrary bytes). " + E2E +
         "All re-splittings of a digit sequence with compensating exponent and appended zeros are run on every configuration.", PROOF_AX),
 'C11': ('proof', 'Coq: soundness theorems for both implementations of the stage (Eisel-Lemire: integers only, no axioms; Bellerophon: forward error analysis) for every (w, q, truncated) + refinement correspondence + number-theoretic search',
         "props/C11.v: compute_float_sound_all (every w in u64, every q, both builds: never a panic; a definite answer is rne_bits of w*10^q), lemire_sound (truncated: definite only "
         "if the answers at w and w+1 coincide), bellerophon_sound (the full statement incl. the truncated range), on the regenerated tables. Outside the theorems' hypotheses "
         "are exactly the API-only corners listed in KNOWN_FINDINGS (F2a/b/c: truncated with w = 0, u64::MAX, or < 2^40 for Bellerophon), which parse_float cannot produce. Source tie: rs_lemire_eq_std, rs_compute_float_eq_std, rs_compute_product_approx_eq, rs_full_multiplication_eq, rs_power_eq, rs_compute_error*_eq, rs_bellerophon_eq_std, rs_error_is_accurate_eq, rs_normalize_eq, rs_mul_eq, rs_get_small/large_eq: the Gallina translation of lemire.rs and bellerophon.rs, regenerated from /repo/src on every run, equals the model the soundness theorems are about. "
         "The stage is also called directly on closest approaches, algebraic ties, fallback witnesses, degenerate products for every q and judged against exact rationals.", PROOF_AX),
 'C12': ('proof', 'Coq: induction over limb lists - value of the result = the operation on naturals, None <-> result does not fit (37 theorems) + bigint.rs regenerated as Gallina and proved equal to the model (28 theorems) + limb-for-limb correspondence on both back-ends',
         "Closed theorems (props/C12.v, no axioms) over the list-of-limbs model for every operation the property lists: small add/mul, large add, long/large mul, pow by 5/10 (135/27/table decomposition, on the regenerated tables, compact and non-compact), shifts, compare, normalise, bit length, hi64 + sticky flag, from_u64; for the fixed-capacity back-end failure is reported exactly when B64^62 <= exact result (normalised operands), and the state left behind by a failed small op is characterised. Hold for arbitrary build mode. Source tie: all 25 functions of bigint.rs are regenerated from the Rust text on every run (coq/gen/SrcBigint.v) and proved equal to the model functions these theorems are about (28 rs_*_eq theorems, u64 limbs, usize lengths, both back-ends; the vector primitives are model/Vec.v's). The model is also tied to the code by running both on carry-chain patterns at and one limb past capacity, both back-ends, release and checked builds, and against Python integers.", PROOF_AX),
 'C13': ('proof', 'Coq: refinement of a cell-level model of StackVec (62 MaybeUninit cells + u16 length, raw writes/copies/set_len with UB outcomes) to a bounded sequence, lifted to all histories by induction + history correspondence of both models with the code',
         "Closed theorems (props/C13.v, no axioms): every operation of the safe API from a state satisfying the invariant (len <= 62, prefix initialised) returns Ok (never UB), preserves the invariant and yields the output and contents of the reference sequence; failed push/extend/resize leave the state unchanged; lifted to all finite histories from new() (fold over the op list), both build modes; eq/cmp agree with numeric comparison for normalised operands. Source tie: every function of impl StackVec, Deref::deref and the pointer code of bigint::shl_limbs are regenerated as Gallina over the cell-level memory model on every run (coq/gen/SrcStackVec.v) and proved equal to this cell-level model (17 rs_sv_*_eq theorems; safe_* under the invariant alone). The cell-level model itself is extracted and replayed against the real StackVec on every run (contents after every step), the list-level model against StackVec and HeapVec. Arbitrary-limb, arbitrary-length histories; the heap vector is covered at list level (never fails).", PROOF_AX),
 'C14': ('proof', 'Coq: vm_compute over the regenerated tables (finite domain, forallb lifted by forallb_forall)',
         "Every table entry and on-demand power is re-dumped from the compiled crate on every run, translated to Coq and checked against its "
         "mathematical definition by the kernel (8 closed theorems, no axioms). Finite domain, so this is a proof about the data the code uses.",
         "Coq kernel + vm_compute; the dump tool and gen_coq.py (translator); libm/std pow are executed on their complete reachable argument set, not modelled."),
 'C15': ('other', 'counting global allocator + nm on the rlib + allocation-construct inventory',
         "Partial by nature: allocation is a runtime effect. Counting allocator around every call in all non-alloc builds, symbol check of the "
         "compiled library, inventory of allocation-capable constructs tied to the model's storage selection.", PROOF_AX),
 'C16': ('other', 'Coq: the parser over an abstract cursor equals the list-level parser for every fused cursor and every denotation-preserving clone (iterator-protocol independence) + iterator-shape / stack-poisoning / thread / call-history differential on the real code + global-state inventory',
         "Partial by nature (addresses, stack residue and thread schedules cannot be expressed in Gallina). props/C16.v: it_parse_float_general / _fused / iter_shape_independent / "
         "clone_independent (model/Iter.v follows the Rust call by call: clones, count(), next() after None); the fused hypothesis is shown necessary and the two places where the "
         "code calls next() after a None are pinned down. The check feeds every input through 10 iterator shapes, stack-poisoning histories and 16 threads on the real code, incl. "
         "slow-path inputs with zero low limbs, and compares bit for bit; a call-history suite parses digit strings that are hard at two decimal scales back to back in every order (one thread and across threads) against the oracle; an inventory of global / interior-mutable state in /repo/src is diffed against the (stateless) model's.", PROOF_AX),
 'C17': ('proof', 'Coq: theorems generic in the format record under a boolean side condition discharged on the regenerated F32/F64 constants (25 theorems, all bit patterns) + agreement with the IEEE-754 decoder of Flocq + correspondence',
         "Closed theorems (props/C17.v) for every bit pattern 0 <= x < 2^fbits (no enumeration: generic in the format, side condition fmt_ok computed on the constants dumped from the compiled crate): subnormal detection, exponent(), mantissa(), mantissa*2^exponent = magnitude (as the decoded SpecFloat value, and as Flocq B2R of Flocq's own binary_float_of_bits), to_bits/from_bits lossless, packing (biased exponent, fraction) incl. the overlapping hidden bit, b / b+h, order of patterns = order of values. Both build modes. Source tie: rs_is_denormal_eq, rs_exponent_eq, rs_mantissa_eq, rs_extended_to_float_eq, rs_b_eq, rs_bh_eq (translation of the Rust text regenerated every run = model). Also tied by L1f correspondence (all 2^32 f32 patterns in the thorough tier).", PROOF_AX),
 'C18': ('proof', 'Coq: closed form of round / round_nearest_tie_even / round_down over Z, then equality with Flocq round-to-nearest-even (and Zfloor) on FLT and with the oracle RN, for all significands and exponents in range (20 theorems) + correspondence on every exponent',
         "Theorems (props/C18.v): for every significand in [2^63,2^64), every biased exponent in [-63,2^30] (covers [-63,2100]/[-63,320]), any build mode: round + round_nearest_tie_even never panics and its packed result equals RN f (significand*2^(exp-bias)) [C18_round_nearest_RN], equals Flocq round ZnearestE / SpecFloat.binary_normalize, incl. subnormals, promotion to the smallest normal, carry, overflow; truncating variant = Flocq Zfloor rounding below 2^emax and the infinity fields from 2^emax on (this deviation from 'largest float not above' is KNOWN_FINDINGS F3, proved as C18_round_down_correct); mask helpers for all widths 0..64. Format constants are the regenerated ones via rfmt_ok. Source tie: rs_round_eq, rs_round_nearest_tie_even_eq, rs_round_down_eq, rs_lower_n_mask_eq, rs_lower_n_halfway_eq, rs_nth_bit_eq (translation of rounding.rs/mask.rs regenerated every run = model). Also tied by L1r correspondence on every exponent x 10-40 significand patterns.", PROOF_AX),
 'C19': (E2E_CAT, 'Coq: lexer theorems (grammar decomposition, maximal munch, exponent saturation, trimming, special literals, totality) + front_end_value composing them with the end-to-end theorem + correspondence on the shipped front-end copies',
         "props/C19.v: front_end_value - for every byte string of at most 2^28 bytes the front end returns the pattern of +-RN(value of the literal as written) and exactly the "
         "unconsumed suffix (all 8 configurations, both formats, both build modes); lex_spec / lex_unique / lex_longest_prefix (the matched prefix is the longest word of the grammar), "
         "parse_exponent_saturates, trim_preserves_value, special literals with the accepted bytes enumerated, front_end_total (no panic of its own on any bytes). Source tie: the four shipped copies (examples/simple.rs, etc/.../main.rs, fuzz/fuzz_targets/parse.rs, tests/integration_tests.rs) are regenerated as Gallina on every run (coq/gen/SrcFront*.v) and proved equal to fe_simple / fe_fuzz for arbitrary byte strings (rs_<tag>_parse_float_eq_bytes), with the value theorem restated for the regenerated examples/simple.rs (rs_simple_parse_float_correct). " + E2E +
         "The repository's own front-end files are compiled into the harness (not transcribed) and diffed against the model on grammar-derived and arbitrary byte strings.", PROOF_AX),
}

THOROUGH_NOTE = {}

def main():
    checks = []
    levels = {}
    for pid in sorted(P):
        cat, tech, text, note = P[pid]
        checks.append({
            'property_id': pid,
            'quick_cmd': './check %s' % pid,
            'thorough_cmd': './check %s --tier thorough' % pid,
            'evidence_file': '/verif/evidence/%s.json' % pid,
            'replay_cmd_template': './check %s --replay {path}' % pid,
            'engine': 'coq+correspondence',
            'level_claimed': {'category': cat, 'text': text, 'design_ref': 'DESIGN.md section 6 (%s), section 13 (status)' % pid},
            'level_note': note,
            'technique': tech,
        })
        levels[pid] = {'level': cat, 'assumptions': [note], 'explanation': text}
    man = {
        'version': 1,
        'setup_cmd': 'tools/setup.sh',
        'hooks': {
            'guard': 'cargo feature "verif" of minimal-lexical',
            'enable': 'harness/Cargo.toml depends on minimal-lexical with features = ["verif"] (path = /repo)',
            'baseline_off_cmd': 'cd /repo && cargo test --workspace --no-fail-fast --offline',
            'source_commits': ['532fcbf'],
            'add_only': True,
        },
        'engines': [{
            'name': 'coq+correspondence', 'path': '/verif/coq, /verif/harness, /verif/ocaml, /verif/tools',
            'serves_properties': sorted(P),
            'kind_free_text': 'Coq 8.16.1 + Flocq development (regenerated data, Rust->Gallina source translation proved equal to the hand-written executable model for 33 functions, theorems per property) '
                              'tied to /repo by a Rust/OCaml correspondence harness with directed generators',
        }],
        'checks': checks,
        'not_applicable': [],
        'notes': 'fix commits in /repo: 3e9833d (Bellerophon truncation error), 720588a (HeapVec::set_len assert); see KNOWN_FINDINGS and DESIGN.md 7/13. Two ties to the source on every run: (1) tools/rs2coq regenerates every source file of the crate except libm.rs, fpu.rs and the table data as Gallina (coq/gen/Src*.v) and proofs/SrcEq*.v + SrcFinal.v prove the result equal to the hand-written model and restate the end-to-end theorem for it (DESIGN.md 4.1b; red-teamed three times, tools/rs2coq/REDTEAM.md); (2) the correspondence harness runs the compiled crate (8 configurations x 2 build modes) against the extracted model and an exact oracle on directed generators. 121 independently seeded changes under seeded/ (5 rounds), all caught; white-box red team of the checks under tools/selftest/whitebox/.',
    }
    json.dump(man, open('/verif/MANIFEST.json', 'w'), indent=1)
    json.dump(levels, open('/verif/levels.json', 'w'), indent=1)
    print('wrote MANIFEST.json (%d checks)' % len(checks))

if __name__ == '__main__':
    main()
