#!/usr/bin/env python3
"""Development helper (not used by the checks): writes coq/props/<P>.v from a list of lemma names.
For each lemma it asks coqtop for the statement (`Check`), and emits
    Theorem <P>_<name> : <statement>.  Proof. exact <lemma>. Qed.   + Print Assumptions
so that the property file pins the full statement and is closed only by `exact`.
usage: mk_props.py P  header-file  imports  lemma[=theoremname] ...
"""
import sys, subprocess, re, os

COQ = '/verif/coq'


def check_type(imports, lemma):
    src = 'From Coq Require Import ZArith QArith List Bool Reals.\n' + imports + '\nSet Printing Width 110.\nSet Printing Depth 1000.\nCheck %s.\n' % lemma
    p = subprocess.run(['coqtop', '-Q', COQ, 'ML', '-w', '-notation-overridden', '-quiet'], input=src, capture_output=True, text=True, timeout=300)
    out = p.stdout
    # the answer of Check: "<lemma>\n     : type"
    m = re.search(r'\n?@?' + re.escape(lemma.lstrip('@').split('.')[-1]) + r'\s*\n?\s*:\s(.*?)(?:\n\n|\nCoq <|\Z)', out, re.S)
    if not m:
        raise RuntimeError('cannot get the type of %s:\n%s\n%s' % (lemma, out[-2000:], p.stderr[-2000:]))
    t = m.group(1)
    t = re.sub(r'\nCoq <.*', '', t, flags=re.S)
    t = t.replace('F2R {|', '@F2R radix2 {|')
    return t.rstrip()


def main():
    P, header, imports = sys.argv[1], sys.argv[2], sys.argv[3]
    items = sys.argv[4:]
    imports_txt = open(imports).read() if os.path.exists(imports) else imports
    out = [open(header).read() if os.path.exists(header) else header, imports_txt, 'Open Scope Z_scope.', '']
    names = []
    for it in items:
        lemma, _, nm = it.partition('=')
        nm = nm or lemma.lstrip('@').split('.')[-1]
        t = check_type(imports_txt, lemma)
        name = '%s_%s' % (P, nm)
        out.append('Theorem %s :\n  %s.\nProof. exact %s. Qed.\n' % (name, t.replace('\n', '\n  '), lemma if not lemma.startswith('@') else '(' + lemma + ')'))
        names.append(name)
    out.append('')
    for n in names:
        out.append('Print Assumptions %s.' % n)
    open('%s/props/%s.v' % (COQ, P), 'w').write('\n'.join(out) + '\n')
    print('wrote props/%s.v with %d theorems' % (P, len(names)))


if __name__ == '__main__':
    main()
