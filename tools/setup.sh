#!/bin/bash
# One-time build after a fresh restore (offline): harness binaries for 8 configurations x 2 build
# modes against /repo, regenerated Coq data, the whole Coq development (full .vo build), the
# extracted model runner.  Every check repeats these steps incrementally.
set -u
cd /verif
export CARGO_NET_OFFLINE=true
mkdir -p .cache evidence replays
tools/build_harness.sh || { echo "setup: harness build failed"; exit 1; }
python3 tools/gen_coq.py || { echo "setup: gen_coq failed"; exit 1; }
tools/rs2coq/run.sh || { echo "setup: rs2coq failed"; exit 1; }
( cd coq && coq_makefile -f _CoqProject -o Makefile >/dev/null && timeout 3000 make -j16 >../.cache/coq_make.log 2>&1 ) || { tail -40 .cache/coq_make.log; echo "setup: coq build failed"; exit 1; }
tools/build_model.sh || { echo "setup: model extraction failed"; exit 1; }
echo "setup: ok"
