#!/usr/bin/env python3
"""Self-test helper: take a change delivered by an independent sub-agent (directory with patch.diff,
demo/, README.md), confirm it in a scratch worktree (tools/selftest/confirm_mutant.sh), run the
registered checks against it inside a private mount namespace (tools/selftest/run_mutant.sh) and
record everything under /verif/seeded/<id>/.
usage: seed.py <prop> <n> <delivered-dir> <needs: text> [check ...]"""
import sys, os, json, subprocess, shutil, re, time

REL = {
 'C01': ['C01', 'C05', 'C09', 'C11'], 'C02': ['C02', 'C05', 'C18'], 'C03': ['C03', 'C01', 'C02'],
 'C04': ['C04', 'C01', 'C08'], 'C05': ['C05', 'C01', 'C02'], 'C06': ['C06', 'C01', 'C02', 'C10'],
 'C07': ['C07', 'C01', 'C04', 'C11'], 'C08': ['C08', 'C13', 'C04'], 'C09': ['C09', 'C01', 'C02'],
 'C10': ['C10', 'C06', 'C01'], 'C11': ['C11', 'C01', 'C05', 'C14'], 'C12': ['C12', 'C13', 'C08', 'C01'],
 'C13': ['C13', 'C12', 'C08'], 'C14': ['C14', 'C11', 'C01'], 'C15': ['C15', 'C05'], 'C16': ['C16', 'C01'],
 'C17': ['C17', 'C18', 'C01'], 'C18': ['C18', 'C02', 'C01', 'C07'], 'C19': ['C19', 'C04', 'C07'],
}


def main():
    prop, n, src, needs = sys.argv[1], sys.argv[2], sys.argv[3].rstrip('/'), sys.argv[4]
    checks = sys.argv[5:] or REL[prop]
    sid = '%s-%s' % (prop, n)
    dst = '/verif/seeded/' + sid
    shutil.rmtree(dst, ignore_errors=True)
    os.makedirs(dst)
    shutil.copy(src + '/patch.diff', dst + '/patch.diff')
    shutil.copytree(src + '/demo', dst + '/demo')
    if os.path.exists(src + '/README.md'):
        shutil.copy(src + '/README.md', dst + '/README.agent.md')
    t = time.time()
    p = subprocess.run(['/verif/tools/selftest/confirm_mutant.sh', dst], capture_output=True, text=True, timeout=3000)
    try:
        conf = json.loads(p.stdout.strip().split('\n')[-1])
    except Exception:
        conf = {'error': (p.stdout + p.stderr)[-1500:]}
    confirmed = bool(conf.get('applies') and conf.get('build') == 'ok' and conf.get('suite_clean') == conf.get('suite_with_change')
                     and 'FAILED' in conf.get('demo_with_change', '') and 'FAILED' not in conf.get('demo_clean', '') and 'error' not in conf.get('demo_clean', ''))
    out = '/var/tmp/seedout/' + sid
    shutil.rmtree(out, ignore_errors=True)
    subprocess.run(['/verif/tools/selftest/run_mutant.sh', dst + '/patch.diff', out, 'quick'] + checks, capture_output=True, text=True, timeout=6000)
    rc, vio = {}, {}
    try:
        for l in open(out + '/summary.txt'):
            a, b = l.split()
            rc[a] = int(b.split('=')[1])
    except Exception as e:
        rc['error'] = str(e)
    for c in checks:
        try:
            lines = [l.strip() for l in open('%s/%s.out' % (out, c)) if l.startswith('VIOLATION')]
            if lines:
                vio[c] = lines[:3]
                rp = re.search(r'replay=(\S+)', lines[0]).group(1)
                rpl = out + '/replays/' + os.path.basename(rp)
                if os.path.exists(rpl):
                    r = json.load(open(rpl))
                    vio[c + '_first_replay'] = {'what': r.get('what'), 'replay': {k: (v if not isinstance(v, str) else v[:400]) for k, v in (r.get('replay') or {}).items() if k in ('case', 'cfg', 'build', 'observed', 'expected', 'what', 'shrunk_case', 'broken', 'family')}}
        except Exception:
            pass
    caught = sorted(c for c, v in rc.items() if v == 1)
    meta = {
        'id': sid, 'breaks_property': prop, 'origin': 'independent sub-agent given only the property text and a scratch worktree of /repo',
        'needs_to_manifest': needs,
        'confirmed_in_scratch_worktree': confirmed, 'confirmation': conf,
        'checks_run': checks, 'check_exit_codes': rc, 'caught_by': caught, 'violation_lines': vio,
        'commands': ['tools/selftest/confirm_mutant.sh ' + dst, 'tools/selftest/run_mutant.sh %s/patch.diff <out> quick %s' % (dst, ' '.join(checks))],
        'wall_s': round(time.time() - t, 1),
    }
    json.dump(meta, open(dst + '/meta.json', 'w'), indent=1)
    shutil.rmtree(out, ignore_errors=True)
    print('%s confirmed=%s caught_by=%s rc=%s' % (sid, confirmed, caught, rc))


if __name__ == '__main__':
    main()
