#!/usr/bin/env python3
"""Writes /verif/seeded/SUMMARY.md from the meta.json files (which checks catch which seeded change)."""
import json, glob, os
rows = []
for f in sorted(glob.glob('/verif/seeded/*/meta.json')):
    m = json.load(open(f))
    rows.append(m)
out = ['# Seeded changes: which checks catch which change', '',
       'Each change was written by an independent sub-agent that saw only the property text and a scratch worktree of /repo;',
       'it was then confirmed here in a scratch worktree (applies, builds in 4 configurations, the existing suite passes',
       'unchanged, the demonstration fails with the change and passes without it) and the registered quick checks were run',
       'against it inside a private mount namespace (tools/selftest/run_mutant.sh). `caught by` lists the checks that exited 1',
       'with a VIOLATION line; `first violation` is the `what` of the first replay of the target property\'s check (or of the first catching check).', '',
       '| id | target | confirmed | needs to manifest | checks run (exit codes) | caught by | first violation |', '|---|---|---|---|---|---|---|']
for m in rows:
    vio = ''
    for c in [m['breaks_property']] + m.get('caught_by', []):
        k = c + '_first_replay'
        if k in m.get('violation_lines', {}):
            r = m['violation_lines'][k]
            rp = r.get('replay') or {}
            vio = '%s: %s' % (c, (r.get('what') or '')[:160])
            if rp.get('case'):
                vio += ' / `%s`' % rp['case'][:90]
            break
    out.append('| %s | %s | %s | %s | %s | %s | %s |' % (m['id'], m['breaks_property'], 'yes' if m['confirmed_in_scratch_worktree'] else 'NO',
               m['needs_to_manifest'][:220].replace('|', '/'), ' '.join('%s=%s' % kv for kv in sorted(m['check_exit_codes'].items())),
               ', '.join(m['caught_by']) or '**none**', vio.replace('|', '/')))
missed = [m['id'] for m in rows if m['breaks_property'] not in m['caught_by']]
out += ['', 'Changes not caught by the check of their own target property: %s' % (', '.join(missed) or 'none'), '']
open('/verif/seeded/SUMMARY.md', 'w').write('\n'.join(out) + '\n')
print('\n'.join(out[-3:]))
