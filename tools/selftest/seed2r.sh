#!/bin/bash
# usage: seed2r.sh <confirm-wt> <prop> <change#> "<needs>" [checks...]   (round 2: ids <prop>-<change#+2>)
export CONFIRM_WT=$1; p=$2; n=$3; needs=$4; shift 4
python3 /verif/tools/selftest/seed.py $p $((n+2)) /tmp/mut2/$p/_out/change$n "$needs" "$@"
