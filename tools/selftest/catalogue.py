#!/usr/bin/env python3
"""Calibration of the checks (DESIGN.md 12): a catalogue of small source mutants of /repo, each
applied to a scratch copy inside a private mount namespace (tools/selftest/run_mutant.sh), with the
checks expected to catch it.  Not a registered check.  usage: catalogue.py [name-substring ...]
Results: /verif/seeded/catalogue_results.json"""
import os, sys, json, subprocess, tempfile, shutil, time
from concurrent.futures import ThreadPoolExecutor

# (name, file, old, new, expected-to-catch (props), kind)   kind: 'break' or 'harmless'
M = [
 ('lemire-lo-le-big', 'src/lemire.rs', 'if lo <= 1\n', 'if lo <= 0x100000\n', ['C11', 'C01'], 'break'),
 ('lemire-and3-to-and1', 'src/lemire.rs', '&& mantissa & 3 == 1', '&& mantissa & 1 == 1', ['C11', 'C01'], 'break'),
 ('lemire-safe-range-56', 'src/lemire.rs', '(q >= -27) && (q <= 55)', '(q >= -27) && (q <= 56)', ['C11'], 'break'),
 ('lemire-safe-range-m28', 'src/lemire.rs', '(q >= -27) && (q <= 55)', '(q >= -28) && (q <= 55)', ['C11'], 'break'),
 ('lemire-subnormal-ge-to-gt', 'src/lemire.rs', 'if -power2 + 1 >= 64 {', 'if -power2 + 1 > 64 {', ['C11', 'C04'], 'break'),
 ('lemire-power-mult', 'src/lemire.rs', '152_170 + 65536', '152_169 + 65536', ['C11', 'C01'], 'break'),
 ('num-round-even-max-22', 'src/num.rs', 'const MAX_EXPONENT_ROUND_TO_EVEN: i32 = 23;', 'const MAX_EXPONENT_ROUND_TO_EVEN: i32 = 22;', ['C11', 'C01'], 'break'),
 ('num-round-even-min-m3', 'src/num.rs', 'const MIN_EXPONENT_ROUND_TO_EVEN: i32 = -4;', 'const MIN_EXPONENT_ROUND_TO_EVEN: i32 = -3;', ['C11', 'C01'], 'break'),
 ('num-maxdigits-767', 'src/num.rs', 'const MAX_DIGITS: usize = 769;', 'const MAX_DIGITS: usize = 767;', ['C06', 'C01'], 'break'),
 ('num-maxdigits-768', 'src/num.rs', 'const MAX_DIGITS: usize = 769;', 'const MAX_DIGITS: usize = 768;', [], 'harmless'),
 ('num-smallest-pow10', 'src/num.rs', 'const SMALLEST_POWER_OF_TEN: i32 = -342;', 'const SMALLEST_POWER_OF_TEN: i32 = -341;', ['C07', 'C01'], 'break'),
 ('num-min-fast-path-m23', 'src/num.rs', 'const MIN_EXPONENT_FAST_PATH: i32 = -22;', 'const MIN_EXPONENT_FAST_PATH: i32 = -23;', ['C01', 'C08'], 'break'),
 ('rounding-min63', 'src/rounding.rs', 'cb(fp, shift.min(64));', 'cb(fp, shift.min(63));', ['C18', 'C07'], 'break'),
 ('rounding-inf-gt', 'src/rounding.rs', 'if fp.exp >= F::INFINITE_POWER {', 'if fp.exp > F::INFINITE_POWER {', ['C18', 'C07'], 'break'),
 ('mask-halfway-off', 'src/mask.rs', 'false => nth_bit(n - 1),', 'false => nth_bit(n - 1) | 1,', ['C18', 'C01'], 'break'),
 ('slow-sticky', 'src/slow.rs', None, None, ['C06'], 'break'),   # filled below
 ('slow-equal-isodd', 'src/slow.rs', 'cmp::Ordering::Equal if is_odd => true,', 'cmp::Ordering::Equal => true,', ['C01', 'C06'], 'break'),
 ('slow-bh-plus1', 'src/slow.rs', 'mant: (fp.mant << 1) + 1,', 'mant: (fp.mant << 1),', ['C01', 'C17'], 'break'),
 ('bigint-nonzero-3', 'src/bigint.rs', 'let nonzero = n || nonzero(x, 2);', 'let nonzero = n || nonzero(x, 3);', ['C12', 'C06'], 'break'),
 ('bigint-pow-step', 'src/table_small.rs', 'pub const LARGE_POW5_STEP: u32 = 135;', 'pub const LARGE_POW5_STEP: u32 = 134;', ['C12', 'C14', 'C01'], 'break'),
 ('stackvec-push-le', 'src/stackvec.rs', 'if self.len() < self.capacity() {\n            // SAFETY: safe, capacity is less than the current size.\n            unsafe { self.push_unchecked(value) };',
  'if self.len() <= self.capacity() {\n            // SAFETY: safe, capacity is less than the current size.\n            unsafe { self.push_unchecked(value) };', ['C13', 'C08'], 'break'),
 ('parse-sat-to-wrap', 'src/parse.rs', 'num.exponent = exponent.saturating_add(into_i32(1 + integer.count()));', 'num.exponent = exponent.wrapping_add(into_i32(1 + integer.count()));', ['C07', 'C04'], 'break'),
 ('parse-frac-minus1', 'src/parse.rs', 'num.exponent = exponent.saturating_sub(fraction_count as i32 - 1);', 'num.exponent = exponent.saturating_sub(fraction_count as i32);', ['C06', 'C10'], 'break'),
 ('number-lt-harmless', 'src/number.rs', 'self.mantissa <= F::MAX_MANTISSA_FAST_PATH', 'self.mantissa < F::MAX_MANTISSA_FAST_PATH', [], 'harmless'),
 ('table-lemire-bit', 'src/table_lemire.rs', None, None, ['C14'], 'break'),   # filled below
 ('simple-trim-swap', 'examples/simple.rs', None, None, ['C19'], 'break'),
 ('harmless-lemire-umax', 'src/lemire.rs', 'if lo == 0xFFFF_FFFF_FFFF_FFFF {', 'if lo == u64::MAX {', [], 'harmless'),
 ('harmless-lemire-decline-more', 'src/lemire.rs', 'if lo == 0xFFFF_FFFF_FFFF_FFFF {', 'if lo >= 0xFFFF_FFFF_FFFF_FFF0 {', [], 'harmless'),
 ('harmless-rounding-min', 'src/rounding.rs', 'cb(fp, shift.min(64));', 'cb(fp, if shift > 64 { 64 } else { shift });', [], 'harmless'),
 ('harmless-slow-neg', 'src/slow.rs', 'if exponent >= 0 {', 'if !(exponent < 0) {', [], 'harmless'),
 ('harmless-bell-more-errors', 'src/bellerophon.rs', '    errors += error_halfscale();\n\n    // Normalize the floating point (and the errors).', '    errors += error_halfscale() + 2;\n\n    // Normalize the floating point (and the errors).', [], 'harmless'),
 ('bell-halfscale-large', 'src/bellerophon.rs', '    errors += error_halfscale();\n\n    // Normalize the floating point (and the errors).', '    errors += 1;\n\n    // Normalize the floating point (and the errors).', ['C11'], 'break'),
]


def fill():
    out = []
    for m in M:
        name, fn, old, new, props, kind = m
        src = open('/repo/' + fn).read()
        if name == 'slow-sticky':
            import re
            mm = re.search(r'(\w+)\s*\*\s*10\s*\+\s*1', src)
            # the `round_up_nonzero!`-style sticky digit: mul_small(10) + add_small(1)
            if 'add_small(1)' in src:
                old, new = 'add_small(1)', 'add_small(0)'
            else:
                continue
        if name == 'table-lemire-bit':
            import re
            lines = src.split('\n')
            idx = [i for i, l in enumerate(lines) if re.match(r'\s*\(0x[0-9a-fA-F_]+, 0x[0-9a-fA-F_]+\),', l)]
            if not idx:
                continue
            l = lines[idx[400]]
            mm = re.match(r'(\s*\(0x[0-9a-fA-F_]+, 0x)([0-9a-fA-F_]+)(\),.*)', l)
            v = int(mm.group(2).replace('_', ''), 16) ^ 1
            old, new = l, mm.group(1) + '%x' % v + mm.group(3)
        if name == 'simple-trim-swap':
            if 'ltrim_char_slice(integer_digits' in src:
                old, new = 'ltrim_char_slice(integer_digits', 'rtrim_char_slice(integer_digits'
            else:
                import re
                mm = re.search(r'ltrim\w*\((\w*integer\w*)', src)
                if not mm:
                    continue
                old = mm.group(0); new = old.replace('ltrim', 'rtrim', 1)
        if old is None or old not in src:
            print('SKIP (pattern not found):', name)
            continue
        out.append((name, fn, old, new, props, kind))
    return out


def make_patch(name, fn, old, new):
    d = tempfile.mkdtemp(prefix='mutpatch.', dir='/var/tmp')
    try:
        subprocess.run(['git', '-C', '/repo', 'worktree', 'add', '--detach', d + '/wt', 'HEAD'], capture_output=True, check=True)
        p = d + '/wt/' + fn
        s = open(p).read()
        open(p, 'w').write(s.replace(old, new, 1))
        diff = subprocess.run(['git', '-C', d + '/wt', 'diff'], capture_output=True, text=True).stdout
        os.makedirs('/var/tmp/mutpatches', exist_ok=True)
        path = '/var/tmp/mutpatches/%s.diff' % name
        open(path, 'w').write(diff)
        return path
    finally:
        subprocess.run(['git', '-C', '/repo', 'worktree', 'remove', '--force', d + '/wt'], capture_output=True)
        shutil.rmtree(d, ignore_errors=True)


def run_one(m):
    name, fn, old, new, props, kind = m
    patch = make_patch(name, fn, old, new)
    run_props = props if props else ['C01', 'C02', 'C05', 'C07', 'C11', 'C18']
    out = '/var/tmp/mutout/' + name
    shutil.rmtree(out, ignore_errors=True)
    t = time.time()
    subprocess.run(['/verif/tools/selftest/run_mutant.sh', patch, out, 'quick'] + run_props, capture_output=True, text=True)
    res = {}
    try:
        for l in open(out + '/summary.txt'):
            p, rc = l.split()
            res[p] = int(rc.split('=')[1])
    except Exception as e:
        res['error'] = str(e)
    viol = {}
    for p in run_props:
        try:
            viol[p] = [l.strip() for l in open('%s/%s.out' % (out, p)) if l.startswith('VIOLATION')][:2]
        except Exception:
            pass
    return {'name': name, 'file': fn, 'kind': kind, 'expected': props, 'rc': res, 'violation_lines': viol, 'wall_s': round(time.time() - t, 1)}


def main():
    ms = fill()
    if len(sys.argv) > 1:
        ms = [m for m in ms if any(a in m[0] for a in sys.argv[1:])]
    results = []
    with ThreadPoolExecutor(max_workers=3) as ex:
        for r in ex.map(run_one, ms):
            caught = [p for p, rc in r['rc'].items() if rc == 1]
            status = ('CAUGHT by ' + ','.join(caught)) if caught else 'not caught'
            if r['kind'] == 'harmless':
                status = 'FALSE ALARM ' + ','.join(caught) if caught else 'passes (harmless)'
            print('%-28s %-10s %s   %s' % (r['name'], r['kind'], status, r['rc']), flush=True)
            results.append(r)
    os.makedirs('/verif/seeded', exist_ok=True)
    prev = []
    path = '/verif/seeded/catalogue_results.json'
    if os.path.exists(path) and len(sys.argv) > 1:
        prev = [r for r in json.load(open(path)) if r['name'] not in [x['name'] for x in results]]
    json.dump(prev + results, open(path, 'w'), indent=1)


if __name__ == '__main__':
    main()
