#!/bin/bash
# usage: reseed.sh <confirm-wt> id[:checks] ...
export CONFIRM_WT=$1; shift
for item in "$@"; do
  id=${item%%:*}; checks=""; [ "$item" != "$id" ] && checks=$(echo ${item#*:} | tr ',' ' ')
  p=${id%-*}; n=${id#*-}
  needs=$(python3 -c "import json;print(json.load(open('/var/tmp/needs.json'))['$id'])")
  python3 /verif/tools/selftest/seed.py $p $n /tmp/mut/$p/_out/change$n "$needs" $checks
done
