#!/bin/bash
# Self-test helper: confirm a seeded change in a scratch worktree of /repo (outside /repo and /verif):
# it applies, builds in 4 configurations, the existing suite still passes (same counts as the
# unchanged tree), the demonstration fails with the change and passes without it.
# usage: confirm_mutant.sh <dir-with-patch.diff-and-demo/> ; prints a JSON summary
set -u
D=$(cd "$1" && pwd)
WT=${CONFIRM_WT:-/tmp/mut/confirm}
if [ ! -d $WT ]; then git -C /repo worktree add --detach $WT HEAD >/dev/null 2>&1 || exit 3; fi
cd $WT && git checkout -q -- . && git clean -fdq -e target
suite() { # prints "d c a" pass counts
  local out=""
  for feat in "" "--features compact" "--features alloc"; do
    n=$(cargo test --offline $feat 2>&1 | grep -E "^test result" | awk '{s+=$4; f+=$6} END {print s"/"f}')
    out="$out $n"
  done
  echo $out
}
demo() { # run every demo *.rs as an integration test in 3 feature sets; prints fail counts
  local res=""
  for t in $D/demo/*.rs; do
    bn=$(basename $t .rs); [ "$bn" = example_main ] && continue
    cp $t tests/zz_$bn.rs
    for feat in "" "--features compact" "--features alloc" "--no-default-features --features compact" "--release"; do
      r=$(cargo test --offline $feat --test zz_$bn 2>&1 | grep -E "^test result:|^error(\[|:)" | head -1 | sed -e 's/test result: //' -e 's/;.*ignored//' | tr ' ' '_' | cut -c1-40)
      res="$res [$bn|${feat:-default}|$r]"
    done
    rm -f tests/zz_$bn.rs
  done
  echo $res
}
BASE_SUITE=$(suite)
DEMO_CLEAN=$(demo)
git apply --whitespace=nowarn $D/patch.diff || { echo '{"applies": false}'; exit 1; }
BUILD=ok
for feat in "" "--features compact" "--features alloc" "--no-default-features --features compact"; do
  cargo build --offline $feat >/dev/null 2>&1 || BUILD="fails:$feat"
done
MUT_SUITE=$(suite)
DEMO_MUT=$(demo)
git checkout -q -- . ; git clean -fdq -e target
echo "{\"applies\": true, \"build\": \"$BUILD\", \"suite_clean\": \"$BASE_SUITE\", \"suite_with_change\": \"$MUT_SUITE\", \"demo_clean\": \"$DEMO_CLEAN\", \"demo_with_change\": \"$DEMO_MUT\"}"
