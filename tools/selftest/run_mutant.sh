#!/bin/bash
# Self-test helper (not a registered check): run checks against a mutated copy of /repo without
# touching /repo or /verif.  A private mount namespace binds scratch copies over /repo and /verif,
# the patch is applied to the copy, the checks run exactly as registered (./check Cnn), and the
# scratch copies are removed.
# usage: run_mutant.sh <patch.diff|none> <outdir> <tier> <prop> [prop ...]
set -u
PATCH=$1; OUT=$2; TIER=$3; shift 3
ENV=/var/tmp/mutenv.$$
mkdir -p "$ENV" "$OUT"
rsync -a --exclude target /repo/ "$ENV/repo/"
rsync -a --exclude replays --exclude 'scratch_*' /verif/ "$ENV/verif/"
[ "$PATCH" != none ] && cp "$PATCH" "$ENV/patch.diff"
export PROPS="$*" TIER ENV PATCH
unshare -m bash -c '
  mount --bind $ENV/repo /repo && mount --bind $ENV/verif /verif || exit 9
  cd /repo && git checkout -q -- . 2>/dev/null
  # settle the copied Coq build (the copy may have been taken while a file was being compiled)
  ( cd /verif/coq && coq_makefile -f _CoqProject -o Makefile >/dev/null 2>&1 && timeout 3000 make -j8 >/dev/null 2>&1 )
  if [ "$PATCH" != none ]; then git apply --whitespace=nowarn $ENV/patch.diff || { echo "PATCH-DOES-NOT-APPLY"; exit 8; }; fi
  cd /verif
  for p in $PROPS; do
    timeout 3000 ./check $p --tier $TIER > $ENV/$p.out 2> $ENV/$p.err; echo "$p rc=$?" >> $ENV/summary.txt
    cp /verif/evidence/$p.json $ENV/$p.evidence.json 2>/dev/null
    mkdir -p $ENV/replays; cp /verif/replays/${p}_* $ENV/replays/ 2>/dev/null
  done
'
rc=$?
cp "$ENV"/summary.txt "$ENV"/*.out "$ENV"/*.err "$ENV"/*.evidence.json "$OUT"/ 2>/dev/null
mkdir -p "$OUT/replays"; cp "$ENV"/replays/* "$OUT/replays/" 2>/dev/null
rm -rf "$ENV"
cat "$OUT/summary.txt" 2>/dev/null
exit $rc
