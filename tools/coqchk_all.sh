#!/bin/bash
# Independent re-check of every property file (and everything it depends on) with coqchk.
# Not part of a registered check: it takes about an hour.  Works on a copy of coq/ so that a
# concurrent `make` cannot disturb it.  Output: /verif/coqchk_report.txt
set -u
COPY=/var/tmp/coqchk_copy.$$
rm -rf $COPY; rsync -a --exclude 'scratch_*' /verif/coq/ $COPY/
cd $COPY
LIBS=$(ls props/C*.v | sed -e 's#props/#ML.props.#' -e 's#\.v$##' | tr '\n' ' ')
{ echo "coqchk -o -silent -Q . ML $LIBS"; echo "started: $(date -u)"; echo "commit: $(git -C /verif rev-parse --short HEAD)";
  /usr/bin/time -f "wall %es" timeout 28000 coqchk -o -silent -Q . ML $LIBS; echo "exit: $?"; echo "finished: $(date -u)"; } > /verif/.cache/coqchk_report.tmp 2>&1
mv -f /verif/.cache/coqchk_report.tmp /verif/coqchk_report.txt
rm -rf $COPY
