"""Input generators (DESIGN.md section 5).  Every random choice derives from one Rng."""
from .oracle import *
from .common import Rng

I32_MIN, I32_MAX = -2 ** 31, 2 ** 31 - 1


def pf_line(fmt, i, f, e, cmd='PF'):
    return '%s %s %s %s %d' % (cmd, fmt, i or '-', f or '-', e)


class PF:
    """one parse_float case"""
    __slots__ = ('fmt', 'i', 'f', 'e', 'fam')

    def __init__(self, fmt, i, f, e, fam):
        self.fmt, self.i, self.f, self.e, self.fam = fmt, i, f, e, fam

    def line(self, cmd='PF'):
        return pf_line(self.fmt, self.i, self.f, self.e, cmd)

    def key(self):
        return (self.fmt, self.i, self.f, self.e)

    def short(self):
        def sh(s):
            return s if len(s) <= 60 else '%s..(%d digits)..%s' % (s[:24], len(s), s[-12:])
        return '%s int=%s frac=%s exp=%d [%s]' % (self.fmt, sh(self.i) or '""', sh(self.f) or '""', self.e, self.fam)


def rand_float_bits(rng, fmt, lo_exp=None, hi_exp=None):
    F = FMT[fmt]
    ms = F['ms']
    emaxf = 2 * F['emax'] - 2
    k = rng.below(10)
    if k == 0:
        e = 0
    elif k == 1:
        e = rng.choice([1, 2, emaxf, emaxf - 1])
    else:
        e = rng.range(0, emaxf)
    if lo_exp is not None:
        e = rng.range(lo_exp, hi_exp)
    mk = rng.below(8)
    if mk == 0:
        m = rng.choice([0, 1, 2, (1 << ms) - 1, (1 << ms) - 2, 1 << (ms - 1)])
    elif mk == 1:
        m = rng.bits(rng.range(1, ms))
    else:
        m = rng.bits(ms)
    return (e << ms) | m


def g_rand(rng, n, fmts=('f64', 'f32'), maxlen=1200, big=False):
    out = []
    for _ in range(n):
        fmt = rng.choice(fmts)
        k = rng.below(12)
        if k < 4:
            ln = rng.range(0, 19)
        elif k < 6:
            ln = rng.range(17, 21)
        elif k < 8:
            ln = rng.range(20, 60)
        elif k < 10:
            ln = rng.range(60, maxlen)
        elif k == 10:
            ln = rng.choice([768, 769, 770, 771, 113, 114, 115, 116]) + rng.range(-1, 1)
        else:
            ln = rng.range(0, 400)
        ds = rng.digits(ln, first_nonzero=True)
        cut = rng.below(ln + 1)
        i, f = ds[:cut], ds[cut:]
        if i == '' and rng.below(3) == 0:
            f = '0' * rng.below(25) + f
        ek = rng.below(10)
        lim = 330 if fmt == 'f64' else 50
        if ek < 6:
            e = rng.range(-lim, lim) - len(i) + (rng.below(3) == 0) * len(ds)
        elif ek < 8:
            e = rng.range(-30, 30)
        elif ek == 8:
            e = rng.range(-5000, 5000)
        else:
            e = rng.choice([I32_MIN, I32_MAX, I32_MIN + rng.below(1000), I32_MAX - rng.below(1000), 0])
        out.append(PF(fmt, i, f, e, 'G-RAND'))
    return out


def _emit_decimal(fmt, digits, e10, rng, fam, out, mode=None):
    i, f, e = split_decimal(digits, e10, rng, mode)
    if -2 ** 31 <= e < 2 ** 31:
        out.append(PF(fmt, i, f, e, fam))


def g_mid(rng, n, fmts=('f64', 'f32'), deep=(1, 19, 20, 40, 400, 767, 768, 769, 770, 771, 1000), edge_only=False):
    """exact midpoints of adjacent floats and their neighbourhoods"""
    out = []
    for _ in range(n):
        fmt = rng.choice(fmts)
        F = FMT[fmt]
        if edge_only:
            top = 2 * F['emax'] - 2
            bits = rand_float_bits(rng, fmt, *rng.choice([(0, 2), (top - 1, top)]))
        else:
            bits = rand_float_bits(rng, fmt)
        if bits >= max_finite(fmt) + 1:
            continue
        d, e10 = midpoint_decimal(fmt, bits)
        variant = rng.below(8)
        if variant == 0:
            _emit_decimal(fmt, d, e10, rng, 'G-MID/tie', out)
        elif variant == 1:     # tie with trailing zeros
            z = rng.range(1, 40)
            _emit_decimal(fmt, d + '0' * z, e10 - z, rng, 'G-MID/tie+zeros', out)
        elif variant in (2, 3):  # tie + a non-zero digit at some depth
            depth = rng.choice(deep)
            pad = max(0, depth - len(d) - 1) if rng.below(2) else depth
            dg = str(rng.range(1, 9))
            _emit_decimal(fmt, d + '0' * pad + dg, e10 - pad - 1, rng, 'G-MID/tie+eps@%d' % (len(d) + pad + 1), out)
        elif variant in (4, 5):  # tie - eps as ...999
            depth = rng.choice(deep)
            pad = max(1, depth - len(d)) if rng.below(2) else max(1, depth)
            dm = str(int(d) - 1).rjust(len(d), '0')
            dd = (dm + '9' * pad).lstrip('0')
            if dd:
                _emit_decimal(fmt, dd, e10 - pad, rng, 'G-MID/tie-eps@%d' % len(dd), out)
        elif variant == 6:     # last digit +-1
            v = int(d) + rng.choice([-1, 1])
            if v > 0:
                _emit_decimal(fmt, str(v), e10, rng, 'G-MID/tie+-1ulp10', out)
        else:                  # the float itself and float +- tiny
            mant, exp2 = float_value(fmt, bits)
            dd, ee = exact_decimal(mant, exp2)
            if dd != '0':
                _emit_decimal(fmt, dd, ee, rng, 'G-MID/exact-float', out)
    return out


def g_fast(rng, n):
    """fast-path fence posts"""
    out = []
    for fmt, p, lo, hi, dis in (('f64', 53, -22, 22, 37), ('f32', 24, -10, 10, 17)):
        ws = [0, 1, 2, 9, 10, (1 << p) - 1, 1 << p, (1 << p) + 1, (1 << p) + 2, (1 << (p - 1)) + 1, (1 << (p + 1)) - 1, (1 << (p + 1)) + 1]
        qs = list(range(lo - 3, lo + 3)) + list(range(hi - 2, dis + 4)) + [0, 1, -1]
        for w in ws:
            for q in qs:
                out.append(PF(fmt, str(w) if w else '', '', q, 'G-FAST'))
        # disguised fast path: w <= 2^p but w * 10^(q-hi) overflows u64 and the WRAPPED product is small
        # (<= 2^p): the checked multiplication must reject these
        for _ in range(max(20, n // 4)):
            sh = rng.range(4, dis - hi)
            cmax = max(1, (10 ** sh) >> (64 - p))
            cc = rng.range(1, cmax)
            tt = rng.below(max(1, (1 << p) - 10 ** sh))
            w = ((cc << 64) + tt) // (10 ** sh) + 1
            if 0 < w <= (1 << p):
                out.append(PF(fmt, str(w), '', hi + sh, 'G-FAST/wrap'))
        for _ in range(n):
            q = rng.range(lo - 2, dis + 2)
            k = rng.below(4)
            if k == 0:
                w = rng.bits(p) | 1
            elif k == 1:
                w = (1 << p) + rng.range(-3, 3)
            elif k == 2:
                # disguised: w * 10^(q-hi) close to 2^p
                sh = max(0, q - hi)
                w = ((1 << p) // (10 ** sh)) + rng.range(-2, 2)
            else:
                w = rng.bits(rng.range(1, 64))
            if w <= 0:
                continue
            s = str(w)
            if rng.below(3) == 0:
                cut = rng.below(len(s) + 1)
                out.append(PF(fmt, s[:cut], s[cut:], q + len(s) - cut, 'G-FAST'))
            else:
                out.append(PF(fmt, s, '', q, 'G-FAST'))
    return out


def g_seam(rng, n, fmts=('f64', 'f32')):
    """19 vs 20 significant digits, leading fraction zeros, empties, all-zero strings"""
    out = []
    for fmt in fmts:
        for (i, f, e) in [('', '', 0), ('', '', 5), ('', '', I32_MAX), ('', '', I32_MIN), ('', '0', 0), ('', '000', 7),
                          ('', '0' * 25, 0), ('', '0' * 400, 300), ('', '0' * 400, I32_MAX), ('', '0' * 19, 0), ('', '0' * 20, 0),
                          ('1', '0' * 30, 0), ('1', '0' * 18, 0), ('1', '0' * 19, 0), ('9' * 19, '', 0), ('9' * 20, '', 0),
                          ('9' * 21, '', 0), ('1' + '0' * 19, '', 0), ('1' + '0' * 20, '', -20), ('', '0' * 10 + '9' * 19, 0),
                          ('', '0' * 10 + '9' * 20, 0)]:
            out.append(PF(fmt, i, f, e, 'G-SEAM'))
    for _ in range(n):
        fmt = rng.choice(fmts)
        ln = rng.choice([18, 19, 20, 21, 22])
        ds = rng.digits(ln, first_nonzero=True)
        k = rng.below(5)
        lim = 300 if fmt == 'f64' else 40
        e = rng.range(-lim, lim)
        if k == 0:
            out.append(PF(fmt, ds, '', e - ln, 'G-SEAM'))
        elif k == 1:
            z = rng.choice([0, 1, 5, 19, 20, 100, 400])
            out.append(PF(fmt, '', '0' * z + ds, e + z, 'G-SEAM'))
        elif k == 2:
            cut = rng.range(0, ln)
            out.append(PF(fmt, ds[:cut], ds[cut:], e - cut, 'G-SEAM'))
        elif k == 3:
            # 19 digits then zeros then maybe a digit
            z = rng.range(1, 30)
            tail = rng.choice(['', '1', '5', '9'])
            out.append(PF(fmt, ds[:19], '0' * z + tail, e - 19, 'G-SEAM'))
        else:
            cut = rng.range(19, 21)
            out.append(PF(fmt, ds[:min(cut, ln)], ds[min(cut, ln):], e - 20, 'G-SEAM'))
    return out


def g_ext(rng, n, fmts=('f64', 'f32'), big=False):
    """extreme exponents, alone and compensated by long digit strings"""
    out = []
    specials = [I32_MIN, I32_MIN + 1, I32_MAX, I32_MAX - 1, -0x1000, -0x1000 - 1, -0x1000 + 1, 0x1000, 0x1000 - 1, 0x1000 + 1,
                -342, -343, -341, 308, 309, 307, -65, -66, -64, 38, 39, 37, -324, -325, -323, -45, -46, 400, -400, 401, -401,
                -0x8000, 0x7fff, 32767, -32768, 65536, -65536]
    for _ in range(n):
        fmt = rng.choice(fmts)
        e = rng.choice(specials) + rng.range(-2, 2)
        e = max(I32_MIN, min(I32_MAX, e))
        k = rng.below(6)
        if k == 0:
            ds = rng.digits(rng.range(1, 25), True)
            out.append(PF(fmt, ds, '', e, 'G-EXT'))
        elif k == 1:
            ds = rng.digits(rng.range(1, 25), True)
            out.append(PF(fmt, '', ds, e, 'G-EXT'))
        elif k == 2:
            # compensated by integer digits: value ~ 10^t with t small
            L = rng.choice([300, 400, 1000, 4000, 4096, 4097, 5000] + ([100000] if big else []))
            ds = rng.digits(L, True)
            t = rng.range(-330, 310) if fmt == 'f64' else rng.range(-50, 40)
            out.append(PF(fmt, ds, '', t - L, 'G-EXT/comp-int'))
        elif k == 3:
            # compensated by leading fraction zeros
            z = rng.choice([300, 400, 1000, 4090, 4096, 4100, 5000] + ([100000] if big else []))
            ds = rng.digits(rng.range(1, 30), True)
            t = rng.range(-330, 310) if fmt == 'f64' else rng.range(-50, 40)
            out.append(PF(fmt, '', '0' * z + ds, t + z, 'G-EXT/comp-frac'))
        elif k == 4:
            out.append(PF(fmt, '', '', e, 'G-EXT'))
        else:
            ds = rng.digits(rng.range(1, 800), True)
            out.append(PF(fmt, ds[:len(ds) // 2], ds[len(ds) // 2:], e, 'G-EXT'))
    return out


def g_sub(rng, n, fmts=('f64', 'f32')):
    """neighbourhoods of 2^(emin-1), 2^emin, smallest normal, overflow threshold"""
    out = []
    for _ in range(n):
        fmt = rng.choice(fmts)
        F = FMT[fmt]
        p, emax = F['p'], F['emax']
        emin = 3 - emax - p
        k = rng.below(6)
        if k == 0:
            mant, e2 = 1, emin - 1            # half the smallest subnormal
        elif k == 1:
            mant, e2 = rng.choice([1, 2, 3]), emin
        elif k == 2:
            mant, e2 = (1 << (p - 1)) + rng.range(-2, 2), emin      # around smallest normal
        elif k == 3:
            mant, e2 = (1 << (p + 1)) - 1, emax - p - 1  # overflow threshold 2^emax - 2^(emax-p-1)
        elif k == 4:
            mant, e2 = 2 * rng.range(1, 50) + 1, emin - 1   # subnormal midpoints
        else:
            mant, e2 = (1 << p) - 1, emax - p     # max finite
        d, e10 = exact_decimal(mant, e2)
        v = rng.below(6)
        if v == 0:
            _emit_decimal(fmt, d, e10, rng, 'G-SUB/exact', out)
        elif v == 1:
            pad = rng.choice([1, 5, 30, 400, 800])
            _emit_decimal(fmt, d + '0' * (pad - 1) + '1', e10 - pad, rng, 'G-SUB/+eps', out)
        elif v == 2:
            pad = rng.choice([1, 5, 30, 400, 800])
            dm = str(int(d) - 1).rjust(len(d), '0') + '9' * pad
            _emit_decimal(fmt, dm.lstrip('0') or '0', e10 - pad, rng, 'G-SUB/-eps', out)
        elif v == 3:
            # truncated to 17..25 digits, last digit +-1
            keep = rng.range(1, min(len(d), 25))
            hd = int(d[:keep]) + rng.choice([-1, 0, 1])
            if hd > 0:
                _emit_decimal(fmt, str(hd), e10 + len(d) - keep, rng, 'G-SUB/short', out)
        elif v == 4:
            _emit_decimal(fmt, d + '0' * rng.range(1, 30), e10 - 0, rng, 'G-SUB/x10^k', out, mode=0)
            out.pop()
            z = rng.range(1, 30)
            _emit_decimal(fmt, d + '0' * z, e10 - z, rng, 'G-SUB/zeros', out)
        else:
            hd = int(d) + rng.choice([-1, 1])
            _emit_decimal(fmt, str(hd), e10, rng, 'G-SUB/+-1', out)
    # every binade below the smallest subnormal down to 90 bits under it, and every binade of the
    # last 70 above the overflow threshold: short and long significands (deep underflow must give
    # +0.0 in every binade, not only next to the threshold; far overflow must give +inf)
    for _ in range(max(8, n // 6)):
        fmt = rng.choice(fmts)
        F = FMT[fmt]
        p, emax = F['p'], F['emax']
        emin = 3 - emax - p
        if rng.below(3):
            e2 = emin - 2 - rng.below(90)
        else:
            e2 = emax + rng.below(70)
        mant = (1 << 60) + rng.bits(60)           # value in [2^(e2+60), 2^(e2+61))
        d, e10 = exact_decimal(mant, e2 - 60)
        keep = rng.choice([1, 2, 3, 8, 16, 17, 19, 20, 25, 40])
        keep = min(keep, len(d))
        _emit_decimal(fmt, d[:keep], e10 + len(d) - keep, rng, 'G-SUB/deep', out)
    return out


def g_trunc(rng, n, fmts=('f64', 'f32')):
    """deciding digit at offsets MAX_DIGITS-2..+2 and around multiples of 19"""
    out = []
    for _ in range(n):
        fmt = rng.choice(fmts)
        F = FMT[fmt]
        md = F['max_digits']
        bits = rand_float_bits(rng, fmt)
        if bits > max_finite(fmt):
            continue
        d, e10 = midpoint_decimal(fmt, bits)
        if rng.below(2):
            pos = md + rng.range(-3, 3)
        else:
            pos = 19 * rng.range(1, md // 19 + 3) + rng.range(-1, 1)
        if pos <= len(d):
            # use a shorter "midpoint-like" prefix: truncate d then pad
            continue
        pad = pos - len(d) - 1
        k = rng.below(3)
        if k == 0:
            dd = d + '0' * pad + str(rng.range(1, 9))
            fam = 'G-TRUNC/+eps@%d' % pos
        elif k == 1:
            dd = (str(int(d) - 1).rjust(len(d), '0') + '9' * (pad + 1)).lstrip('0')
            fam = 'G-TRUNC/-eps@%d' % pos
        else:
            dd = d + '0' * (pad + 1)
            fam = 'G-TRUNC/zeros@%d' % pos
        ee = e10 - pad - 1
        extra = rng.choice([0, 0, 1, 5, 50])
        if extra and k != 2:
            dd += rng.digits(extra)
            ee -= extra
        _emit_decimal(fmt, dd, ee, rng, fam, out)
    return out


def g_garb(rng, n, maxlen=200):
    out = []
    for _ in range(n):
        fmt = rng.choice(['f64', 'f32'])

        def gb():
            k = rng.below(6)
            ln = rng.choice([0, 1, 2, 5, 19, 20, 21, 40, 100, maxlen]) if k else rng.range(0, maxlen)
            bs = bytearray()
            mode = rng.below(5)
            for _ in range(ln):
                if mode == 0:
                    bs.append(rng.below(256))
                elif mode == 1:
                    bs.append(rng.choice([0xff, 0xfe, 0x00, 0x2f, 0x3a, 0x39, 0x30]))
                elif mode == 2:
                    bs.append(rng.range(0x30, 0x39) if rng.below(10) else rng.below(256))
                elif mode == 3:
                    bs.append(0xff)
                else:
                    bs.append(rng.range(0x30, 0x39))
            # avoid whitespace/newline-free token issues: hex encode
            return 'x' + bs.hex() if bs else '-'
        i, f = gb(), gb()
        e = rng.choice([0, rng.range(-400, 400), rng.range(-5000, 5000), I32_MIN, I32_MAX, rng.range(I32_MIN, I32_MAX)])
        out.append(PF(fmt, i if i != '-' else '', f if f != '-' else '', e, 'G-GARB'))
    return out


# ---------------------------------------------------------------- exact modular search (Appendix D)
def first_in_range(a, m, l, r):
    """least x >= 0 with l <= (a*x mod m) <= r, or None.  Requires 0 <= l <= r < m."""
    a %= m
    if l == 0:
        return 0
    if a == 0:
        return None
    c = -(-l // a)          # ceil(l/a)
    if a * c <= r:
        return c
    # no multiple of a in [l, r]
    y = first_in_range(m % a, a, (-r) % a, (-l) % a)
    if y is None:
        return None
    return -(-(m * y + l) // a)


def solutions_in_range(a, m, l, r, x_lo, x_hi, limit):
    """up to `limit` x in [x_lo, x_hi] with (a*x mod m) in [l, r] (interval may wrap mod m)"""
    res = []
    l %= m
    r %= m
    intervals = [(l, r)] if l <= r else [(l, m - 1), (0, r)]
    for (ll, rr) in intervals:
        x0 = x_lo
        while len(res) < limit and x0 <= x_hi:
            off = (a * x0) % m
            # want (off + a*x) mod m in [ll, rr]
            lo2, hi2 = (ll - off) % m, (rr - off) % m
            if lo2 <= hi2:
                x = first_in_range(a, m, lo2, hi2)
            else:
                x = 0   # off itself already inside (wrapped interval contains 0)
            if x is None or x0 + x > x_hi:
                break
            res.append(x0 + x)
            x0 = x0 + x + 1
    return res[:limit]


def g_nt_stage(fmt, q, count, delta_bits, wlo=1 << 63, whi=(1 << 64) - 1):
    """Number-theoretic closest approaches: w in [wlo, whi] such that w*10^q is within a relative
    2^-delta_bits of a rounding boundary (midpoint) of the format.  Exact search."""
    F = FMT[fmt]
    p = F['p']
    res = []
    # significand in half-ulps: t = w*10^q / 2^(E-1), floats at even t, boundaries at odd t, t in [2^p, 2^(p+1))
    for hib in (0, 1):
        # choose E-1 =: s such that t = w*10^q*2^-s in [2^p, 2^(p+1)) for w ~ wlo*2^hib-ish
        wref = wlo if hib == 0 else whi
        if q >= 0:
            val_bl = (wref * 10 ** q).bit_length()
        else:
            num, den = wref, 10 ** (-q)
            val_bl = num.bit_length() - den.bit_length() + (1 if (num << max(0, den.bit_length() - num.bit_length())) >= (den << max(0, num.bit_length() - den.bit_length())) else 0)
        s = val_bl - (p + 1)
        # t = w * 5^q * 2^(q - s)
        k = q - s
        if q >= 0:
            if k >= 0:
                continue   # t is an integer multiple: exact, nothing near-halfway except ties
            # t = w*5^q / 2^(-k): boundary when w*5^q mod 2^(-k+1) == 2^(-k)
            m = 1 << (-k + 1)
            a = (5 ** q) % m
            target = 1 << (-k)
        else:
            n5 = 5 ** (-q)
            if k >= 0:
                # t = w * 2^k / 5^n : boundary when w*2^k mod 2*5^n == 5^n
                m = 2 * n5
                a = (1 << k) % m
                target = n5
            else:
                m = 2 * n5 << (-k)
                a = 1
                target = n5 << (-k)
        width = max(1, m >> delta_bits)
        sols = solutions_in_range(a, m, target - width, target + width, wlo, whi, count)
        res.extend(sols)
    return sorted(set(res))[:2 * count]


def g_dec(rng, fmts=('f64', 'f32'), extra=0):
    """every one-digit significand at every decimal exponent of the range (and a little beyond):
    d x 10^k - the shortest renderings of the 'round' floats, the top and bottom decades, the exact
    exponent limits of each algorithm (deterministic, ~12k cases), plus `extra` random 2-4 digit ones"""
    out = []
    for fmt in fmts:
        lo, hi = (-345, 311) if fmt == 'f64' else (-66, 41)
        for k in range(lo, hi + 1):
            for d in range(1, 10):
                out.append(PF(fmt, str(d), '', k, 'G-DEC'))
        for _ in range(extra):
            k = rng.range(lo, hi)
            out.append(PF(fmt, str(rng.range(10, 9999)), '', k, 'G-DEC/multi'))
    return out


def g_zlimb(rng, n, fmts=('f64',)):
    """slow-path inputs whose big integer has zero (or tiny) low limbs and needs a power >= 5^135:
    digits N = A * 2^(64 j) chosen so that N * 10^E is within ~2^-100 (relative) of a rounding
    boundary (so the extended-precision stage declines), E in 135..250.  Exercises the limb-skipping
    branches of long multiplication and vector growth by more than one limb."""
    out = []
    tries = 0
    while len(out) < n and tries < 20 * n:
        tries += 1
        fmt = rng.choice(fmts)
        F = FMT[fmt]
        p, emax = F['p'], F['emax']
        if fmt == 'f32':
            continue
        E = rng.range(135, 250)
        j = rng.range(1, 6)
        lo2 = (E * 333) // 100 + 64 * j + 52
        if lo2 > emax - p - 2:
            continue
        e2 = rng.range(lo2, emax - p - 2)          # boundary (2b+1) * 2^(e2-1), integer
        b = (1 << (p - 1)) + rng.bits(p - 1)
        mid = (2 * b + 1) << (e2 - 1)
        q = mid // (10 ** E)
        if q >> (64 * j + 100) == 0:
            continue
        A = q >> (64 * j)
        for dA in (0, 1):
            N = (A + dA) << (64 * j)
            if rng.below(3) == 0:
                N += rng.range(1, 90)            # tiny low limb instead of zero
            s_ = str(N)
            i, f, e = split_decimal(s_, E, rng, rng.choice([0, 0, 1]))
            if -2 ** 31 <= e < 2 ** 31:
                out.append(PF(fmt, i, f, e, 'G-ZLIMB'))
    return out


def g_topcarry(rng, n, fmts=('f64',), step=135):
    """slow-path inputs for which a partial product of the long multiplication by 5^step carries out
    of the top limb of the running sum (large_add_from with start > 0 and a final carry): the
    multi-limb multiplicand X has top limb t = floor(2^(64 k) / 5^step) (k = limbs of 5^step; t = 93
    for 5^135) and the limbs below it, read as a fraction, at least frac(2^(64 k) / 5^step).
    (a) positive scale: digits D with that shape, decimal exponent >= step, D * 10^E straddling a
    rounding boundary; (b) negative scale: boundaries (2m+1) * 2^(e2-1) written exactly, where
    (2m+1) * 5^(step*j) has that shape and the scale needs a further multiplication by 5^step."""
    out = []
    P = 5 ** step
    k = (P.bit_length() + 63) // 64
    lo_num, t = 1 << (64 * k), (1 << (64 * k)) // P          # X/2^(64 nl) in [2^(64k)/P, t+1)
    F = FMT['f64']
    p, emax = F['p'], F['emax']
    tries = 0
    while len(out) < n and tries < 40 * n:
        tries += 1
        if 'f64' not in fmts:
            break
        if rng.below(2) == 0:
            # (a) D = X, X in [lo, hi) * 2^(64 nl)
            nl = rng.range(1, 5)
            E = rng.range(step, 2 * step + 20)
            lo = -(-(lo_num << (64 * nl)) // P)
            hi = (t + 1) << (64 * nl)
            X = rng.range(lo, hi - 1)
            target = X * 10 ** E
            bl = target.bit_length()
            if bl > emax - 1:
                continue
            ulp = 1 << (bl - p)
            mid = (target // ulp) * ulp + ulp // 2
            D0 = mid // 10 ** E
            for D in (D0, D0 + 1):
                if not (lo <= D < hi):
                    continue
                i, f, e = split_decimal(str(D), E, rng, rng.choice([0, 0, 2, 3]))
                if -2 ** 31 <= e < 2 ** 31:
                    out.append(PF('f64', i, f, e, 'G-TOPCARRY/pos'))
        else:
            # (b) s = 2m+1 odd with p+1 bits, s * 5^(step*j) in [lo, hi) * 2^(64 nl) for some nl
            j = rng.range(1, 6)
            Q = 5 ** (step * j)
            # choose nl so that [lo, hi)*2^(64 nl) / Q meets [2^p, 2^(p+1))
            found = None
            for nl in range(1, 80):
                a = -(-((lo_num << (64 * nl))) // (P * Q))
                b_ = ((t + 1) << (64 * nl)) // Q
                a2, b2 = max(a, 1 << p), min(b_, (1 << (p + 1)) - 1)
                if a2 <= b2:
                    found = (a2, b2)
                    break
                if a > (1 << (p + 1)):
                    break
            if not found:
                # subnormal significands (fewer bits): take any nl that leaves at least one odd s >= 3
                for nl in range(1, 80):
                    a = -(-((lo_num << (64 * nl))) // (P * Q))
                    b_ = ((t + 1) << (64 * nl)) // Q
                    if 3 <= a <= b_ < (1 << p):
                        found = (a, b_)
                        break
                if not found:
                    continue
                s_ = rng.range(found[0], found[1]) | 1
                if not (found[0] <= s_ <= found[1]):
                    continue
                e2 = -(emax - 2) - (p - 1)          # subnormal spacing 2^(emin-p+1): b = m * 2^e2
            else:
                s_ = rng.range(found[0], found[1]) | 1
                if not (found[0] <= s_ <= found[1]):
                    continue
                emin2 = -(emax - 2) - (p - 1)
                hi_e2 = 1 - step * (j + 1)
                if hi_e2 < emin2:
                    continue
                e2 = rng.range(emin2, hi_e2)
            if -(e2 - 1) < step * (j + 1):
                continue
            d, e10 = exact_decimal(s_, e2 - 1)
            if len(d) > 767:
                continue
            v = rng.below(4)
            if v == 0:
                _emit_decimal('f64', d, e10, rng, 'G-TOPCARRY/neg-tie', out)
            elif v == 1:
                _emit_decimal('f64', d + '1', e10 - 1, rng, 'G-TOPCARRY/neg-tie+eps', out)
            elif v == 2:
                dm = str(int(d) - 1).rjust(len(d), '0')
                _emit_decimal('f64', (dm + '9').lstrip('0'), e10 - 1, rng, 'G-TOPCARRY/neg-tie-eps', out)
            else:
                _emit_decimal('f64', d, e10, rng, 'G-TOPCARRY/neg-tie', out)
    return out


def g_rescale(rng, n):
    """groups of inputs that share one digit string and are hard (within ~1e-18 of a rounding
    boundary, so that both extended-precision stages decline) at TWO decimal scales 10^3 apart:
    boundaries p * 2^s and p' * 2^(s+10) with 1024 p' - 1000 p = +-8 (p = +-43 + 128 t,
    p' = +-42 + 125 t, t odd), digits = the exact decimal of the point half way between p * 2^s and
    p' * 2^(s+10) / 1000.  Each group is [A, B, C]: A = the digits at the lower scale, B = the same
    digit bytes and the same exponent argument with the decimal point moved three places, C = A's
    split with the exponent argument + 3.  Used for call-history tests (a result must not depend on
    which input was parsed before)."""
    groups = []
    tries = 0
    while len(groups) < n and tries < 200 * n:
        tries += 1
        sg = rng.choice([1, -1])
        t = rng.range((1 << 53) // 125 + 2, (1 << 54) // 128 - 2) | 1
        p, p2 = sg * 43 + 128 * t, sg * 42 + 125 * t
        if not ((1 << 53) <= p < (1 << 54) and (1 << 53) <= p2 < (1 << 54)):
            continue
        if 1024 * p2 - 1000 * p != sg * 8 or p % 2 == 0 or p2 % 2 == 0:
            continue
        s = rng.range(-70, -3)
        k5 = 5 ** (-s)
        N = (1000 * p + sg * 4) * k5                   # value = N * 10^(s-3)
        lo_b, hi_b = sorted([1000 * p * k5, (1000 * p + sg * 8) * k5])
        ds = str(N)
        L = len(ds)
        if L < 23:
            continue
        w = int(ds[:19])
        unit = 10 ** (L - 19)
        if not (w * unit <= lo_b and hi_b < (w + 1) * unit):
            continue
        e10 = s - 3
        z = len(ds) - len(ds.rstrip('0'))
        ds, e10 = ds.rstrip('0'), e10 + z
        # A: d.ddd...  value ds * 10^e10
        A = PF('f64', ds[:1], ds[1:], e10 + len(ds) - 1, 'G-RESCALE/A')
        B = PF('f64', ds[:4], ds[4:], e10 + len(ds) - 1, 'G-RESCALE/B')      # same bytes, same exponent, point moved
        C = PF('f64', ds[:1], ds[1:], e10 + len(ds) - 1 + 3, 'G-RESCALE/C')  # same bytes and split, exponent + 3
        groups.append([A, B, C])
    return groups


def g_midcut(rng, n, fmts=('f64', 'f32'), edge_only=False):
    """integer rounding boundaries H = (2m+1) * 2^(e-1) cut at decimal digit E: the inputs
    floor(H / 10^E) * 10^E (just below H) and (floor(H / 10^E) + 1) * 10^E (just above), written with
    the exponent E (E at the table / power-step fence posts 19, 27, 28, 55, 134..136, 269..271 ...).
    For E >= 135 the exact product N * 5^E has a long run of zero limbs above its low part, which the
    long multiplication only produces through carries rippling across all-ones limb sums.
    edge_only: the top binade and the overflow threshold 2^emax - 2^(emax-p-1)."""
    out = []
    ES = [1, 2, 5, 18, 19, 20, 27, 28, 54, 55, 56, 100, 134, 135, 136, 150, 162, 200, 250, 269, 270, 271, 290]
    tries = 0
    while len(out) < n and tries < 20 * n:
        tries += 1
        fmt = rng.choice(fmts)
        F = FMT[fmt]
        p, emax = F['p'], F['emax']
        if edge_only:
            k = rng.below(3)
            if k == 0:
                mant, e2 = (1 << p) - 1, emax - p                       # threshold: (2^(p+1)-1) * 2^(emax-p-1)
            elif k == 1:
                mant, e2 = (1 << p) - 1 - rng.below(4), emax - p
            else:
                mant, e2 = (1 << (p - 1)) + rng.below(1 << (p - 1)), emax - p - rng.below(3)
        else:
            mant = (1 << (p - 1)) + rng.below(1 << (p - 1))
            e2 = rng.range(70, emax - p)
        if e2 - 1 < 0:
            continue
        H = (2 * mant + 1) << (e2 - 1)
        nd = len(str(H))
        cands = [E for E in ES if E + 21 <= nd]
        if not cands:
            continue
        E = rng.choice(cands)
        N0 = H // 10 ** E
        for N in (N0, N0 + 1):
            i, f, e = split_decimal(str(N), E, rng, rng.choice([0, 0, 0, 2, 3]))
            if -2 ** 31 <= e < 2 ** 31:
                out.append(PF(fmt, i, f, e, 'G-MIDCUT/%s' % ('below' if N == N0 else 'above')))
    return out


def g_limbmid(rng, fmts=('f64', 'f32'), groups=False):
    """integer rounding boundaries whose bit length is at (or one off) a multiple of the limb size:
    M = (2*sig+1) * 2^(L-p-1) with L in {64k-1, 64k, 64k+1, 32(2k+1)}, sig even / odd / all-ones /
    random, and M +- 2^b for b at the limb fence posts below the boundary (0, 31, 32, 63, 64, ...),
    plus M + 0.5 and M - 0.5 written with a fraction.  Deterministic apart from the random sig.
    These are the inputs on which the normalising shifts of hi64 (shift 0, shift 63, next limb
    only) and the 'truncated' flags of the big-integer comparison decide the result.
    groups=True returns lists of cases (one per boundary) whose values are pairwise comparable."""
    out = []
    for fmt in fmts:
        F = FMT[fmt]
        p, emax = F['p'], F['emax']
        Ls = set()
        for k in range(1, 17):
            for L in (64 * k - 1, 64 * k, 64 * k + 1, 64 * k - 32):
                if p + 2 <= L <= emax:
                    Ls.add(L)
        for L in sorted(Ls):
            sigs = [1 << (p - 1), (1 << (p - 1)) + 1, (1 << p) - 2, (1 << (p - 1)) + rng.bits(p - 1)]
            if L < emax:
                sigs.append((1 << p) - 1)
            for sig in sigs:
                sh = L - p - 1
                M = (2 * sig + 1) << sh
                g = [PF(fmt, str(M), '', 0, 'G-LIMB/tie'), PF(fmt, str(M), '5', 0, 'G-LIMB/tie+.5'),
                     PF(fmt, str(M - 1), '5', 0, 'G-LIMB/tie-.5')]
                bs = sorted(set(b for b in (0, 1, 31, 32, 33, 63, 64, 65, 127, 128, sh - 1, sh - 64, sh - 65, (sh // 64) * 64, (sh // 64) * 64 - 1) if 0 <= b < sh))
                for b in bs:
                    g.append(PF(fmt, str(M + (1 << b)), '', 0, 'G-LIMB/tie+2^b'))
                    g.append(PF(fmt, str(M - (1 << b)), '', 0, 'G-LIMB/tie-2^b'))
                # the same boundary reached through a power of ten: M*10 written with exponent -1
                g.append(PF(fmt, str(M + 1) + '0', '', -1, 'G-LIMB/tie+1,e-1'))
                out.append(g)
    if groups:
        return out
    return [c for g in out for c in g]
