"""Per-property checks.  Each function fills a Result and returns nothing; the verdict logic of
DESIGN.md 4.3 is in `finish_verdict`."""
import os, json, re, time, subprocess
from collections import Counter
from .common import *
from .oracle import *
from .gen import *
from .engine import *

ALL_MODES = ['release', 'checked']
MODEL_PLAN_FULL = [('s', 'release'), ('s', 'checked'), ('sc', 'release'), ('sc', 'checked')]
MODEL_PLAN_LIGHT = [('s', 'checked'), ('sc', 'checked')]


def scale(tier, q, t):
    return t if tier == 'thorough' else q


def finish_verdict(res, broken, corr_mismatch, suite_name):
    """Steps 3-5 of the verdict logic once the suites (= the search) have run."""
    if res.violations:
        return
    if corr_mismatch:
        m = corr_mismatch[0]
        res.violation('correspondence between model and implementation broken (%d cases); implementation agrees with the oracle on all of them'
                      % len(corr_mismatch),
                      {'broken': 'correspondence suite ' + suite_name, 'first_difference': m, 'count': len(corr_mismatch)},
                      key=None, no_input=True)
        return
    for what in ('harness', 'translator', 'srctranslator', 'theorem', 'model'):
        if what in broken:
            name = {'harness': 'harness build against /repo (correspondence cannot run)',
                    'translator': 'data translator (dump -> coq/gen)',
                    'srctranslator': 'source translator tools/rs2coq refused /repo/src (a declaration, attribute, import or impl block it relies on changed): the source tie of coq/props/%s.v is not established for the current code' % res.prop,
                    'theorem': 'theorem file coq/props/%s.v (or a lemma it depends on) no longer checks' % res.prop,
                    'model': 'extraction of the model'}[what]
            res.violation(name, {'broken': name, 'coqc_or_build_output': broken[what][-3000:]}, key=None, no_input=True)
            return


def judge_l0(res, run, in_domain, cfgs, modes, label, check_value=True, check_panic=True, known_key=None):
    """Compare implementation with oracle (value / panic) and with the model on every case in the
    property's domain.  Returns the list of model-vs-impl mismatches where the implementation is
    right (broken correspondence)."""
    corr = []
    nviol = 0
    for idx, c in enumerate(run.cases):
        if not in_domain(c, run.valid[idx]):
            continue
        exp = run.expected[idx]
        for cfg in cfgs:
            for mode in modes:
                out = run.impl[(cfg, mode)][idx]
                bad = None
                if run.valid[idx]:
                    if out.startswith('PANIC') or out.startswith('CRASH'):
                        if check_panic:
                            bad = 'valid input makes the parser panic/abort (%s)' % out
                    elif check_value and out != exp:
                        bad = 'wrong value: got %s expected %s' % (out, exp)
                if bad:
                    nviol += 1
                    if nviol <= 40:
                        key = known_key(c, cfg, mode, out) if known_key else None
                        rep = {'case': c.line(), 'family': c.fam, 'config': CFG_DESC[cfg], 'cfg': cfg, 'build': mode,
                               'observed': out, 'expected': exp, 'what': bad,
                               'replay_cmd': "echo '%s' | %s" % (c.line() if len(c.line()) < 3000 else '<case>', impl_exe(cfg, mode))}
                        res.violation('%s: %s' % (label, bad), rep, key=key)
                k = run.model_idx.get(idx)
                if k is not None and (cfg, mode) in run.model:
                    mo = run.model[(cfg, mode)][k]
                    if mo != out and not bad:
                        corr.append({'case': c.line()[:2000], 'cfg': cfg, 'build': mode, 'impl': out, 'model': mo, 'oracle': exp})
    return corr


def refine_violations(res, label):
    """Shrink the first violations and re-evaluate them inside Coq."""
    for v in res.violations[:2]:
        r = v['replay']
        if not isinstance(r, dict) or 'case' not in r or not r['case'].startswith('PF '):
            continue
        t = r['case'].split()
        fmt, i, f, e = t[1], ('' if t[2] == '-' else t[2]), ('' if t[3] == '-' else t[3]), int(t[4])
        if i.startswith('x') or f.startswith('x'):
            continue
        cfg, mode = r['cfg'], r['build']

        def fails(c):
            out = one_impl(cfg, mode, c.line())
            return out != 'V %016x' % rn_decimal(c.fmt, c.i, c.f, c.e)
        try:
            small = shrink_pf(PF(fmt, i, f, e, 'shrunk'), cfg, mode, fails)
            r['shrunk_case'] = small.line()
            r['shrunk_observed'] = one_impl(cfg, mode, small.line())
            r['shrunk_expected'] = 'V %016x' % rn_decimal(small.fmt, small.i, small.f, small.e)
            r['coq_reevaluation'] = coq_replay_eval(small.fmt, small.i, small.f, small.e, cfg, mode)
        except Exception as ex:
            r['shrink_error'] = str(ex)


def cross_check_oracle(res, run, n=60):
    """The Python oracle is validated against the Coq-defined RN (extracted) on a sample."""
    idxs = [i for i in range(len(run.cases)) if run.valid[i] and len(run.cases[i].i) + len(run.cases[i].f) < 900 and abs(run.cases[i].e) < 2000]
    step = max(1, len(idxs) // n)
    pick = idxs[::step][:n]
    lines = ['ORACLE %s %s %s %d' % (run.cases[i].fmt, run.cases[i].i or '-', run.cases[i].f or '-', run.cases[i].e) for i in pick]
    if not lines:
        return
    nsh = 16
    from concurrent.futures import ThreadPoolExecutor
    chunks = [lines[k::nsh] for k in range(nsh)]
    with ThreadPoolExecutor(max_workers=16) as ex:
        parts = list(ex.map(lambda ch: run_model('s', 'release', ch) if ch else [], chunks))
    out = [None] * len(lines)
    for k, part in enumerate(parts):
        out[k::nsh] = part
    bad = [(lines[k], out[k], run.expected[i]) for k, i in enumerate(pick) if out[k] != run.expected[i]]
    res.suite_stats['oracle_cross_check'] = {'cases': len(pick), 'disagreements': len(bad)}
    if bad:
        res.violation('Python oracle disagrees with the Coq-defined RN (machinery fault, not a code fault)',
                      {'broken': 'oracle cross-check', 'first': bad[0]}, no_input=True)


# ====================================================================== C01 / C02 / C04 / C05 / C06 / C07
def e2e_cases(prop, tier, rng):
    big = tier == 'thorough'
    k = scale(tier, 1, 12)
    if prop == 'C01':
        fm = ('f64',)
        cs = g_rand(rng, 2500 * k, fm) + g_mid(rng, 2500 * k, fm) + [c for c in g_fast(rng, 400 * k) if c.fmt == 'f64'] + \
            g_seam(rng, 300 * k, fm) + g_ext(rng, 300 * k, fm, big) + g_sub(rng, 400 * k, fm) + g_trunc(rng, 300 * k, fm) + nt_pf_cases('f64', rng, scale(tier, 3, 30)) + tie_pf_cases('f64', rng, scale(tier, 12, 100)) + g_dec(rng, fm, scale(tier, 500, 20000)) + g_zlimb(rng, scale(tier, 150, 3000)) + g_topcarry(rng, scale(tier, 150, 3000)) + g_midcut(rng, scale(tier, 300, 5000), fm) + g_limbmid(rng, fm)
    elif prop == 'C02':
        fm = ('f32',)
        cs = g_rand(rng, 2500 * k, fm) + g_mid(rng, 3000 * k, fm) + [c for c in g_fast(rng, 400 * k) if c.fmt == 'f32'] + \
            g_seam(rng, 300 * k, fm) + g_ext(rng, 300 * k, fm, big) + g_sub(rng, 400 * k, fm) + g_trunc(rng, 300 * k, fm) + nt_pf_cases('f32', rng, scale(tier, 8, 60)) + tie_pf_cases('f32', rng, scale(tier, 12, 100)) + g_dec(rng, fm, scale(tier, 500, 20000)) + g_midcut(rng, scale(tier, 200, 3000), fm) + g_limbmid(rng, fm)
    elif prop == 'C04':
        cs = g_seam(rng, 600 * k) + g_ext(rng, 1200 * k, big=big) + g_rand(rng, 2000 * k) + g_sub(rng, 300 * k) + g_mid(rng, 600 * k) + g_long(rng, scale(tier, 6, 40), big) + g_zlimb(rng, scale(tier, 200, 3000)) + g_topcarry(rng, scale(tier, 100, 2000)) + g_midcut(rng, scale(tier, 200, 3000)) + g_limbmid(rng)
    elif prop == 'C05':
        cs = g_rand(rng, 2500 * k) + g_mid(rng, 2500 * k) + g_fast(rng, 300 * k) + g_seam(rng, 200 * k) + g_ext(rng, 200 * k) + g_sub(rng, 300 * k) + g_trunc(rng, 300 * k) + g_dec(rng, extra=scale(tier, 500, 20000)) + g_zlimb(rng, scale(tier, 100, 2000)) + g_topcarry(rng, scale(tier, 150, 3000)) + g_midcut(rng, scale(tier, 300, 5000)) + g_limbmid(rng) + tie_pf_cases('f64', rng, scale(tier, 6, 60)) + tie_pf_cases('f32', rng, scale(tier, 6, 60))
    elif prop == 'C06':
        cs = g_mid(rng, 3500 * k, deep=(20, 21, 40, 100, 400, 767, 768, 769, 770, 771, 1000, 5000)) + g_trunc(rng, 1500 * k) + \
            [c for c in g_seam(rng, 600 * k)] + g_long(rng, scale(tier, 8, 60), big) + g_limbmid(rng) + g_topcarry(rng, scale(tier, 100, 2000)) + g_midcut(rng, scale(tier, 300, 5000))
        cs = [c for c in cs if len((c.i + c.f).lstrip('0')) >= 20]
    elif prop == 'C07':
        cs = g_sub(rng, 2500 * k) + g_ext(rng, 1500 * k, big=big) + g_mid(rng, 1500 * k, edge_only=True) + zero_sig_cases(rng, 100 * k) + [c for c in g_dec(rng) if abs(c.e) > (280 if c.fmt == 'f64' else 30)] + g_midcut(rng, scale(tier, 400, 6000), edge_only=True) + g_midcut(rng, scale(tier, 100, 2000))
    return cs


def zero_sig_cases(rng, n):
    out = []
    for _ in range(n):
        fmt = rng.choice(['f64', 'f32'])
        z = rng.choice([0, 1, 5, 19, 20, 21, 100, 800])
        e = rng.choice([0, 1, -1, 400, -400, I32_MIN, I32_MAX, rng.range(-5000, 5000)])
        out.append(PF(fmt, '', '0' * z, e, 'G-ZERO'))
    return out


def g_long(rng, n, big):
    """very long inputs (10^4 .. 10^6 digits)"""
    out = []
    for _ in range(n):
        fmt = rng.choice(['f64', 'f32'])
        L = rng.choice([10000, 30000, 100000] + ([300000, 1000000] if big else []))
        bits = rand_float_bits(rng, fmt)
        if bits > max_finite(fmt):
            continue
        d, e10 = midpoint_decimal(fmt, bits)
        k = rng.below(4)
        if L <= len(d) + 2:
            continue
        pad = L - len(d) - 1
        if k == 0:
            dd, ee, fam = d + '0' * pad + '1', e10 - pad - 1, 'G-LONG/tie+eps@%d' % L
        elif k == 1:
            dd, ee, fam = (str(int(d) - 1).rjust(len(d), '0') + '9' * (pad + 1)).lstrip('0'), e10 - pad - 1, 'G-LONG/tie-eps@%d' % L
        elif k == 2:
            dd, ee, fam = d + '0' * (pad + 1), e10 - pad - 1, 'G-LONG/tie+zeros@%d' % L
        else:
            dd, ee, fam = rng.digits(L, True), rng.range(-330, 300) - L, 'G-LONG/rand@%d' % L
        i, f, e = split_decimal(dd, ee, rng, rng.choice([0, 1, 2, 3]))
        if -2 ** 31 <= e < 2 ** 31:
            out.append(PF(fmt, i, f, e, fam))
    return out


_nt_cache = {}


def nt_stage_cases(fmt, rng, per_q, delta_bits=None):
    """(w, q) closest approaches for every q of the format's table range"""
    key = (fmt, per_q, delta_bits)
    if key in _nt_cache:
        return _nt_cache[key]
    lo, hi = (-342, 308) if fmt == 'f64' else (-65, 38)
    db = delta_bits or (56 if fmt == 'f64' else 58)
    out = []
    for q in range(lo, hi + 1):
        for w in g_nt_stage(fmt, q, per_q, db):
            out.append((w, q))
        # 19-digit significands (what parse_number produces when it truncates)
        for w in g_nt_stage(fmt, q, max(1, per_q // 2), db - 4, 10 ** 18, 10 ** 19 - 1):
            out.append((w, q))
    _nt_cache[key] = out
    return out


def nt_pf_cases(fmt, rng, per_q):
    out = []
    for (w, q) in nt_stage_cases(fmt, rng, per_q):
        for dw in (0, 1, -1):
            s = str(w + dw)
            out.append(PF(fmt, s, '', q, 'G-NT'))
        if 10 ** 18 <= w < 10 ** 19:
            # the truncated reading: 19 digits followed by more digits
            tail = rng.choice(['0' * rng.range(1, 5) + '1', '9' * rng.range(1, 30), rng.digits(rng.range(1, 40))])
            out.append(PF(fmt, str(w), tail, q, 'G-NT/trunc'))
    return out


def tie_pf_cases(fmt, rng, per_q):
    """exact ties w*10^q = (2m+1)*2^j constructed algebraically for every q inside and just outside
    the round-to-even window, as end-to-end inputs (w, w+1, w-1; also re-split and with trailing
    zeros moved into the exponent)"""
    from .props2 import g_tie_stage
    out = []
    for (w, q) in g_tie_stage(fmt, rng, per_q):
        s = str(w)
        out.append(PF(fmt, s, '', q, 'G-TIE'))
        if len(s) > 1 and rng.below(2):
            k = rng.range(1, len(s) - 1)
            out.append(PF(fmt, s[:k], s[k:], q + len(s) - k, 'G-TIE/split'))
    return out


def in_dom_all(c, valid):
    return valid


def check_e2e(res, prop, tier, rng):
    cfgs = CFGS
    broken = prepare(res, prop, cfgs)
    if 'harness' in broken:
        finish_verdict(res, broken, [], 'L0'); return
    cases = e2e_cases(prop, tier, rng)
    plan = MODEL_PLAN_FULL if 'model' not in broken else []
    run = l0_run(res, cases, cfgs, ALL_MODES, plan, model_budget=scale(tier, 700, 5000), rng=rng)
    if prop in ('C01', 'C02', 'C06', 'C07'):
        corr = judge_l0(res, run, in_dom_all, cfgs, ALL_MODES, prop)
    elif prop == 'C04':
        corr = judge_l0(res, run, in_dom_all, cfgs, ALL_MODES, prop, check_value=False)
    elif prop == 'C05':
        corr = judge_l0(res, run, lambda c, v: False, cfgs, ALL_MODES, prop)
        nviol = 0
        for idx, c in enumerate(run.cases):
            if not run.valid[idx]:
                continue
            outs = {(cfg, m): run.impl[(cfg, m)][idx] for cfg in cfgs for m in ALL_MODES}
            vals = Counter(outs.values())
            if len(vals) > 1:
                nviol += 1
                if nviol <= 20:
                    major = vals.most_common(1)[0][0]
                    odd = [(CFG_DESC[k[0]], k[1], v) for k, v in outs.items() if v != major][:4]
                    res.violation('configurations disagree', {'case': c.line(), 'family': c.fam, 'majority': major, 'others': odd,
                                                              'oracle': run.expected[idx], 'cfg': [k for k, v in outs.items() if v != major][0][0],
                                                              'build': [k for k, v in outs.items() if v != major][0][1]})
            k = run.model_idx.get(idx)
            if k is not None:
                for key2, mo in run.model.items():
                    if mo[k] != outs[key2]:
                        corr.append({'case': c.line()[:2000], 'cfg': key2[0], 'build': key2[1], 'impl': outs[key2], 'model': mo[k]})
    if prop == 'C02' and tier == 'thorough':
        # every f32 rounding boundary (2^31 - 2^23 midpoints), written out exactly: tie, tie + a deep
        # digit, tie - epsilon, on the real code; 1/8 of them per run (offset from the seed), all with VERIF_FULL=1
        stride = 1 if os.environ.get('VERIF_FULL') else 8
        exe = '%s/target/s-release/release/sweep' % CACHE
        rc, out, err = sh('%s f32mid %d %d' % (exe, stride, res.seed % stride), timeout=7000)
        res.suite_stats['f32_midpoint_sweep'] = out.strip()[-300:]
        mm = re.search(r'parses=(\d+)', out)
        if mm:
            res.evaluations += int(mm.group(1))
        if rc != 0:
            res.violation('f32 midpoint sweep: a rounding boundary is decided wrongly', {'output': out[-3000:], 'cfg': 's', 'build': 'release',
                          'replay_cmd': '%s f32mid %d %d' % (exe, stride, res.seed % stride)})
        elif stride == 1:
            res.coverage['exhaustive'] = True
    cross_check_oracle(res, run)
    refine_violations(res, prop)
    if prop in ('C01', 'C02', 'C05'):
        # what the harness observes are 8 feature combinations built with the hook feature on: code that
        # is conditional on anything else (or on the hook itself), or a changed Cargo.toml, is not observed
        from .props3 import config_inventory_check
        inv = config_inventory_check()
        res.suite_stats['config_inventory'] = inv['summary']
        if inv['diff']:
            corr.append({'case': 'build-configuration inventory of /repo (cfg / cfg! / env! predicates in every source file and front-end copy, functional lines of Cargo.toml, build scripts) differs from the one the harness configurations were chosen for: the compiled code the checks observe may not be the code a user builds', 'diff': inv['diff'][:20]})
    finish_verdict(res, broken, corr, 'L0 parse_float bits + build-configuration inventory')


# ====================================================================== C03 round trip
def render_floats(fmt, bits_list):
    """shortest / 9-17 digit renderings through Rust's own formatter (harness `render` binary)"""
    exe = '%s/target/s-release/release/render' % CACHE
    inp = '\n'.join('%s %d' % (fmt, b) for b in bits_list) + '\n'
    p = subprocess.run([exe], input=inp.encode(), capture_output=True, timeout=600)
    return p.stdout.decode().split('\n')[:len(bits_list)]


def sci_to_parts(s):
    """'d.ddde-5' -> (digits, e10)"""
    mant, ex = s.split('e')
    if '.' in mant:
        a, b = mant.split('.')
    else:
        a, b = mant, ''
    digits = (a + b)
    e10 = int(ex) - len(b)
    t = digits.rstrip('0') or '0'
    e10 += len(digits) - len(t)
    return t.lstrip('0') or '0', e10


def check_c03(res, tier, rng):
    cfgs = CFGS
    broken = prepare(res, 'C03', cfgs)
    if 'harness' in broken:
        finish_verdict(res, broken, [], 'L0'); return
    n = scale(tier, 6000, 150000)
    cases, want = [], {}
    for fmt in ('f32', 'f64'):
        F = FMT[fmt]
        bl = []
        top = 2 * F['emax'] - 2
        for _ in range(n):
            bl.append(rand_float_bits(rng, fmt))
        for e in range(0, top + 1, scale(tier, 7 if fmt == 'f64' else 1, 1)):   # every exponent field (stratified)
            bl.append((e << F['ms']) | rng.bits(F['ms']))
            bl.append((e << F['ms']))
            bl.append((e << F['ms']) | ((1 << F['ms']) - 1))
        # the floats nearest to d x 10^k for every decade (their shortest rendering is the one-digit
        # decimal: top decade 1e308 / 1e38, bottom decades, every algorithm limit) and to 2^k
        klo, khi = (-324, 308) if fmt == 'f64' else (-46, 38)
        for kk in range(klo, khi + 1):
            for dd in (1, 2, 3, 5, 9):
                bl.append(rn_decimal(fmt, str(dd), '', kk))
        # floats whose shortest rendering is short: nearest floats of m x 10^q, m of 1-7 digits
        for _ in range(n // 3):
            bl.append(rn_decimal(fmt, str(rng.range(1, 10 ** rng.range(1, 7))), '', rng.range(klo, khi)))
        # the floats of the fast-path fence posts (disguised range, products around 2^p / 2^64): their
        # shortest renderings are exactly those short decimals
        for c in g_fast(rng, scale(tier, 600, 6000)):
            if c.fmt == fmt and is_valid(c.i, c.f, c.e):
                bl.append(rn_decimal(fmt, c.i, c.f, c.e))
        bl = [b for b in bl if b <= max_finite(fmt)]
        rend = render_floats(fmt, bl)
        for b, r in zip(bl, rend):
            short, fixed = r.split()
            for kind, s in (('shortest', short), ('%d-digit' % (9 if fmt == 'f32' else 17), fixed)):
                d, e10 = sci_to_parts(s)
                if d == '0':
                    i, f, e = '', '', 0
                else:
                    i, f, e = split_decimal(d, e10, rng)
                c = PF(fmt, i, f, e, 'G-FLT/' + kind)
                cases.append(c); want[c.key()] = b
            mant, e2 = float_value(fmt, b)
            d, e10 = exact_decimal(mant, e2)
            if d == '0':
                i, f, e = '', '', 0
            else:
                i, f, e = split_decimal(d, e10, rng)
            c = PF(fmt, i, f, e, 'G-FLT/exact')
            cases.append(c); want[c.key()] = b
    run = l0_run(res, cases, cfgs, ALL_MODES, MODEL_PLAN_LIGHT if 'model' not in broken else [], model_budget=scale(tier, 500, 4000), rng=rng)
    nviol = 0
    for idx, c in enumerate(run.cases):
        b = want[c.key()]
        w = 'V %016x' % b
        # the rendering itself must denote a value that rounds to x (checks the generator, not the code)
        if run.expected[idx] != w:
            res.notes.append('generator: rendering %s does not round to the float it came from' % c.short())
            continue
        for cfg in cfgs:
            for m in ALL_MODES:
                out = run.impl[(cfg, m)][idx]
                if out != w:
                    nviol += 1
                    if nviol <= 20:
                        res.violation('round trip fails: %s parsed to %s, float was %s' % (c.fam, out, w),
                                      {'case': c.line(), 'family': c.fam, 'cfg': cfg, 'build': m, 'config': CFG_DESC[cfg], 'observed': out, 'expected': w})
    corr = judge_l0(res, run, lambda c, v: False, cfgs, ALL_MODES, 'C03')
    for idx, c in enumerate(run.cases):
        k = run.model_idx.get(idx)
        if k is None:
            continue
        for key2, mo in run.model.items():
            if mo[k] != run.impl[key2][idx]:
                corr.append({'case': c.line()[:2000], 'cfg': key2[0], 'build': key2[1], 'impl': run.impl[key2][idx], 'model': mo[k]})
    refine_violations(res, 'C03')
    if tier == 'thorough':
        # EVERY finite non-negative f32: shortest and 9-digit renderings (Rust's formatter) + exact
        # expansion of every 64th, on the real code; every second value per run, all with VERIF_FULL=1
        stride = 1 if os.environ.get('VERIF_FULL') else 2
        exe = '%s/target/s-release/release/sweep' % CACHE
        rc, out, err = sh('%s f32rt %d %d' % (exe, stride, res.seed % stride), timeout=7000)
        res.suite_stats['f32_roundtrip_sweep'] = out.strip()[-300:]
        mm = re.search(r'parses=(\d+)', out)
        if mm:
            res.evaluations += int(mm.group(1))
        if rc != 0:
            res.violation('f32 round-trip sweep: a printed float does not parse back', {'output': out[-3000:], 'cfg': 's', 'build': 'release',
                          'replay_cmd': '%s f32rt %d %d' % (exe, stride, res.seed % stride)})
        elif stride == 1:
            res.coverage['exhaustive'] = True
    finish_verdict(res, broken, corr, 'L0 parse_float bits on printed floats')


# ====================================================================== C09 monotone / C10 equal values
def value_key(c):
    """exact value as (int, exp10) normalised"""
    s = (c.i + c.f).lstrip('0')
    if not s:
        return (0, 0)
    E = c.e - len(c.f)
    t = s.rstrip('0')
    return (int(t), E + len(s) - len(t))


def cmp_values(a, b):
    (da, ea), (db, eb) = a, b
    if da == 0 or db == 0:
        return (da > 0) - (db > 0)
    # magnitude shortcut
    la, lb = len(str(da)) + ea, len(str(db)) + eb
    if la != lb:
        return 1 if la > lb else -1
    m = min(ea, eb)
    x, y = da * 10 ** (ea - m), db * 10 ** (eb - m)
    return (x > y) - (x < y)


def g_pair(rng, n, fmts=('f64', 'f32')):
    """ordered neighbours across every switch-over"""
    groups = []
    base = g_mid(rng, n // 3, fmts) + g_fast(rng, n // 6) + g_seam(rng, n // 6, fmts) + g_sub(rng, n // 6, fmts) + g_rand(rng, n // 6, fmts, maxlen=60)
    for c in base:
        s = c.i + c.f
        if not s or not is_valid(c.i, c.f, c.e):
            continue
        k = rng.below(4)
        E = c.e - len(c.f)
        v = int(s)
        if k == 0:       # last digit +-1 (successive significands)
            trio = [(v - 1, E), (v, E), (v + 1, E)]
        elif k == 1:     # same digits, successive exponents
            trio = [(v, E - 1), (v, E), (v, E + 1)] if v else [(v, E)]
        elif k == 2:     # a digit far out
            z = rng.choice([1, 20, 400, 800])
            trio = [(v * 10 ** z - 1, E - z), (v, E), (v * 10 ** z + 1, E - z)]
        else:            # w, w+1 at 19/20 digits
            trio = [(v, E), (v * 10 + 1, E - 1), (v * 10 + 9, E - 1), (v + 1, E)]
        g = []
        for (d, e10) in trio:
            if d < 0 or not (-2 ** 31 <= e10 < 2 ** 31 - 3000):
                continue
            if d == 0:
                g.append(PF(c.fmt, '', '', 0, 'G-PAIR'))
            else:
                i, f, e = split_decimal(str(d), e10, rng)
                g.append(PF(c.fmt, i, f, e, 'G-PAIR/' + c.fam.split('/')[0]))
        if len(g) >= 2:
            groups.append(g)
    # decade fences: 99..9 < 100..0 < 100..01 for every digit count, across every decimal exponent of
    # the range (the significand changes its number of digits; scientific_exponent's last step)
    for fmt in fmts:
        lo, hi = (-345, 310) if fmt == 'f64' else (-70, 42)
        for q in range(lo, hi):
            if rng.below(max(1, (hi - lo) * 19 // max(1, n // 6))) != 0:
                continue
            for L in range(1, 20):
                w = 10 ** L
                g = []
                for d in (w - 1, w, w + 1):
                    i, f, e = split_decimal(str(d), q - L, rng, 0)
                    g.append(PF(fmt, i, f, e, 'G-PAIR/decade'))
                groups.append(g)
    return groups


def check_c09(res, tier, rng):
    cfgs = CFGS
    broken = prepare(res, 'C09', cfgs)
    if 'harness' in broken:
        finish_verdict(res, broken, [], 'L0'); return
    groups = g_pair(rng, scale(tier, 9000, 120000)) + g_limbmid(rng, groups=True)
    cases = [c for g in groups for c in g]
    run = l0_run(res, cases, cfgs, ALL_MODES, MODEL_PLAN_LIGHT if 'model' not in broken else [], model_budget=scale(tier, 500, 3000), rng=rng)
    pos = {c.key(): i for i, c in enumerate(run.cases)}
    nviol, npairs = 0, 0
    for g in groups:
        for a in range(len(g)):
            for b2 in range(a + 1, len(g)):
                x, y = g[a], g[b2]
                cv = cmp_values(value_key(x), value_key(y))
                if cv > 0:
                    x, y = y, x
                npairs += 1
                ix, iy = pos[x.key()], pos[y.key()]
                for cfg in cfgs:
                    for m in ALL_MODES:
                        ox, oy = run.impl[(cfg, m)][ix], run.impl[(cfg, m)][iy]
                        if not (ox.startswith('V ') and oy.startswith('V ')):
                            continue
                        bx, by = int(ox[2:], 16), int(oy[2:], 16)
                        if bx > by or (cv == 0 and bx != by):
                            nviol += 1
                            if nviol <= 20:
                                res.violation('order inversion: value(a) <= value(b) but parse(a) > parse(b)',
                                              {'a': x.line(), 'b': y.line(), 'parse_a': ox, 'parse_b': oy, 'cfg': cfg, 'build': m, 'config': CFG_DESC[cfg],
                                               'oracle_a': run.expected[ix], 'oracle_b': run.expected[iy], 'case': x.line()})
    res.suite_stats['pairs_compared'] = npairs
    corr = judge_l0(res, run, lambda c, v: False, cfgs, ALL_MODES, 'C09')
    corr += model_mismatches(run)
    finish_verdict(res, broken, corr, 'L0 ordered pairs')


def model_mismatches(run):
    corr = []
    for idx, c in enumerate(run.cases):
        k = run.model_idx.get(idx)
        if k is None:
            continue
        for key2, mo in run.model.items():
            if mo[k] != run.impl[key2][idx]:
                corr.append({'case': c.line()[:2000], 'cfg': key2[0], 'build': key2[1], 'impl': run.impl[key2][idx], 'model': mo[k]})
    return corr


def g_split(rng, n, fmts=('f64', 'f32')):
    groups = []
    base = g_mid(rng, n // 2, fmts) + g_rand(rng, n // 4, fmts, maxlen=100) + g_seam(rng, n // 8, fmts) + g_sub(rng, n // 8, fmts)
    # short exact ties for every exponent of the round-to-even window (their spellings with digits
    # moved between significand and exponent reach different q), and one-digit decimals
    for fmt in fmts:
        base += [c for c in tie_pf_cases(fmt, rng, max(2, n // 800)) if c.fam == 'G-TIE']
    base += [c for c in g_dec(rng, fmts) if rng.below(12) == 0]
    # big-integer stage: zero limbs, top-limb carries, boundaries cut at a decimal digit (exponent >= 135)
    base += g_zlimb(rng, max(20, n // 25)) + g_topcarry(rng, max(20, n // 25)) + g_midcut(rng, max(40, n // 12), fmts)
    for c in base:
        s = (c.i + c.f)
        if not s.strip('0') or not is_valid(c.i, c.f, c.e):
            continue
        E = c.e - len(c.f)
        s = s.lstrip('0')
        g = []
        npts = min(len(s) + 1, 6)
        cuts = sorted(set([0, len(s)] + [rng.below(len(s) + 1) for _ in range(npts)] + [min(len(s), 19), min(len(s), 20)]))
        for cut in cuts:
            i, f = s[:cut], s[cut:]
            z = rng.choice([0, 0, 1, 2, 19, 40])
            e = E + len(f)
            if -2 ** 31 <= e < 2 ** 31:
                g.append(PF(c.fmt, i, f + '0' * z, e, 'G-SPLIT'))
        # leading fraction zeros with empty integer
        z = rng.choice([1, 5, 19, 20, 300])
        if -2 ** 31 <= E + len(s) + z < 2 ** 31:
            g.append(PF(c.fmt, '', '0' * z + s, E + len(s) + z, 'G-SPLIT/lead0'))
        # digits moved into the exponent (trailing zeros as integer digits)
        if E > 0 and E < 40:
            g.append(PF(c.fmt, s + '0' * E, '', 0, 'G-SPLIT/int0'))
        if E > 0:
            zz = rng.range(1, min(E, 25))
            g.append(PF(c.fmt, s + '0' * zz, '', E - zz, 'G-SPLIT/int0part'))
        if len(g) >= 2:
            groups.append(g)
    return groups


def check_c10(res, tier, rng):
    cfgs = CFGS
    broken = prepare(res, 'C10', cfgs)
    if 'harness' in broken:
        finish_verdict(res, broken, [], 'L0'); return
    groups = g_split(rng, scale(tier, 2500, 30000))
    cases = [c for g in groups for c in g]
    run = l0_run(res, cases, cfgs, ALL_MODES, MODEL_PLAN_LIGHT if 'model' not in broken else [], model_budget=scale(tier, 500, 3000), rng=rng)
    pos = {c.key(): i for i, c in enumerate(run.cases)}
    nviol = 0
    for g in groups:
        for cfg in cfgs:
            for m in ALL_MODES:
                outs = [(c, run.impl[(cfg, m)][pos[c.key()]]) for c in g]
                vals = set(o for _, o in outs)
                if len(vals) > 1:
                    nviol += 1
                    if nviol <= 20:
                        a, b2 = outs[0], [o for o in outs if o[1] != outs[0][1]][0]
                        res.violation('same value, different bits', {'a': a[0].line(), 'b': b2[0].line(), 'parse_a': a[1], 'parse_b': b2[1],
                                                                      'cfg': cfg, 'build': m, 'config': CFG_DESC[cfg], 'oracle': run.expected[pos[a[0].key()]], 'case': b2[0].line()})
    res.suite_stats['groups'] = len(groups)
    corr = model_mismatches(run)
    finish_verdict(res, broken, corr, 'L0 re-split groups')
