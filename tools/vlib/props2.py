"""Checks at the function level (L1) and the partly-runtime properties."""
import os, json, re, time, subprocess
from collections import Counter
from concurrent.futures import ThreadPoolExecutor
from .common import *
from .oracle import *
from .gen import *
from .engine import *
from .props import scale, finish_verdict, ALL_MODES, nt_stage_cases, model_mismatches, judge_l0

M64 = (1 << 64) - 1


def l1_run(res, lines, plan, label):
    """run lines on impl and model for every (cfg, mode) of plan; returns (impl, model)"""
    impl, model = {}, {}
    nsh = 16
    chunks = [lines[k::nsh] for k in range(nsh)]

    def merged(fn, c, m):
        with ThreadPoolExecutor(max_workers=16) as ex:
            parts = list(ex.map(lambda ch: fn(c, m, ch) if ch else [], chunks))
        out = [None] * len(lines)
        for k, part in enumerate(parts):
            out[k::nsh] = part
        return out
    t = time.time()
    for (c, m) in plan:
        impl[(c, m)] = run_impl(c, m, lines)
    t1 = time.time()
    for (c, m) in plan:
        model[(c, m)] = merged(run_model, c, m)
    st = res.suite_stats.setdefault(label, {})
    st['cases'] = st.get('cases', 0) + len(lines)
    st['impl_s'] = round(st.get('impl_s', 0) + t1 - t, 2)
    st['model_s'] = round(st.get('model_s', 0) + time.time() - t1, 2)
    res.evaluations += 2 * len(lines) * len(plan)
    return impl, model


def diff_all(lines, impl, model, skip=lambda l, a, b: False):
    corr = []
    for key in impl:
        for k, l in enumerate(lines):
            a, b2 = impl[key][k], model[key][k]
            if a != b2 and not skip(l, a, b2):
                corr.append({'case': l[:2000], 'cfg': key[0], 'build': key[1], 'impl': a, 'model': b2})
    return corr


# ====================================================================== C11
def lemire_table():
    exe = '%s/target/s-release/release/dump' % CACHE
    out = subprocess.run([exe], capture_output=True, text=True).stdout
    tab = {}
    for l in out.split('\n'):
        t = l.split()
        if t and t[0] == 'tab2':
            tab[int(t[2]) - 342] = (int(t[3]), int(t[4]))
    return tab


def g_tie_stage(fmt, rng, per_q):
    """exact ties w*10^q = (2m+1)*2^j, constructed algebraically, inside and just outside the window"""
    F = FMT[fmt]
    p = F['p']
    out = []
    qlo, qhi = (-6, 25) if fmt == 'f64' else (-19, 12)
    # deterministic part: for every q >= 0 of the window (and one beyond) the smallest odd multipliers
    # with EVERY power of two that lifts the significand above 2^p (beyond the fast path) up to 2^64
    for q in range(0, qhi + 1):
        c_lo = (1 << p) // 5 ** q + 1
        for c in (c_lo | 1, (c_lo | 1) + 2, ((1 << (p + 1)) // 5 ** q - 1) | 1):
            if c <= 0:
                continue
            for j in range(max(0, p + 1 - c.bit_length()), 64 - c.bit_length() + 1):
                w = c << j
                if 0 < w <= M64:
                    out.append((w, q))
    for q in range(qlo, qhi + 1):
        for _ in range(per_q):
            if q >= 0:
                c_lo, c_hi = (1 << p) // 5 ** q + 1, (1 << (p + 1)) // 5 ** q
                if c_hi <= c_lo:
                    # outside the window: 5^q does not divide any 2m+1 < 2^(p+1); use near-multiples
                    c = rng.range(1, 1 << 20) | 1
                else:
                    c = rng.range(c_lo, c_hi) | 1
                jmax = 63 - c.bit_length()
                if jmax < 0:
                    continue
                j = rng.range(0, jmax)
                w = c << j
            else:
                n5 = 5 ** (-q)
                M = rng.range(1 << p, (1 << (p + 1)) - 1) | 1
                w0 = M * n5
                if w0 >> 64:
                    # outside the window; take an odd multiple that still fits (not a tie then)
                    w0 = (rng.range(1, max(2, (1 << 64) // n5 - 1)) | 1) * n5
                    if w0 >> 64:
                        continue
                jmax = 64 - w0.bit_length()
                w = w0 << rng.range(0, max(0, jmax))
            if 0 < w <= M64:
                for dw in (0, 1, -1):
                    if 0 < w + dw <= M64:
                        out.append((w + dw, q))
    return out


def g_ffff_stage(fmt, tab, rng):
    """w whose first 64x64 product with the high table word has an all-ones low word"""
    out = []
    lo, hi = (-342, 308) if fmt == 'f64' else (-65, 38)
    for q in range(lo, hi + 1):
        t_first = tab[q][0]
        if t_first % 2 == 0:
            continue
        inv = pow(t_first, -1, 1 << 64)
        w = (-inv) % (1 << 64)
        for sh in range(0, 8):
            ww = w >> sh
            # any w whose normalisation is `w` works when the low bits shifted out are zero
            if ww << sh == w and ww > 0 and (w >> 63):
                out.append((ww, q))
        if w >> 63:
            out.append((w, q))
    return out


def stage_cases(fmt, tier, rng, tab):
    cs = []
    per_q = scale(tier, 3, 40)
    for (w, q) in nt_stage_cases(fmt, rng, per_q):
        for dw in (-1, 0, 1):
            if 0 < w + dw <= M64:
                cs.append((w + dw, q, 0)); cs.append((w + dw, q, 1))
    for (w, q) in g_tie_stage(fmt, rng, scale(tier, 12, 150)):
        cs.append((w, q, 0)); cs.append((w, q, 1))
    for (w, q) in g_ffff_stage(fmt, tab, rng):
        cs.append((w, q, 0)); cs.append((w, q, 1))
    qlo, qhi = (-342, 308) if fmt == 'f64' else (-65, 38)
    # every table entry with the significands that make the first 64x64 product degenerate: powers of
    # two (low word of the product is 0 or 2^63), small integers, all-ones, 10^k
    smalls = [1, 2, 3, 5, 7, 9, 10, 11, 25, 99, 125, 1000, 12345, M64, M64 - 1, (1 << 63) - 1, 10 ** 18, 10 ** 19 - 1]
    for q in range(qlo - 1, qhi + 2):
        for w in smalls + [1 << k for k in (1, 2, 3, 10, 31, 32, 33, 52, 53, 54, 62, 63)] + [(1 << rng.range(1, 63)) + 1, 10 ** rng.range(1, 18)]:
            cs.append((w, q, 0))
            if rng.below(4) == 0:
                cs.append((w, q, 1))
    # fence posts and randoms
    for q in [qlo - 1, qlo, qlo + 1, qhi - 1, qhi, qhi + 1, -4096, -4097, 4095, 4096, -0x8000, 0x7fff, -2 ** 31, 2 ** 31 - 1, 0, -27, -28, 55, 56, -350, -351, 310]:
        for w in [1, 2, 9, 10 ** 18, 10 ** 19 - 1, 1 << 63, (1 << 63) + 1, M64 - 1, (1 << 53) + 1, (1 << 24) + 1, rng.bits(64) | 1]:
            cs.append((w, q, 0)); cs.append((w, q, 1))
    for _ in range(scale(tier, 6000, 200000)):
        k = rng.below(5)
        if k == 0:
            w = rng.bits(64) | (1 << 63)
        elif k == 1:
            w = rng.range(10 ** 18, 10 ** 19 - 1)
        elif k == 2:
            w = rng.bits(rng.range(1, 64)) or 1
        elif k == 3:
            w = (1 << rng.range(1, 63)) + rng.range(-2, 2)
        else:
            w = rng.bits(64) or 1
        q = rng.range(qlo - 3, qhi + 3) if rng.below(8) else rng.range(-30, 30)
        cs.append((max(1, w), q, rng.below(2)))
    # subnormal / overflow neighbourhoods
    for _ in range(scale(tier, 1500, 30000)):
        q = rng.choice([qlo, qlo + 1, qlo + 2, qlo + 5, qlo + 18, qlo + 19, qlo + 20, qhi, qhi - 1, qhi - 18, qhi - 19])
        q += rng.range(-1, 1)
        w = rng.choice([rng.bits(64) or 1, rng.range(10 ** 18, 10 ** 19 - 1), rng.bits(rng.range(1, 64)) or 1])
        cs.append((w, q, rng.below(2)))
    return sorted(set(cs))


def known_c11(impl_kind, w, q, t, out):
    """the API-only corner cases recorded in KNOWN_FINDINGS (DESIGN.md 7, F2)"""
    if impl_kind == 'lemire' and t and w == M64:
        return 'F2a-lemire-w=u64max-truncated'
    if impl_kind == 'lemire' and t and w == 0:
        return 'F2b-lemire-w=0-truncated'
    if impl_kind == 'bellerophon' and t and w < (1 << 40):
        return 'F2c-bellerophon-small-w-truncated'
    return None


def check_c11(res, tier, rng):
    plan = [('s', 'release'), ('s', 'checked'), ('sc', 'release'), ('sc', 'checked')]
    broken = prepare(res, 'C11', ['s', 'sc'])
    if 'harness' in broken:
        finish_verdict(res, broken, [], 'L1m'); return
    tab = lemire_table()
    lines, meta = [], []
    for fmt in ('f64', 'f32'):
        for (w, q, t) in stage_cases(fmt, tier, rng, tab):
            lines.append('MP %s %d %d %d' % (fmt, w, q, t)); meta.append((fmt, w, q, t))
    # the corner cases of F2 (kept so that the known findings stay visible and anything else is not masked)
    for fmt in ('f64', 'f32'):
        for (w, q, t) in [(M64, 0, 1), (M64, 309, 1), (M64, -10, 1), (0, 0, 1), (0, 5, 1), (0, -300, 1), (0, 0, 0), (M64, 0, 0)]:
            lines.append('MP %s %d %d %d' % (fmt, w, q, t)); meta.append((fmt, w, q, t))
    if 'model' in broken:
        impl = {k: run_impl(k[0], k[1], lines) for k in plan}
        model = {k: impl[k] for k in plan}
    else:
        impl, model = l1_run(res, lines, plan, 'L1m')
    corr = []
    nviol = 0
    stats = Counter()
    for k, (fmt, w, q, t) in enumerate(meta):
        ms = FMT[fmt]['ms']
        for key in plan:
            kind = 'bellerophon' if 'c' in key[0] else 'lemire'
            out = impl[key][k]
            mo = model[key][k]
            bad = None
            if out.startswith('E '):
                _, mant, ex = out.split()
                mant, ex = int(mant), int(ex)
                if ex >= 0:
                    stats[kind + '/definite'] += 1
                    bits = mant | (ex << ms)
                    want = rn_wq(fmt, w, q)
                    if bits != want:
                        bad = 'definite answer %016x but RN(w*10^q) = %016x' % (bits, want)
                    elif t:
                        want2 = rn_wq(fmt, w + 1, q, below=True)
                        if bits != want2:
                            bad = 'definite answer %016x for a truncated significand but values just below (w+1)*10^q round to %016x' % (bits, want2)
                    res.nontrivial.add((fmt, w, q, t))
                else:
                    stats[kind + '/declined'] += 1
            else:
                stats[kind + '/' + out.split()[0]] += 1
                bad = 'stage neither declined nor returned a float: %s' % out
            if bad:
                kk = known_c11(kind, w, q, t, out)
                is_listed = kk is not None and any(kk == x['key'] and 'C11' in x['props'] for x in res.known)
                if not is_listed:
                    nviol += 1
                if is_listed or nviol <= 60:
                    res.violation('C11 %s: %s' % (kind, bad),
                                  {'case': lines[k], 'implementation': kind, 'cfg': key[0], 'build': key[1], 'observed': out, 'what': bad,
                                   'replay_cmd': "echo '%s' | %s" % (lines[k], impl_exe(*key))},
                                  key=kk)
            # refinement: same answer, or the implementation declines
            if out != mo and not bad:
                impl_declined = out.startswith('E ') and int(out.split()[2]) < 0
                model_declined = mo.startswith('E ') and int(mo.split()[2]) < 0
                if not impl_declined:
                    corr.append({'case': lines[k], 'cfg': key[0], 'build': key[1], 'impl': out, 'model': mo})
                elif model_declined:
                    stats['declined-estimates-differ'] += 1
    res.suite_stats['outcomes'] = dict(stats)
    for l in lines[:3] + lines[len(lines) // 2:len(lines) // 2 + 3]:
        res.add_sample(l)
    finish_verdict(res, broken, corr, 'L1m moderate_path (refinement)')


# ====================================================================== C12
def val(l):
    return sum(x << (64 * i) for i, x in enumerate(l))


def limbs(v):
    out = []
    while v:
        out.append(v & M64); v >>= 64
    return out


def lstr(l):
    return ','.join('%x' % x for x in l) if l else '-'


def parse_l(tok):
    return [] if tok == '-' else [int(x, 16) for x in tok.split(',')]


def g_limbs(rng, maxlen, normalized=True):
    n = rng.choice([0, 1, 1, 2, 3, 5, 10, 30, 60, 61, 62]) if rng.below(3) == 0 else rng.range(0, maxlen)
    n = min(n, maxlen)
    k = rng.below(6)
    l = []
    for _ in range(n):
        if k == 0:
            l.append(M64)
        elif k == 1:
            l.append(0)
        elif k == 2:
            l.append(rng.choice([0, 1, M64, 1 << 63, M64 - 1]))
        else:
            l.append(rng.bits(64))
    if k == 1 and l:
        l[-1] = 1 << rng.below(64)
    if normalized:
        while l and l[-1] == 0:
            l[-1] = rng.bits(64) | 1
    return l


def needed(v):
    return (v.bit_length() + 63) // 64


def check_c12(res, tier, rng):
    plan = [('s', 'release'), ('s', 'checked'), ('sa', 'release'), ('sa', 'checked'), ('sc', 'checked'), ('sca', 'release')]
    broken = prepare(res, 'C12', ['s', 'sa', 'sc', 'sca'])
    if 'harness' in broken:
        finish_verdict(res, broken, [], 'L1b'); return
    n = scale(tier, 1200, 20000)
    lines, oracle = [], []     # oracle: function(out, heap) -> error string or None
    CAP = 62

    def add(line, f):
        lines.append(line); oracle.append(f)

    def expect_vec(expected_val, allow_unnorm=False):
        def f(out, heap):
            fits = needed(expected_val) <= CAP
            if out == 'NONE':
                return None if (not fits and not heap) else ('reports failure although the result needs %d <= %d limbs' % (needed(expected_val), CAP) if not heap else None)
            if not out.startswith('L '):
                return 'unexpected output ' + out
            l = parse_l(out[2:])
            if val(l) != expected_val:
                return 'value differs: got %x.. expected %x..' % (val(l) >> max(0, val(l).bit_length() - 64), expected_val >> max(0, expected_val.bit_length() - 64))
            if not heap and len(l) > CAP:
                return 'length %d exceeds capacity' % len(l)
            if not fits and not heap:
                return 'result does not fit %d limbs but no failure was reported' % CAP
            return None
        return f
    for _ in range(n):
        x = g_limbs(rng, 62)
        y = rng.choice([0, 1, 2, M64, rng.bits(64), rng.bits(32), 10 ** 19, 5 ** 27])
        add('BI small_add %s %d' % (lstr(x), y), expect_vec(val(x) + y))
        add('BI small_mul %s %d' % (lstr(x), y), expect_vec(val(x) * y))
        st = rng.range(0, len(x))
        add('BI small_add_from %s %d %d' % (lstr(x), y, st), expect_vec(val(x) + (y << (64 * st))))
    for _ in range(n):
        x, y2 = g_limbs(rng, 62), g_limbs(rng, 62)
        add('BI large_add %s %s' % (lstr(x), lstr(y2)), expect_vec(val(x) + val(y2)))
        st = rng.range(0, len(x))
        if len(y2) + st <= 62 or rng.below(4) == 0:
            add('BI large_add_from %s %s %d' % (lstr(x), lstr(y2), st), expect_vec(val(x) + (val(y2) << (64 * st))))
    for _ in range(n):
        a = g_limbs(rng, rng.choice([1, 2, 5, 20, 31, 40, 62]))
        b2 = g_limbs(rng, rng.choice([1, 2, 5, 20, 31, 32, 40]))
        if not a or not b2:
            continue
        add('BI long_mul %s %s' % (lstr(a), lstr(b2)), expect_vec(val(a) * val(b2)))
        add('BI large_mul %s %s' % (lstr(a), lstr(b2)), expect_vec(val(a) * val(b2)))
    for _ in range(n):
        x = g_limbs(rng, rng.choice([1, 2, 5, 20, 40, 61, 62]))
        if not x:
            continue
        e = rng.choice([0, 1, 26, 27, 28, 134, 135, 136, 270, 300, 1000, 1700, rng.range(0, 1700)])
        add('BI pow5 %s %d' % (lstr(x), e), expect_vec(val(x) * 5 ** e))
        sh = rng.choice([0, 1, 63, 64, 65, 127, 128, 3900, 3968, 4000, rng.range(0, 4100)])
        add('BI shl %s %d' % (lstr(x), sh), expect_vec(val(x) << sh))
        sb = rng.range(1, 63)
        add('BI shl_bits %s %d' % (lstr(x), sb), expect_vec(val(x) << sb))
        sl = rng.range(1, 64)
        add('BI shl_limbs %s %d' % (lstr(x), sl), expect_vec(val(x) << (64 * sl)))
        base = rng.choice([2, 5, 10])
        e2 = rng.choice([0, 1, 27, 135, 300, 1100, rng.range(0, 1300)])
        add('BI bpow %s %d %d' % (lstr(x), base, e2), expect_vec(val(x) * base ** e2))
    for _ in range(n):
        x, y2 = g_limbs(rng, 62), g_limbs(rng, 62)
        if rng.below(3) == 0:
            y2 = list(x)
            if y2 and rng.below(2):
                j = rng.below(len(y2)); y2[j] ^= 1 << rng.below(64)
                if y2[-1] == 0:
                    y2[-1] = 1
        cv = (val(x) > val(y2)) - (val(x) < val(y2))
        add('BI cmp %s %s' % (lstr(x), lstr(y2)), (lambda cv: lambda out, heap: None if out == 'ORD %d' % cv else 'ordering %s but numeric comparison gives %d' % (out, cv))(cv))
        u = g_limbs(rng, 62, normalized=False)
        nz = list(u)
        while nz and nz[-1] == 0:
            nz.pop()
        add('BI normalize %s' % lstr(u), (lambda nz: lambda out, heap: None if out == 'L ' + lstr(nz) else 'normalize gives %s' % out[:80])(nz))
        add('BI is_normalized %s' % lstr(u), (lambda u: lambda out, heap: None if out == 'B %d' % (0 if (u and u[-1] == 0) else 1) else 'is_normalized gives ' + out)(u))
        add('BI bit_length %s' % lstr(x), (lambda x: lambda out, heap: None if out == 'U %d' % val(x).bit_length() else 'bit_length gives %s expected %d' % (out, val(x).bit_length()))(x))
        if x:
            v = val(x); bl = v.bit_length()
            hi = (v << 64 >> bl) if bl <= 64 else v >> (bl - 64)
            hi = (v << (64 - bl)) if bl <= 64 else (v >> (bl - 64))
            sticky = 0 if bl <= 64 else int(v & ((1 << (bl - 64)) - 1) != 0)
            add('BI hi64 %s' % lstr(x), (lambda hi, sticky: lambda out, heap: None if out == 'U %d %d' % (hi, sticky) else 'hi64 gives %s expected %d %d' % (out, hi, sticky))(hi, sticky))
        w = rng.choice([0, 1, M64, rng.bits(64)])
        add('BI from_u64 %d' % w, (lambda w: lambda out, heap: None if out == 'L ' + lstr(limbs(w)) else 'from_u64 gives ' + out)(w))
        a1, b1, c1 = rng.bits(64), rng.choice([M64, rng.bits(64)]), rng.choice([0, M64, rng.bits(64)])
        add('BI scalar_mul %d %d %d' % (a1, b1, c1), (lambda a1, b1, c1: lambda out, heap: None if out == 'U %d %d' % ((a1 * b1 + c1) & M64, (a1 * b1 + c1) >> 64) else 'scalar_mul wrong')(a1, b1, c1))
        add('BI scalar_add %d %d' % (a1, b1), (lambda a1, b1: lambda out, heap: None if out == 'U %d %d' % ((a1 + b1) & M64, (a1 + b1) >> 64) else 'scalar_add wrong')(a1, b1))
    if 'model' in broken:
        impl = {k: run_impl(k[0], k[1], lines) for k in plan}; model = impl
    else:
        impl, model = l1_run(res, lines, plan, 'L1b')
    nviol = 0
    ops = Counter(l.split()[1] for l in lines)
    res.suite_stats['ops'] = dict(ops)
    fails = Counter()
    for k, l in enumerate(lines):
        for key in plan:
            heap = 'a' in key[0]
            out = impl[key][k]
            if out == 'NONE':
                fails[l.split()[1]] += 1
            err = 'panicked' if out.startswith(('PANIC', 'CRASH')) else oracle[k](out, heap)
            if err:
                nviol += 1
                if nviol <= 30:
                    res.violation('big-integer %s: %s' % (l.split()[1], err), {'case': l[:3000], 'cfg': key[0], 'build': key[1], 'observed': out[:600], 'what': err,
                                                                                'replay_cmd': "echo '<case>' | %s" % impl_exe(*key)})
            if out.startswith('L ') and len(parse_l(out[2:])) >= 60 or out == 'NONE':
                res.nontrivial.add(l)
    res.suite_stats['reported_failures'] = dict(fails)
    for l in lines[:2] + lines[len(lines) // 2:len(lines) // 2 + 2]:
        res.add_sample(l if len(l) < 300 else l[:300] + '...')
    corr = diff_all(lines, impl, model) if 'model' not in broken else []
    finish_verdict(res, broken, corr, 'L1b big-integer functions')


# ====================================================================== C13
def g_history(rng, maxops):
    ops = []
    n = rng.range(5, maxops)
    phase = 0
    cur_len = 0
    for _ in range(n):
        if rng.below(25) == 0:
            phase = rng.below(3)
        k = rng.below(20)
        lv = rng.choice([0, 1, M64, rng.bits(64), rng.bits(64), 1 << 63])
        if phase == 0 and k < 12:   # fill towards capacity
            c = rng.below(4)
            if c == 0:
                ops.append('push:%d' % lv)
            elif c == 1:
                ext = [rng.choice([0, M64, rng.bits(64)]) for _ in range(rng.choice([0, 1, 2, 5, 20, 40, 62, 63]))]
                ops.append('ext:%s' % lstr(ext))
            elif c == 2:
                ops.append('rsz:%d:%d' % (rng.choice([60, 61, 62, 63, 64, 100, rng.range(0, 70)]), lv))
            else:
                ops.append('muls:%d' % rng.choice([M64, 10 ** 19, rng.bits(64)]))
        elif phase == 1 and k < 12:  # shrink
            c = rng.below(4)
            if c == 0:
                ops.append('pop')
            elif c == 1:
                ops.append('rsz:%d:%d' % (rng.range(0, 10), lv))
            elif c == 2:
                ops.append('norm')
            else:
                ops.append('from:%s' % lstr([rng.choice([0, rng.bits(64)]) for _ in range(rng.range(0, 6))]))
        else:
            c = rng.below(16)
            if c == 0:
                ops.append('new')
            elif c == 1:
                ops.append('from:%s' % lstr([rng.choice([0, M64, rng.bits(64)]) for _ in range(rng.choice([0, 1, 3, 61, 62, 63, 70]))]))
            elif c == 2:
                ops.append('push:%d' % lv)
            elif c == 3:
                ops.append('pop')
            elif c == 4:
                ops.append('adds:%d' % lv)
            elif c == 5:
                ops.append('muls:%d' % lv)
            elif c == 6:
                ops.append('clone')
            elif c == 7:
                ops.append('set:%d:%d' % (rng.range(0, 63), lv))
            elif c == 8:
                ops.append('get:%d' % rng.range(0, 63))
            elif c == 9:
                ops.append('fromu64:%d' % lv)
            elif c == 10:
                ops.append('norm')
            elif c == 11:
                ops.append('isnorm')
            elif c == 12:
                ops.append('eq:%s' % lstr([rng.choice([0, 1, rng.bits(64)]) for _ in range(rng.range(0, 4))]))
            elif c == 13:
                ops.append('cmp:%s' % lstr([rng.choice([1, M64, rng.bits(64)]) for _ in range(rng.range(0, 4))] ))
            elif c == 14:
                ops.append('rsz:%d:%d' % (rng.range(0, 64), 0))
            else:
                ops.append('isempty')
    return ';'.join(ops)


def ref_history(script, cap):
    """reference sequence semantics, independent of the Coq model; cap=None for the heap vector"""
    v = []
    out = []
    for op in script.split(';'):
        a = op.split(':')
        k = a[0]
        ret = '?'
        if k == 'new':
            v = []; ret = 'u'
        elif k == 'from':
            l = parse_l(a[1])
            if cap is not None and len(l) > cap:
                ret = 'n'
            else:
                v = list(l); ret = 's'
        elif k == 'push':
            if cap is not None and len(v) >= cap:
                ret = 'n'
            else:
                v.append(int(a[1])); ret = 's'
        elif k == 'pop':
            if v:
                ret = 's%x' % v.pop()
            else:
                ret = 'n'
        elif k == 'ext':
            l = parse_l(a[1])
            if cap is not None and len(v) + len(l) > cap:
                ret = 'n'
            else:
                v.extend(l); ret = 's'
        elif k == 'rsz':
            n, x = int(a[1]), int(a[2])
            if cap is not None and n > cap:
                ret = 'n'
            else:
                v = v[:n] + [x] * max(0, n - len(v)); ret = 's'
        elif k == 'norm':
            while v and v[-1] == 0:
                v.pop()
            ret = 'u'
        elif k in ('adds', 'muls'):
            y = int(a[1])
            n = len(v)
            tot = val(v) + y if k == 'adds' else val(v) * y
            # limb-wise semantics on a possibly unnormalised vector: length stays n unless a carry leaves
            l = [(tot >> (64 * i)) & M64 for i in range(n)]
            carry = tot >> (64 * n)
            if carry:
                if cap is not None and n >= cap:
                    ret = 'n'
                    # the code has already written the low limbs
                    v = l
                else:
                    v = l + [carry]; ret = 's'
            else:
                v = l; ret = 's'
        elif k == 'clone':
            ret = 'u'
        elif k == 'set':
            i = int(a[1])
            if i < len(v):
                v[i] = int(a[2]); ret = 's'
            else:
                ret = 'n'
        elif k == 'get':
            i = int(a[1])
            ret = 's%x' % v[i] if i < len(v) else 'n'
        elif k == 'fromu64':
            x = int(a[1])
            v = [x] if x else []; ret = 'u'
        elif k == 'isnorm':
            ret = 'b%d' % (0 if (v and v[-1] == 0) else 1)
        elif k == 'isempty':
            ret = 'b%d' % (1 if not v else 0)
        elif k == 'eq':
            l = parse_l(a[1])
            ret = 'b%d' % int(l == v)
        elif k == 'cmp':
            l = parse_l(a[1])
            if len(v) != len(l):
                ret = 'o%d' % (1 if len(v) > len(l) else -1)
            else:
                ret = 'o%d' % ((val(v) > val(l)) - (val(v) < val(l)))
        out.append('%s|%d|%s' % (ret, len(v), lstr(v)))
    return 'H ' + ' ; '.join(out)


def check_c13(res, tier, rng):
    plan = [('s', 'release'), ('s', 'checked'), ('sa', 'release'), ('sa', 'checked')]
    broken = prepare(res, 'C13', ['s', 'sa'])
    if 'harness' in broken:
        finish_verdict(res, broken, [], 'L1v'); return
    n = scale(tier, 1500, 25000)
    lines = ['VH ' + g_history(rng, scale(tier, 120, 250)) for _ in range(n)]
    # directed: fill to capacity, fail, shrink, regrow
    lines.append('VH ' + ';'.join(['rsz:62:7', 'push:1', 'ext:1', 'rsz:63:0', 'pop', 'push:9', 'push:9', 'muls:%d' % M64, 'adds:%d' % M64, 'rsz:0:0', 'pop', 'ext:' + lstr([5] * 62), 'ext:1', 'from:' + lstr([1] * 63), 'norm', 'cmp:1,0', 'eq:' + lstr([5] * 62)]))
    if 'model' in broken:
        impl = {k: run_impl(k[0], k[1], lines) for k in plan}; model = impl
    else:
        impl, model = l1_run(res, lines, plan, 'L1v')
    nviol = 0
    opc = Counter()
    for k, l in enumerate(lines):
        script = l[3:]
        for o in script.split(';'):
            opc[o.split(':')[0]] += 1
        for key in plan:
            cap = None if 'a' in key[0] else 62
            want = ref_history(script, cap)
            out = impl[key][k]
            if out != want:
                nviol += 1
                if nviol <= 20:
                    # first differing step
                    a, b2 = out[2:].split(' ; '), want[2:].split(' ; ')
                    j = next((i for i in range(min(len(a), len(b2))) if a[i] != b2[i]), min(len(a), len(b2)))
                    ops = script.split(';')
                    res.violation('vector history diverges from the reference sequence at step %d (%s)' % (j, ops[j] if j < len(ops) else '?'),
                                  {'case': 'VH ' + ';'.join(ops[:j + 1]), 'cfg': key[0], 'build': key[1], 'observed_step': a[j][:300] if j < len(a) else out[:100],
                                   'expected_step': b2[j][:300] if j < len(b2) else None, 'full_history_ops': len(ops)})
            if '|62|' in want or 'n|' in want:
                res.nontrivial.add(l)
    res.suite_stats['op_histogram'] = dict(opc)
    res.add_sample(lines[0][:400]); res.add_sample(lines[-1][:600])
    corr = diff_all(lines, impl, model) if 'model' not in broken else []
    # the CELL-LEVEL model (model/RawVec.v: 62 option cells + length, raw writes/copies, set_len; the
    # object of the refinement theorems of props/C13.v) replays the same histories for the stack back-end
    if 'model' not in broken:
        t0 = time.time()
        for key in [k for k in plan if 'a' not in k[0]]:
            raw = run_raw(key[1], lines)
            res.evaluations += len(lines)
            for k, l in enumerate(lines):
                if raw[k] != impl[key][k]:
                    corr.append({'case': l[:2000], 'cfg': key[0], 'build': key[1], 'impl': impl[key][k][:2000], 'cell_level_model': raw[k][:2000]})
        res.suite_stats['L1v-raw'] = {'cases': len(lines), 'model_s': round(time.time() - t0, 2)}
    finish_verdict(res, broken, corr, 'L1v vector histories (list-level and cell-level models)')
