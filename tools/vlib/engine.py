"""Correspondence / search engine shared by the property checks."""
import os, json, re, time
from collections import Counter
from .common import *
from .oracle import *
from .gen import PF, pf_line


def prepare(res, prop, cfgs=None, need_model=True):
    """Rebuild everything from /repo's working tree.  Returns dict with what broke (if anything).
    The build steps share /verif/.cache and /verif/coq, so concurrent checks serialise here."""
    import fcntl
    os.makedirs(VERIF + '/.cache', exist_ok=True)
    with open(VERIF + '/.cache/prepare.lock', 'w') as lk:
        fcntl.flock(lk, fcntl.LOCK_EX)
        try:
            return _prepare(res, prop, cfgs, need_model)
        finally:
            fcntl.flock(lk, fcntl.LOCK_UN)


def _prepare(res, prop, cfgs=None, need_model=True):
    broken = {}
    try:
        build_harness(cfgs)
    except PrepareError as e:
        broken['harness'] = str(e)
        return broken
    try:
        g = gen_coq()
        res.notes.append(g)
    except PrepareError as e:
        broken['translator'] = str(e)
    try:
        res.notes.append(gen_src())
    except PrepareError as e:
        # the source translation is part of the obligations of the properties tied to it; the other
        # properties are checked against the last good translation
        if prop in SRC_TIED:
            broken['srctranslator'] = str(e)
        else:
            res.notes.append('rs2coq failed (not part of this property): ' + str(e)[:200])
    th = None
    if 'translator' not in broken:
        th = check_theorems(prop)
        res.theorem = th
        if not th['ok']:
            broken['theorem'] = th['log']
        if need_model:
            try:
                build_model()
            except PrepareError as e:
                broken['model'] = str(e)
    return broken


class L0Run:
    def __init__(self, cases, impl, model, model_idx, expected, valid, paths):
        self.cases, self.impl, self.model, self.model_idx = cases, impl, model, model_idx
        self.expected, self.valid, self.paths = expected, valid, paths


def dedupe(cases):
    seen, out = set(), []
    for c in cases:
        k = c.key()
        if k not in seen:
            seen.add(k)
            out.append(c)
    return out


def l0_run(res, cases, cfgs, modes, model_plan, cmd='PF', model_budget=1500, rng=None, want_paths=True):
    """Run parse_float cases on the real code (every cfg x mode) and on the model
    (model_plan: list of (cfg, mode)); the model sees all cheap cases and a budgeted sample of
    the expensive (slow path / very long) ones."""
    cases = dedupe(cases)
    lines = [c.line(cmd) for c in cases]
    t = time.time()
    impl, _ = run_matrix(lines, cfgs, modes, model=False)
    t_impl = time.time() - t
    paths = None
    if want_paths:
        paths = run_impl('s', 'release', [c.line('PTH') for c in cases])
    # choose model subset
    heavy = [i for i, c in enumerate(cases) if (paths and paths[i] == 'T S') or len(c.i) + len(c.f) > 400]
    heavy_set = set(heavy)
    light = [i for i in range(len(cases)) if i not in heavy_set]
    if len(heavy) > model_budget:
        # stratify by family
        byfam = {}
        for i in heavy:
            byfam.setdefault(cases[i].fam.split('@')[0], []).append(i)
        pick = []
        fams = sorted(byfam)
        k = 0
        while len(pick) < model_budget:
            progressed = False
            for fm in fams:
                if k < len(byfam[fm]):
                    pick.append(byfam[fm][k]); progressed = True
                    if len(pick) >= model_budget:
                        break
            k += 1
            if not progressed:
                break
        heavy = pick
    if len(light) > 6 * model_budget:
        light = light[::max(1, len(light) // (6 * model_budget))]
    midx = sorted(set(light) | set(heavy))
    mlines = [lines[i] for i in midx]
    model = {}
    t = time.time()
    for (c, m) in model_plan:
        # shard 16-way
        from concurrent.futures import ThreadPoolExecutor
        nsh = 16
        chunks = [mlines[k::nsh] for k in range(nsh)]
        with ThreadPoolExecutor(max_workers=16) as ex:
            parts = list(ex.map(lambda ch: run_model(c, m, ch) if ch else [], chunks))
        out = [None] * len(mlines)
        for k, part in enumerate(parts):
            out[k::nsh] = part
        model[(c, m)] = out
    t_model = time.time() - t
    expected, valid = [], []
    t = time.time()
    for c in cases:
        v = is_valid(c.i, c.f, c.e) if not (c.i.startswith('x') or c.f.startswith('x')) else False
        valid.append(v)
        expected.append('V %016x' % rn_decimal(c.fmt, c.i, c.f, c.e) if v else None)
    t_or = time.time() - t
    res.evaluations += len(cases) * len(cfgs) * len(modes) + len(midx) * len(model_plan)
    st = res.suite_stats.setdefault('L0', {})
    st['cases'] = st.get('cases', 0) + len(cases)
    st['impl_runs'] = st.get('impl_runs', 0) + len(cases) * len(cfgs) * len(modes)
    st['model_runs'] = st.get('model_runs', 0) + len(midx) * len(model_plan)
    st['impl_s'] = round(st.get('impl_s', 0) + t_impl, 2)
    st['model_s'] = round(st.get('model_s', 0) + t_model, 2)
    st['oracle_s'] = round(st.get('oracle_s', 0) + t_or, 2)
    fam = Counter(c.fam.split('@')[0] for c in cases)
    st['families'] = dict(Counter(st.get('families', {})) + fam)
    if paths:
        pc = Counter(paths)
        st['paths'] = dict(Counter(st.get('paths', {})) + pc)
        for i, c in enumerate(cases):
            if paths[i] != 'T F':
                res.nontrivial.add(c.key())
    lens = Counter()
    for c in cases:
        n = len(c.i) + len(c.f)
        lens['0-19' if n <= 19 else '20-40' if n <= 40 else '41-400' if n <= 400 else '401-800' if n <= 800 else '>800'] += 1
    st['digit_count_hist'] = dict(Counter(st.get('digit_count_hist', {})) + lens)
    for c in cases[:3] + cases[len(cases) // 2: len(cases) // 2 + 2]:
        res.add_sample(c.short())
    return L0Run(cases, impl, model, {i: k for k, i in enumerate(midx)}, expected, valid, paths)


def coq_replay_eval(fmt, i, f, e, cfg, mode):
    """Evaluate model and oracle on one concrete case *inside Coq* (vm_compute), so that
    extraction and the Python oracle are not in the trusted base of a VIOLATION line."""
    def lst(s):
        if s.startswith('x'):
            bs = bytes.fromhex(s[1:])
        else:
            bs = s.encode()
        return '([' + '; '.join(str(b) for b in bs) + '] : list Z)'
    if len(i) + len(f) > 3000 or abs(e) > 5000:
        return {'skipped': 'input too large for in-Coq evaluation'}
    F = 'F64' if fmt == 'f64' else 'F32'
    bld = 'checked_build' if mode == 'checked' else 'release_build'
    src = ('From Coq Require Import ZArith QArith List.\n'
           'From ML Require Import base.RustSem model.Fmt model.Top spec.Decimal spec.Round gen.Consts gen.Tables gen.BTables gen.PowDump.\n'
           'Import ListNotations. Open Scope Z_scope.\n'
           'Definition ci := %s.\nDefinition cf := %s.\n'
           'Eval vm_compute in (parse_float CFG_%s TABLES BTABLES LIMITS %s %s ci cf (%d)).\n'
           'Eval vm_compute in (valid_inputb ci cf (%d), RN %s (dec_value ci cf (%d))).\n') % (
        lst(i), lst(f), cfg, F, bld, e, e, F, e)
    os.makedirs(CACHE + '/replay', exist_ok=True)
    path = CACHE + '/replay/replay_case_%d.v' % os.getpid()
    open(path, 'w').write(src)
    rc, out, err = sh('timeout 600 coqc -Q %s ML %s' % (COQ, path), timeout=660)
    if rc != 0:
        return {'error': (out + err)[-500:]}
    vals = re.findall(r'=\s*(.*?)\n\s*:', out, re.S)
    return {'model_in_coq': ' '.join(vals[0].split()) if vals else None,
            'valid_and_RN_in_coq': ' '.join(vals[1].split()) if len(vals) > 1 else None}


def shrink_pf(case, cfg, mode, still_fails, budget=150):
    """Greedy shrinking of a failing parse_float case; still_fails(PF) -> bool re-checks impl vs oracle."""
    cur = case
    n = 0
    improved = True
    while improved and n < budget:
        improved = False
        cands = []
        i, f, e = cur.i, cur.f, cur.e
        if len(f) > 1:
            cands.append(PF(cur.fmt, i, f[:-1], e, cur.fam))
            cands.append(PF(cur.fmt, i, f[:len(f) // 2], e, cur.fam))
        if len(i) > 1:
            cands.append(PF(cur.fmt, i[:-1], f, e + 1, cur.fam))
            cands.append(PF(cur.fmt, i[:len(i) // 2], f, e + len(i) - len(i) // 2, cur.fam))
        if f and i:
            cands.append(PF(cur.fmt, i + f, '', e - len(f), cur.fam))
        if e != 0 and abs(e) > 1:
            cands.append(PF(cur.fmt, i, f, e - (1 if e > 0 else -1), cur.fam))
        for c in cands:
            n += 1
            if is_valid(c.i, c.f, c.e) and still_fails(c):
                cur = c
                improved = True
                break
            if n >= budget:
                break
    return cur


def one_impl(cfg, mode, line):
    return run_impl(cfg, mode, [line])[0]
