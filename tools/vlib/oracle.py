"""Exact reference rounding in Python integers (the bulk oracle).  It is cross-checked on every
run against the Coq-defined [RN] (extracted, command ORACLE of the model runner) on a sample,
and every reported violation is re-evaluated inside Coq (vm_compute) before it is printed."""
import sys
sys.set_int_max_str_digits(0)

FMT = {
    'f32': dict(p=24, emax=128, bits=32, ms=23, max_digits=114),
    'f64': dict(p=53, emax=1024, bits=64, ms=52, max_digits=769),
}


def rn_ratio(fmt, num, den, below=False):
    """bits of the float nearest to num/den >= 0 (ties to even; overflow -> +inf).
    below=True: the limit of RN(x) for x -> num/den from below (used for half-open intervals)."""
    F = FMT[fmt]
    p, emax = F['p'], F['emax']
    emin = 3 - emax - p
    if num == 0:
        return 0
    lg = num.bit_length() - den.bit_length()
    # make 2^lg <= num/den < 2^(lg+1)
    if lg >= 0:
        if num < (den << lg):
            lg -= 1
    else:
        if (num << -lg) < den:
            lg -= 1
    e = max(lg - (p - 1), emin)
    if e >= 0:
        n2, d2 = num, den << e
    else:
        n2, d2 = num << -e, den
    q, r = divmod(n2, d2)
    if below and r == 0:
        pass  # x - eps rounds back up to q
    elif 2 * r > d2:
        q += 1
    elif 2 * r == d2:
        if not below and (q & 1):
            q += 1
    if q == (1 << p):
        q >>= 1
        e += 1
    if q >= (1 << (p - 1)):
        biased = e - emin + 1
        if biased >= 2 * emax - 1:
            return (2 * emax - 1) << (p - 1)
        return (biased << (p - 1)) | (q - (1 << (p - 1)))
    return q


def sig_digits(i, f):
    """(digit string without leading zeros, number of fraction digits)"""
    return (i + f), len(f)


KEEP = 2200   # > MAX_DIGITS of either format, see DESIGN.md (truncation cannot cross a boundary)


def rn_decimal(fmt, i, f, e, below=False):
    """RN of integer.fraction x 10^e for digit strings i, f (may be empty)."""
    ds = i + f
    E = e - len(f)
    s = ds.lstrip('0')
    if not s:
        return 0
    nd = len(s)
    # magnitude shortcuts: value in [10^(nd-1+E), 10^(nd+E))
    if nd - 1 + E > 400:
        return rn_ratio(fmt, 10 ** 400, 1)
    if nd + E < -400:
        return 0
    if nd > KEEP:
        head, tail = s[:KEEP], s[KEEP:]
        sticky = tail.strip('0') != ''
        E += len(tail)
        D = int(head)
        if sticky:
            D = D * 10 + 1
            E -= 1
    else:
        D = int(s)
    if E >= 0:
        return rn_ratio(fmt, D * 10 ** E, 1, below)
    return rn_ratio(fmt, D, 10 ** (-E), below)


def rn_wq(fmt, w, q, below=False):
    if w == 0:
        return 0
    nd = len(str(w))
    if nd - 1 + q > 400:
        return rn_ratio(fmt, 10 ** 400, 1)
    if nd + q < -400:
        return 0
    if q >= 0:
        return rn_ratio(fmt, w * 10 ** q, 1, below)
    return rn_ratio(fmt, w, 10 ** (-q), below)


def is_valid(i, f, e):
    return (i.isdigit() or i == '') and (f.isdigit() or f == '') and not i.startswith('0') \
        and len(i) + len(f) < 2 ** 31 - 2 and -2 ** 31 <= e < 2 ** 31


# ---------------------------------------------------------------- floats as exact rationals
def float_fields(fmt, bits):
    F = FMT[fmt]
    ms = F['ms']
    m = bits & ((1 << ms) - 1)
    ew = F['bits'] - 1 - ms
    e = (bits >> ms) & ((1 << ew) - 1)
    return m, e


def float_value(fmt, bits):
    """(mant, exp2) with value = mant * 2^exp2, for finite non-negative patterns"""
    F = FMT[fmt]
    ms, emax, p = F['ms'], F['emax'], F['p']
    emin = 3 - emax - p
    m, e = float_fields(fmt, bits)
    if e == 0:
        return m, emin
    return m + (1 << ms), e + emin - 1


def max_finite(fmt):
    F = FMT[fmt]
    return ((2 * F['emax'] - 1) << F['ms']) - 1


def exact_decimal(mant, exp2):
    """(digits, exp10) with mant*2^exp2 = int(digits) * 10^exp10, digits without trailing zeros"""
    if mant == 0:
        return '0', 0
    if exp2 >= 0:
        d, e10 = mant << exp2, 0
    else:
        d, e10 = mant * 5 ** (-exp2), exp2
    s = str(d)
    t = s.rstrip('0')
    e10 += len(s) - len(t)
    return t, e10


def midpoint_decimal(fmt, bits):
    """exact decimal of the midpoint between float `bits` and its successor"""
    mant, exp2 = float_value(fmt, bits)
    return exact_decimal(2 * mant + 1, exp2 - 1)


def split_decimal(digits, e10, rng=None, mode=None):
    """Write int(digits)*10^e10 as (integer, fraction, exponent) in one of several ways."""
    n = len(digits)
    if mode is None:
        mode = rng.below(5) if rng else 0
    if mode == 0:      # all integer digits
        return digits, '', e10
    if mode == 1:      # all fraction digits
        return '', digits, e10 + n
    if mode == 2:      # d.ddd
        return digits[:1], digits[1:], e10 + n - 1
    if mode == 3:      # random split
        k = rng.below(n + 1) if rng else n // 2
        return digits[:k], digits[k:], e10 + n - k
    # leading fraction zeros
    z = rng.below(30) if rng else 3
    return '', '0' * z + digits, e10 + n + z
