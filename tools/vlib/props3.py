"""C14, C17, C18, C19, C08, C15, C16."""
import os, json, re, time, subprocess
from collections import Counter
from .common import *
from .oracle import *
from .gen import *
from .engine import *
from .props import scale, finish_verdict, ALL_MODES, model_mismatches, judge_l0, MODEL_PLAN_LIGHT, MODEL_PLAN_FULL, e2e_cases, g_long
from .props2 import l1_run, diff_all, M64


# ====================================================================== C14
def run_dump(cfg):
    exe = '%s/target/%s-release/release/dump' % (CACHE, cfg)
    out = subprocess.run([exe], capture_output=True, text=True, timeout=120).stdout
    return [l.split() for l in out.split('\n') if l.strip() and l.strip() != 'end']


def lemire_entry(q):
    """(hi, lo) of the 128-bit entry as etc/lemire_table.py defines it"""
    if q >= 0:
        v = 5 ** q
        while v < (1 << 127):
            v <<= 1
        while v >= (1 << 128):
            v >>= 1
    else:
        power5 = 5 ** (-q)
        z = 0
        while (1 << z) < power5:
            z += 1
        if q >= -27:
            b = z + 127
            c = 2 ** b // power5 + 1
        else:
            b = 2 * z + 2 * 64
            c = 2 ** b // power5 + 1
            while c >= (1 << 128):
                c //= 2
        v = c
    return v >> 64, v & M64


def check_c14(res, tier, rng):
    broken = prepare(res, 'C14', CFGS, need_model=False)
    if 'harness' in broken:
        finish_verdict(res, broken, [], 'L1t'); return
    n_checked = 0

    def bad(cfg, table, index, found, expected):
        res.violation('%s[%s] = %s but its definition gives %s (configuration %s)' % (table, index, found, expected, CFG_DESC[cfg]),
                      {'table': table, 'index': index, 'found': str(found), 'expected': str(expected), 'cfg': cfg, 'config': CFG_DESC[cfg],
                       'replay_cmd': '%s/target/%s-release/release/dump | grep "%s %s "' % (CACHE, cfg, table, index)})
    for cfg in CFGS:
        d = run_dump(cfg)
        for t in d:
            k = t[0]
            if k == 'pow':
                fmt, kk, bits = t[1], int(t[2]), int(t[3])
                want = rn_ratio(fmt, 10 ** kk, 1)
                exact = float_value(fmt, bits)
                n_checked += 1
                if bits != want or exact[0] * 2 ** max(0, exact[1]) != 10 ** kk * 2 ** max(0, -exact[1]):
                    bad(cfg, 'pow_fast_path<%s>' % fmt, kk, bits, want)
            elif k == 'ipow':
                r, kk, v = int(t[1]), int(t[2]), int(t[3])
                n_checked += 1
                if v != r ** kk:
                    bad(cfg, 'int_pow_fast_path(radix %d)' % r, kk, v, r ** kk)
            elif k == 'tab2':
                i, a, b2 = int(t[2]), int(t[3]), int(t[4])
                hi, lo = lemire_entry(i - 342)
                n_checked += 1
                if (a, b2) != (hi, lo):
                    bad(cfg, 'POWER_OF_FIVE_128', '%d (5^%d)' % (i, i - 342), '(%#x, %#x)' % (a, b2), '(%#x, %#x)' % (hi, lo))
            elif k == 'tab':
                name, i, v = t[1], int(t[2]), int(t[3])
                n_checked += 1
                if name == 'SMALL_INT_POW5' and v != 5 ** i:
                    bad(cfg, name, i, v, 5 ** i)
                elif name == 'SMALL_INT_POW10' and v != 10 ** i:
                    bad(cfg, name, i, v, 10 ** i)
                elif name == 'SMALL_F32_POW10' and i <= 10 and v != rn_ratio('f32', 10 ** i, 1):
                    bad(cfg, name, i, v, rn_ratio('f32', 10 ** i, 1))
                elif name == 'SMALL_F64_POW10' and i <= 22 and v != rn_ratio('f64', 10 ** i, 1):
                    bad(cfg, name, i, v, rn_ratio('f64', 10 ** i, 1))
                elif name == 'BELL_SMALL_INT' and v != 10 ** i:
                    bad(cfg, name, i, v, 10 ** i)
                elif name in ('BELL_SMALL', 'BELL_LARGE'):
                    kk = i if name == 'BELL_SMALL' else 10 * i - 350
                    want = bell_mant(kk)
                    if v != want:
                        bad(cfg, name, '%d (10^%d)' % (i, kk), v, want)
                elif name in ('BELL_SMALL_EXP', 'BELL_LARGE_EXP'):
                    kk = i if name == 'BELL_SMALL_EXP' else 10 * i - 350
                    want = bell_exp(kk)
                    if v != want:
                        bad(cfg, name, '%d (10^%d)' % (i, kk), v, want)
        # LARGE_POW5
        lp = [int(t[3]) for t in d if t[0] == 'tab' and t[1] == 'LARGE_POW5']
        st = [int(t[2]) for t in d if t[0] == 'scalar' and t[1] == 'LARGE_POW5_STEP']
        if lp:
            n_checked += 1
            v = sum(x << (64 * i) for i, x in enumerate(lp))
            if v != 5 ** st[0]:
                bad(cfg, 'LARGE_POW5', 'value', hex(v)[:40], '5^%d' % st[0])
    res.evaluations += n_checked
    res.suite_stats['constants_checked_against_definition_in_python'] = n_checked
    res.coverage['exhaustive'] = True
    res.nontrivial.update(range(n_checked))
    res.add_sample('POWER_OF_FIVE_128[0] = 5^-342 -> (0xeef453d6923bd65a, 0x113faa2906a13b3f)')
    res.add_sample('pow_fast_path<f64>(22) in no_std+compact (bundled libm powd) -> 0x%x' % rn_ratio('f64', 10 ** 22, 1))
    corr = []
    # the 32-bit-limb variant of the big power of five cannot be compiled here: read its literal from
    # the source text and check it against 5^LARGE_POW5_STEP (data only, no compilation)
    try:
        src = strip_comments(open('/repo/src/table_small.rs').read())
        m32 = re.search(r'pub\s+const\s+LARGE_POW5\s*:\s*\[\s*u32\s*;\s*(\d+)\s*\]\s*=\s*\[(.*?)\]\s*;', src, re.S)
        mst = re.findall(r'pub\s+const\s+LARGE_POW5_STEP\s*:\s*u32\s*=\s*(\d+)\s*;', src)
        if m32 and mst:
            limbs = [int(x.replace('_', ''), 0) for x in re.findall(r'0x[0-9a-fA-F_]+|\d[\d_]*', m32.group(2))]
            v32 = sum(x << (32 * i) for i, x in enumerate(limbs))
            n_checked += 1
            if len(limbs) != int(m32.group(1)) or any(x >> 32 for x in limbs) or all(v32 != 5 ** int(k) for k in mst):
                res.violation('LARGE_POW5 (32-bit limbs, read from the source text of table_small.rs) is not 5^LARGE_POW5_STEP',
                              {'what': 'u32 table literal', 'value': str(v32), 'steps': mst, 'cfg': 's', 'build': 'release'})
        else:
            corr.append({'case': 'the 32-bit LARGE_POW5 literal / LARGE_POW5_STEP could not be located in src/table_small.rs'})
    except Exception as ex:
        corr.append({'case': 'reading the 32-bit LARGE_POW5 literal failed: %s' % ex})
    inv = config_inventory_check()
    res.suite_stats['config_inventory'] = inv['summary']
    if inv['diff']:
        corr.append({'case': 'build-configuration inventory of /repo (cfg / cfg! / env! predicates, functional lines of Cargo.toml) differs from the one the dump configurations were chosen for: the dumped constants may not be the ones a user builds', 'diff': inv['diff'][:20]})
    finish_verdict(res, broken, corr, 'L1t dump vs definition + build-configuration inventory')


def bell_exp(k):
    """binary exponent of the normalised 64-bit significand of 10^k"""
    if k >= 0:
        return (10 ** k).bit_length() - 64
    # 10^k = 1/10^-k ; floor(log2) = -ceil(log2(10^-k))  (never a power of two)
    return -((10 ** (-k)).bit_length()) - 63 + 0


def bell_mant(k):
    """floor(10^k * 2^-e) with e = bell_exp(k), i.e. the truncated normalised significand"""
    e = bell_exp(k)
    if k >= 0:
        v = 10 ** k
        return v >> e if e >= 0 else v << -e
    # 10^k * 2^-e = 2^-e / 10^-k
    return (1 << (-e)) // (10 ** (-k))


# ====================================================================== C17
def check_c17(res, tier, rng):
    plan = [('s', 'release'), ('s', 'checked'), ('sc', 'checked')]
    broken = prepare(res, 'C17', ['s', 'sc'])
    if 'harness' in broken:
        finish_verdict(res, broken, [], 'L1f'); return
    lines, want = [], []
    for fmt in ('f32', 'f64'):
        F = FMT[fmt]
        ms, nb = F['ms'], F['bits']
        ew = nb - 1 - ms
        pats = []
        for e in range(0, 1 << ew, 1 if tier == 'thorough' or fmt == 'f32' else 3):
            for m in (0, 1, (1 << ms) - 1, 1 << (ms - 1), rng.bits(ms)):
                for s in (0, 1):
                    pats.append((s << (nb - 1)) | (e << ms) | m)
        for _ in range(scale(tier, 3000, 100000)):
            pats.append(rng.bits(nb))
        for x in pats:
            m = x & ((1 << ms) - 1)
            e = (x >> ms) & ((1 << ew) - 1)
            den = 1 if e == 0 else 0
            bias = F['emax'] - 1 + ms
            ex = (1 - bias) if den else e - bias
            mant = m if den else m + (1 << ms)
            lines.append('FH %s %d' % (fmt, x)); want.append('H %d %d %d %016x' % (den, ex, mant, x))
            if (x >> (nb - 1)) == 0 and e != (1 << ew) - 1:
                # b and b+h
                lines.append('FB %s %d' % (fmt, x)); want.append('E %d %d' % (mant, ex))
                lines.append('FBH %s %d' % (fmt, x)); want.append('E %d %d' % (2 * mant + 1, ex - 1))
            # packing
            lines.append('E2F %s %d %d' % (fmt, m, e)); want.append('V %016x' % ((e << ms) | m))
        # hidden-bit overlap case the code relies on
        lines.append('E2F %s %d 1' % (fmt, 1 << ms)); want.append('V %016x' % (1 << ms))
        for u in [0, 1, 2, (1 << F['p']) - 1, 1 << F['p'], (1 << F['p']) + 1, (1 << F['p']) + 2, (1 << F['p']) + 3, M64, M64 - 1, 1 << 63] + [rng.bits(rng.range(1, 64)) for _ in range(300)]:
            lines.append('FU %s %d' % (fmt, u)); want.append('V %016x' % rn_ratio(fmt, u, 1))
    if 'model' in broken:
        impl = {k: run_impl(k[0], k[1], lines) for k in plan}; model = impl
    else:
        impl, model = l1_run(res, lines, plan, 'L1f')
    nviol = 0
    for k, l in enumerate(lines):
        for key in plan:
            if impl[key][k] != want[k]:
                nviol += 1
                if nviol <= 20:
                    res.violation('float helper disagrees with the IEEE encoding', {'case': l, 'cfg': key[0], 'build': key[1], 'observed': impl[key][k], 'expected': want[k]})
    res.nontrivial.update(lines)
    res.add_sample(lines[0]); res.add_sample(lines[len(lines) // 2]); res.add_sample(lines[-1])
    if tier == 'thorough':
        # all 2^32 f32 patterns on the real code against the closed forms
        exe = '%s/target/s-release/release/sweep' % CACHE
        rc, out, err = sh('%s f32bits' % exe, timeout=3000)
        res.suite_stats['f32_exhaustive_sweep'] = out.strip()[-300:]
        if rc != 0:
            res.violation('exhaustive f32 bit-pattern sweep found a mismatch', {'output': out[-2000:], 'replay_cmd': exe + ' f32bits'})
        else:
            res.coverage['exhaustive'] = True
    corr = diff_all(lines, impl, model) if 'model' not in broken else []
    finish_verdict(res, broken, corr, 'L1f float helpers')


# ====================================================================== C18
def check_c18(res, tier, rng):
    plan = [('s', 'release'), ('s', 'checked'), ('sc', 'checked')]
    broken = prepare(res, 'C18', ['s', 'sc'])
    if 'harness' in broken:
        finish_verdict(res, broken, [], 'L1r'); return
    lines, want = [], []
    for fmt, elo, ehi in (('f64', -63, 2100), ('f32', -63, 320)):
        F = FMT[fmt]
        ms, p, emax = F['ms'], F['p'], F['emax']
        bias = emax - 1 + ms
        sh = 64 - p
        for e in range(elo, ehi + 1):
            shift = sh if e > -sh else min(64, 1 - e)      # bits cut off
            half = 1 << (shift - 1)
            mants = {1 << 63, M64, (1 << 63) | half, ((1 << 63) | half) + 1, ((1 << 63) | half) - 1,
                     M64 - half + 1 if half > 1 else M64, (M64 >> shift << shift) | half if shift < 64 else M64,
                     (1 << 63) | (1 << min(63, shift)) | half, (1 << 63) | rng.bits(63), (1 << 63) | rng.bits(63)}
            if tier == 'thorough':
                mants |= {(1 << 63) | rng.bits(63) for _ in range(30)}
                mants |= {((1 << 63) | (rng.bits(63) >> shift << shift) | half) & M64 for _ in range(10) if shift < 64}
            for mt in mants:
                mt &= M64
                mt |= 1 << 63
                for kind in ('ne', 'down'):
                    lines.append('RND %s %d %d %s' % (fmt, mt, e, kind))
                    # exact value mt * 2^(e - bias)
                    ex = e - bias
                    num, den = (mt << ex, 1) if ex >= 0 else (mt, 1 << -ex)
                    if kind == 'ne':
                        bits = rn_ratio(fmt, num, den)
                    else:
                        bits = rd_ratio(fmt, num, den)
                    want.append(bits)
    # mask helpers for all widths
    mlines, mwant = [], []
    for n in range(0, 65):
        mlines.append('LNM %d' % n); mwant.append('U %d' % ((1 << n) - 1))
        mlines.append('LNH %d' % n); mwant.append('U %d' % ((1 << (n - 1)) if n else 0))
        if n < 64:
            mlines.append('NB %d' % n); mwant.append('U %d' % (1 << n))
    all_lines = lines + mlines
    if 'model' in broken:
        impl = {k: run_impl(k[0], k[1], all_lines) for k in plan}; model = impl
    else:
        impl, model = l1_run(res, all_lines, plan, 'L1r')
    nviol = 0
    kinds = Counter()
    for k, l in enumerate(lines):
        fmt = l.split()[1]
        ms = FMT[fmt]['ms']
        for key in plan:
            out = impl[key][k]
            ok = False
            if out.startswith('E '):
                _, m, e = out.split()
                bits = int(m) | (int(e) << ms)
                ok = bits == want[k]
                cls = 'inf' if int(e) >= 2 * FMT[fmt]['emax'] - 1 else 'subnormal' if int(e) == 0 else 'promoted' if (int(e) == 1 and int(m) == (1 << ms)) else 'normal'
                kinds[cls] += 1
            if not ok:
                key_known = None
                t = l.split()
                if t[4] == 'down' and out.startswith('E '):
                    F = FMT[fmt]
                    inf_bits = (2 * F['emax'] - 1) << ms
                    if want[k] == inf_bits - 1 and (int(out.split()[1]) | (int(out.split()[2]) << ms)) == inf_bits:
                        # value >= 2^emax: the truncating variant returns the infinity fields (KNOWN_FINDINGS F3)
                        key_known = 'F3-round-down-overflow-gives-infinity'
                if key_known is None:
                    nviol += 1
                if key_known is not None or nviol <= 20:
                    res.violation('rounding primitive (%s): packed result differs from the %s' % (t[4], 'nearest float' if t[4] == 'ne' else 'largest float not above the value'),
                                  {'case': l, 'cfg': key[0], 'build': key[1], 'observed': out, 'expected_bits': '%016x' % want[k]}, key=key_known)
    for k, l in enumerate(mlines):
        for key in plan:
            if impl[key][len(lines) + k] != mwant[k]:
                nviol += 1
                if nviol <= 25:
                    res.violation('bit-mask helper wrong', {'case': l, 'cfg': key[0], 'build': key[1], 'observed': impl[key][len(lines) + k], 'expected': mwant[k]})
    res.suite_stats['result_classes'] = dict(kinds)
    res.nontrivial.update(lines)
    res.add_sample(lines[0]); res.add_sample(lines[len(lines) // 3]); res.add_sample(mlines[-1])
    corr = diff_all(all_lines, impl, model) if 'model' not in broken else []
    finish_verdict(res, broken, corr, 'L1r rounding primitive')


def rd_ratio(fmt, num, den):
    """largest float not above num/den (bits)"""
    F = FMT[fmt]
    p, emax = F['p'], F['emax']
    emin = 3 - emax - p
    if num == 0:
        return 0
    lg = num.bit_length() - den.bit_length()
    if lg >= 0:
        if num < (den << lg):
            lg -= 1
    else:
        if (num << -lg) < den:
            lg -= 1
    e = max(lg - (p - 1), emin)
    n2, d2 = (num, den << e) if e >= 0 else (num << -e, den)
    q = n2 // d2
    if q >= (1 << (p - 1)):
        biased = e - emin + 1
        if biased >= 2 * emax - 1:
            # truncation never overflows: the largest float not above the value is the largest finite one
            return ((2 * emax - 1) << (p - 1)) - 1
        return (biased << (p - 1)) | (q - (1 << (p - 1)))
    return q


# ====================================================================== C19
FE_RE = re.compile(rb'^([+-]?)([0-9]*)(?:\.([0-9]*))?(?:[eE]([+-]?)([0-9]*))?', re.S)


def fe_oracle(variant, fmt, s):
    """(bits, rest_len) the front-end must return for byte string s, from the grammar of C19"""
    F = FMT[fmt]
    nb, ms = F['bits'], F['ms']
    special = variant in ('fuzz', 'integ')
    sign = 0
    body = s
    if s[:1] in (b'+', b'-'):
        sign = 1 if s[:1] == b'-' else 0
        body = s[1:]
    sb = sign << (nb - 1)
    expmask = (2 * F['emax'] - 1) << ms
    if special:
        low = body[:8].lower()
        if low[:3] == b'nan':
            return sb | expmask | (1 << (ms - 1)), len(body) - 3
        if low[:8] == b'infinity':
            return sb | expmask, len(body) - 8
        if low[:3] == b'inf':
            return sb | expmask, len(body) - 3
    m = re.match(rb'^([0-9]*)', body)
    integer = m.group(1)
    rest = body[m.end():]
    frac = b''
    if rest[:1] == b'.':
        m2 = re.match(rb'^([0-9]*)', rest[1:])
        frac = m2.group(1)
        rest = rest[1 + m2.end():]
    e = 0
    if rest[:1] in (b'e', b'E'):
        r2 = rest[1:]
        es = 1
        if r2[:1] in (b'+', b'-'):
            es = -1 if r2[:1] == b'-' else 1
            r2 = r2[1:]
        m3 = re.match(rb'^([0-9]*)', r2)
        ed = m3.group(1)
        rest = r2[m3.end():]
        ev = int(ed) if ed else 0
        e = es * ev
        e = max(-2 ** 31, min(2 ** 31 - 1, e))
    if special and len(rest) == len(s):
        return 0, len(s)
    i = integer.decode().lstrip('0')
    f = frac.decode().rstrip('0')
    return sb | rn_decimal(fmt, i, f, e), len(rest)


def g_fe(rng, n):
    out = []
    specials = [b'nan', b'NaN', b'NAN', b'nAn', b'inf', b'INF', b'Inf', b'infinity', b'INFINITY', b'InFiNiTy', b'infinit', b'infinitx', b'na', b'in', b'nan(', b'infx',
                b'n\x41n', b'N\x61N', b'\x4e\x41\x6e', b'i\x4e\x46', b'\x0e\x01\x0e', b'\x6e\x61\x4e', b'n`n', b'NAn', b'iNFINITY', b'inFINITYz']
    for _ in range(n):
        k = rng.below(12)
        s = b''
        if k < 8:
            s += rng.choice([b'', b'', b'+', b'-', b'-', b'++', b'+-'])
            ik = rng.below(6)
            if ik == 0:
                integer = b''
            elif ik == 1:
                integer = b'0' * rng.range(1, 30)
            elif ik == 2:
                integer = b'0' * rng.range(0, 5) + rng.digits(rng.range(1, 30), True).encode()
            else:
                integer = rng.digits(rng.range(1, rng.choice([5, 19, 20, 40, 400, 800])), True).encode()
            s += integer
            fk = rng.below(6)
            if fk == 0:
                pass
            elif fk == 1:
                s += b'.'
            elif fk == 2:
                s += b'.' + b'0' * rng.range(1, 40)
            elif fk == 3:
                s += b'.' + rng.digits(rng.range(1, 30)).encode() + b'0' * rng.range(0, 30)
            else:
                s += b'.' + b'0' * rng.range(0, 30) + rng.digits(rng.range(1, rng.choice([5, 20, 400, 800]))).encode()
            ek = rng.below(8)
            if ek < 2:
                pass
            elif ek == 2:
                s += rng.choice([b'e', b'E'])
            elif ek == 3:
                s += rng.choice([b'e', b'E']) + rng.choice([b'+', b'-'])
            elif ek == 4:
                s += rng.choice([b'e', b'E']) + rng.choice([b'', b'+', b'-']) + rng.choice([b'2147483647', b'2147483648', b'2147483649', b'4294967296', b'99999999999999999999', b'0000000000000000000000123', b'21474836470', b'2147483646'])
            else:
                s += rng.choice([b'e', b'E']) + rng.choice([b'', b'+', b'-']) + str(rng.choice([rng.range(0, 30), rng.range(0, 400), rng.range(300, 5000)])).encode()
        elif k < 10:
            s += rng.choice([b'', b'+', b'-'])
            s += rng.choice(specials)
        else:
            s = bytes(rng.below(256) for _ in range(rng.range(0, 12)))
        # suffix
        sk = rng.below(5)
        if sk == 0:
            s += bytes(rng.below(256) for _ in range(rng.range(0, 6)))
        elif sk == 1:
            s += rng.choice([b' narnia', b'e', b'.', b'..', b'e+', b'x', b'.5', b'e5', b'E-3', b'-1', b'+', b'f', b'inf', b'nan'])
        out.append(s)
    out += [b'', b'+', b'-', b'.', b'e', b'E', b'-.', b'.e', b'e5', b'.e5', b'-e5', b'+.e+', b'0', b'-0', b'0.0', b'00.00e00', b'1e', b'1e+', b'1.e1', b'1..2', b'1e1e1', b'1.2.3',
            b'-inf', b'+NaN', b'-nan', b'infinity', b'-Infinityx', b'1e2147483648', b'1e-2147483649', b'0e99999999999999999999', b'1e-99999999999999999999',
            b'12345.67 narnia', b'1.0e7', b'\xff', b'\x00', b'1\xff', b'1.\xff', b'1e\xff', b'\xb1', b'\xb9\xb9']
    return out


def check_c19(res, tier, rng):
    plan = [('s', 'release'), ('s', 'checked'), ('sc', 'release'), ('sc', 'checked'), ('nca', 'checked')]
    broken = prepare(res, 'C19', ['s', 'sc', 'nca'])
    if 'harness' in broken:
        finish_verdict(res, broken, [], 'LFE'); return
    strings = g_fe(rng, scale(tier, 2500, 40000))
    lines, want = [], []
    for s in strings:
        for variant in ('simple', 'fuzz', 'integ', 'golang'):
            fmt = rng.choice(['f64', 'f32']) if variant in ('integ', 'golang') else None
            for fm in ([fmt] if fmt else ['f64', 'f32']):
                lines.append('FE %s %s %s' % (variant, fm, 'x' + s.hex() if s else '-'))
                bits, rest = fe_oracle(variant, fm, s)
                want.append('V %016x R %d' % (bits, rest))
    if 'model' in broken:
        impl = {k: run_impl(k[0], k[1], lines) for k in plan}; model = impl
    else:
        # the model is run on a budgeted subset (long digit strings are expensive)
        impl, model = l1_run(res, lines, plan, 'LFE')
    nviol = 0
    for k, l in enumerate(lines):
        for key in plan:
            out = impl[key][k]
            if out != want[k]:
                nviol += 1
                if nviol <= 20:
                    t = l.split()
                    res.violation('front-end result differs from the grammar + correctly rounded value',
                                  {'case': l[:1500], 'bytes': repr(bytes.fromhex(t[3][1:]) if t[3] != '-' else b'')[:300], 'variant': t[1], 'cfg': key[0], 'build': key[1], 'observed': out, 'expected': want[k]},
                                  key=('F1' if False else None))
    res.nontrivial.update(l for l in lines)
    for s in strings[:3] + strings[-3:]:
        res.add_sample(repr(s)[:200])
    corr = diff_all(lines, impl, model) if 'model' not in broken else []
    inv = config_inventory_check()
    res.suite_stats['config_inventory'] = inv['summary']
    if inv['diff']:
        corr.append({'case': 'build-configuration inventory of /repo (cfg predicates of the front-end copies, the manifests that decide what minimal_lexical means for them) differs from the expected one', 'diff': inv['diff'][:20]})
    finish_verdict(res, broken, corr, 'LFE front-end + build-configuration inventory')


# ====================================================================== C08
def check_c08(res, tier, rng):
    cfgs = CFGS
    broken = prepare(res, 'C08', cfgs)
    if 'harness' in broken:
        finish_verdict(res, broken, [], 'L0'); return
    cases = g_garb(rng, scale(tier, 5000, 80000), maxlen=scale(tier, 300, 10000))
    # invalid-but-digit inputs: leading zeros, huge digit counts that overflow the capacity
    for _ in range(scale(tier, 300, 3000)):
        fmt = rng.choice(['f64', 'f32'])
        k = rng.below(4)
        if k == 0:
            cases.append(PF(fmt, '0' * rng.range(1, 30) + rng.digits(rng.range(0, 30)), rng.digits(rng.range(0, 30)), rng.range(-400, 400), 'G-GARB/lead0'))
        elif k == 1:
            cases.append(PF(fmt, rng.digits(rng.range(800, 3000), True), '', rng.range(-5000, 5000), 'G-GARB/huge'))
        elif k == 2:
            cases.append(PF(fmt, '', 'x' + ('ff' * rng.range(700, 1400)), rng.range(-400, 400), 'G-GARB/ff'))
        else:
            cases.append(PF(fmt, 'x' + ('3a' * rng.range(1, 900)), 'x' + ('2f' * rng.range(0, 900)), rng.range(-4200, 4200), 'G-GARB/edge'))
    run = l0_run(res, cases, cfgs, ALL_MODES, MODEL_PLAN_FULL + [('sa', 'release'), ('sca', 'checked')] if 'model' not in broken else [],
                 model_budget=scale(tier, 600, 4000), rng=rng, want_paths=False)
    nviol = 0
    oc = Counter()
    for idx, c in enumerate(run.cases):
        for cfg in cfgs:
            for m in ALL_MODES:
                out = run.impl[(cfg, m)][idx]
                oc[out.split()[0]] += 1
                if out.startswith('CRASH') or not (out.startswith('V ') or out == 'PANIC'):
                    nviol += 1
                    if nviol <= 20:
                        res.violation('arbitrary bytes: the call neither returned a float nor panicked cleanly (%s)' % out,
                                      {'case': c.line()[:3000], 'cfg': cfg, 'build': m, 'config': CFG_DESC[cfg], 'observed': out})
                if out == 'PANIC':
                    res.nontrivial.add(c.key())
    res.suite_stats['outcome_classes'] = dict(oc)
    corr = model_mismatches(run)
    # any UB outcome of the model on these inputs contradicts the no_UB theorem
    ub = [(c.line()[:500], k2) for idx, c in enumerate(run.cases) for k2, mo in run.model.items()
          if run.model_idx.get(idx) is not None and mo[run.model_idx[idx]] == 'UB']
    if ub:
        res.violation('model reaches an unchecked operation outside its side condition', {'case': ub[0][0], 'cfg': ub[0][1][0], 'build': ub[0][1][1]})
    # inventory of unsafe sites
    inv = inventory_check()
    res.suite_stats['unsafe_inventory'] = inv['summary']
    if inv['diff']:
        corr.append({'case': 'unsafe-site inventory of /repo/src differs from the one the model was written against', 'diff': inv['diff'][:20]})
    if tier == 'thorough':
        sanitizer_runs(res, cases, rng)
    finish_verdict(res, broken, corr, 'L0 arbitrary bytes (outcome class and value) + unsafe inventory')


UNSAFE_PAT = re.compile(r'unsafe\s*\{|unsafe\s+fn|unsafe\s+impl|get_unchecked(?:_mut)?|ptr::\w+|set_len|from_raw_parts(?:_mut)?|MaybeUninit|as_mut_ptr|as_ptr|push_unchecked|pop_unchecked|extend_unchecked|resize_unchecked|truncate_unchecked|transmute|\.add\(|\.offset\(|write_bytes|copy_nonoverlapping|static\s+mut')
STATE_PAT = re.compile(r'static\s+mut\b|\bstatic\s+\w+\s*:|\bAtomic\w+|thread_local!|\bCell\b|\bRefCell\b|\bUnsafeCell\b|\bOnceCell\b|\bOnceLock\b|\bLazyLock\b|\bLazy\b|lazy_static|\bMutex\b|\bRwLock\b|\bOnce\b')
ALLOC_PAT = re.compile(r'\bVec\b|\bvec!|\bBox\b|\bString\b|format!|\bRc\b|\bArc\b|to_vec\(|to_string\(|to_owned\(|extern\s+crate\s+alloc|\balloc::')


def strip_comments(txt):
    """remove // and (nested) /* */ comments, respecting string, raw-string, byte-string and char
    literals (a `//` inside "https://.." is not a comment); string contents are kept"""
    out = []
    i, n = 0, len(txt)
    while i < n:
        c = txt[i]
        two = txt[i:i + 2]
        if two == '//':
            j = txt.find('\n', i)
            i = n if j < 0 else j
        elif two == '/*':
            depth, i = 1, i + 2
            while i < n and depth:
                if txt[i:i + 2] == '/*':
                    depth += 1; i += 2
                elif txt[i:i + 2] == '*/':
                    depth -= 1; i += 2
                else:
                    i += 1
            out.append(' ')
        elif c == '"' or (c in 'rb' and re.match(r'(?:b?r#*"|b")', txt[i:i + 12]) and (i == 0 or not (txt[i - 1].isalnum() or txt[i - 1] == '_'))):
            m = re.match(r'b?r(#*)"', txt[i:i + 12])
            if m:                                   # raw string: ends at "###
                end = '"' + m.group(1)
                j = txt.find(end, i + len(m.group(0)))
                j = n if j < 0 else j + len(end)
            else:
                j = i + (2 if c == 'b' else 1)
                while j < n and txt[j] != '"':
                    j += 2 if txt[j] == '\\' else 1
                j += 1
            out.append(txt[i:j]); i = j
        elif c == "'":
            m = re.match(r"'(?:\\.[^']*|[^'\\])'", txt[i:i + 12])   # char literal (not a lifetime)
            if m:
                out.append(m.group(0)); i += len(m.group(0))
            else:
                out.append(c); i += 1
        else:
            out.append(c); i += 1
    return ''.join(out)


def inventory(pattern, files=None):
    inv = []
    src = '/repo/src'
    for fn in sorted(os.listdir(src)):
        if not fn.endswith('.rs') or fn == 'libm.rs' and pattern is ALLOC_PAT:
            continue
        if files and fn not in files:
            continue
        code = strip_comments(open(os.path.join(src, fn)).read())
        cur_fn = '<top>'
        for line in code.split('\n'):
            m = re.search(r'\bfn\s+(\w+)', line)
            if m:
                cur_fn = m.group(1)
            for m2 in pattern.finditer(line):
                inv.append('%s::%s::%s' % (fn, cur_fn, re.sub(r'\s+', ' ', m2.group(0))))
    return inv


def inventory_check(kind='unsafe'):
    pat = {'unsafe': UNSAFE_PAT, 'alloc': ALLOC_PAT, 'state': STATE_PAT}[kind]
    cur = Counter(inventory(pat))
    path = '%s/inventory.%s.expected' % (VERIF, kind)
    exp = Counter()
    if os.path.exists(path):
        for l in open(path):
            l = l.rstrip('\n')
            if l:
                n, item = l.split(' ', 1)
                exp[item] = int(n)
    diff = []
    for k in sorted(set(cur) | set(exp)):
        if cur[k] != exp[k]:
            diff.append('%s: expected %d, found %d' % (k, exp[k], cur[k]))
    return {'summary': {'sites': sum(cur.values()), 'distinct': len(cur)}, 'diff': diff, 'current': cur}



# ---------------------------------------------------------------- build-configuration inventory
CONFIG_HEADS = ('cfg_attr', 'cfg', 'option_env', 'env', 'include', 'include_str', 'include_bytes', 'compile_error', 'concat_idents')
CONFIG_FILES_EXTRA = ['examples/simple.rs', 'fuzz/fuzz_targets/parse.rs', 'tests/integration_tests.rs',
                      'etc/correctness/test-parse-golang/main.rs', 'etc/correctness/rng-tests/_common.rs',
                      'etc/correctness/test-parse-random/_common.rs', 'etc/correctness/test-parse-unittests/main.rs']


def _balanced(txt, i):
    """txt[i] == '(' : return the index just after the matching ')'"""
    depth = 0
    for j in range(i, len(txt)):
        if txt[j] == '(':
            depth += 1
        elif txt[j] == ')':
            depth -= 1
            if depth == 0:
                return j + 1
    return len(txt)


def _squash(txt):
    """remove white space outside string literals only (`"6 4"` is not `"64"`)"""
    return ''.join(part if part.startswith('"') else re.sub(r'\s+', '', part)
                   for part in re.split(r'("(?:[^"\\]|\\.)*")', txt))


def config_inventory():
    """Everything that makes the compiled code depend on HOW it is built: every `cfg(..)`, `cfg_attr(..)`,
    `cfg!(..)`, `env!`, `option_env!`, `include*!`, `compile_error!` in every source file of the crate
    and in the shipped front-end copies (predicate text, white space removed), every line of
    Cargo.toml outside comments, and the presence of build scripts / cargo configuration files.
    The harness builds 8 feature combinations with the hook feature `verif` on; code that is
    conditional on anything else - or on `verif` itself - is not what the harness observes."""
    inv = []
    root = '/repo'
    files = ['src/' + f for f in sorted(os.listdir(root + '/src')) if f.endswith('.rs')] + CONFIG_FILES_EXTRA
    for rel in files:
        path = os.path.join(root, rel)
        if not os.path.exists(path):
            inv.append('%s::<missing>' % rel)
            continue
        code = strip_comments(open(path, errors='replace').read())
        for m in re.finditer(r'\b(%s)\s*(!?)\s*\(' % '|'.join(CONFIG_HEADS), code):
            j = _balanced(code, m.end() - 1)
            inv.append('%s::%s%s%s' % (rel, m.group(1), m.group(2), _squash(code[m.end() - 1:j])))
        for m in re.finditer(r'\btarget_(?:arch|os|feature|pointer_width|endian|env|family|has_atomic)\b|\bdebug_assertions\b|\boverflow_checks\b', code):
            inv.append('%s::token::%s' % (rel, m.group(0)))
    ct = os.path.join(root, 'Cargo.toml')
    if os.path.exists(ct):
        META = ('version', 'authors', 'description', 'documentation', 'repository', 'readme', 'keywords', 'categories', 'license', 'homepage')
        section, in_array = '', False
        for l in open(ct):
            l = re.sub(r'\s+', ' ', l.split('#')[0]).strip()
            if not l:
                continue
            if in_array:                       # continuation lines of a descriptive array (exclude = [ ... ])
                if l.startswith(']'):
                    in_array = False
                continue
            if l.startswith('['):
                section = l
            key = l.split('=')[0].strip()
            if section == '[package]' and (key in META or key == 'exclude'):
                if key == 'exclude' and l.rstrip().endswith('['):
                    in_array = True
                continue
            inv.append('Cargo.toml::%s' % l)
    for extra in ('build.rs', '.cargo/config.toml', '.cargo/config', 'rust-toolchain', 'rust-toolchain.toml'):
        if os.path.exists(os.path.join(root, extra)):
            inv.append('file::%s' % extra)
    # the manifests that decide what `minimal_lexical` means for the front-end copies under fuzz/ and
    # etc/correctness/: the dependency on the crate and the feature forwarding (not the test binaries)
    for sub in ('fuzz/Cargo.toml', 'etc/correctness/Cargo.toml'):
        mp = os.path.join(root, sub)
        if not os.path.exists(mp):
            inv.append('%s::<missing>' % sub)
            continue
        section = ''
        for l in open(mp):
            l = re.sub(r'\s+', ' ', l.split('#')[0]).strip()
            if not l:
                continue
            if l.startswith('['):
                section = l
            if section in ('[dependencies.minimal-lexical]', '[features]', '[patch.crates-io]', '[replace]') or 'minimal' in l:
                inv.append('%s::%s::%s' % (sub, section, l))
    return inv


def config_inventory_check():
    cur = Counter(config_inventory())
    path = '%s/inventory.config.expected' % VERIF
    exp = Counter()
    if os.path.exists(path):
        for l in open(path):
            l = l.rstrip('\n')
            if l:
                n, item = l.split(' ', 1)
                exp[item] = int(n)
    diff = []
    for k in sorted(set(cur) | set(exp)):
        if cur[k] != exp[k]:
            diff.append('%s: expected %d, found %d' % (k, exp[k], cur[k]))
    return {'summary': {'items': sum(cur.values()), 'distinct': len(cur)}, 'diff': diff, 'current': cur}

def sanitizer_runs(res, cases, rng):
    """thorough tier: the garbage stream under Miri on the real code (support, not proof)"""
    script = '%s/tools/miri_run.sh' % VERIF
    if not os.path.exists(script):
        return
    lines = [c.line() for c in cases if len(c.line()) < 3000][:scale('thorough', 0, 150)]
    os.makedirs(CACHE + '/miri', exist_ok=True)
    open(CACHE + '/miri/cases.txt', 'w').write('\n'.join(lines) + '\n')
    rc, out, err = sh('%s %s/miri/cases.txt' % (script, CACHE), timeout=3400)
    res.suite_stats['miri'] = {'cases': len(lines), 'rc': rc, 'tail': (out + err)[-400:]}
    if rc != 0 and 'Undefined Behavior' in (out + err):
        res.violation('Miri reports undefined behaviour on the real code', {'output': (out + err)[-3000:], 'replay_cmd': script + ' ' + CACHE + '/miri/cases.txt'})


# ====================================================================== C15
def check_c15(res, tier, rng):
    cfgs = CFGS
    broken = prepare(res, 'C15', cfgs)
    if 'harness' in broken:
        finish_verdict(res, broken, [], 'L0'); return
    cases = g_mid(rng, scale(tier, 1500, 20000)) + g_trunc(rng, scale(tier, 500, 5000)) + g_rand(rng, scale(tier, 1000, 10000)) + g_sub(rng, scale(tier, 300, 3000)) + \
        g_ext(rng, scale(tier, 300, 2000)) + g_long(rng, scale(tier, 4, 30), tier == 'thorough') + g_garb(rng, scale(tier, 500, 5000))
    cases = dedupe(cases)
    lines = [c.line('PFA') for c in cases]
    impl, _ = run_matrix(lines, cfgs, ALL_MODES, model=False)
    paths = run_impl('s', 'release', [c.line('PTH') for c in cases])
    res.evaluations += len(lines) * len(cfgs) * 2
    nviol = 0
    tot = Counter()
    for idx, c in enumerate(cases):
        if paths[idx] == 'T S':
            res.nontrivial.add(c.key())
        for cfg in cfgs:
            for m in ALL_MODES:
                out = impl[(cfg, m)][idx]
                mm = re.match(r'V \w+ A (\d+)', out)
                if not mm:
                    continue
                a = int(mm.group(1))
                tot[cfg] += a
                if 'a' not in cfg and a != 0:
                    nviol += 1
                    if nviol <= 20:
                        res.violation('%d heap allocation(s) during parse_float in a build without the alloc feature' % a,
                                      {'case': c.line()[:3000], 'cfg': cfg, 'build': m, 'config': CFG_DESC[cfg], 'observed': out})
    res.suite_stats['allocations_by_config'] = dict(tot)
    res.suite_stats['paths'] = dict(Counter(paths))
    if not any(tot[c] for c in cfgs if 'a' in c):
        res.notes.append('counting allocator saw no allocation even in alloc builds: the counter may not be working')
        res.violation('allocation counter self-check failed (machinery fault)', {'broken': 'counting allocator'}, no_input=True)
    for c in cases[:3]:
        res.add_sample(c.short())
    corr = []
    # static support: the rlib of non-alloc configurations has no reference to the allocator
    for cfg in [c for c in cfgs if 'a' not in c]:
        d = '%s/target/%s-release/release/deps' % (CACHE, cfg)
        libs = [f for f in os.listdir(d) if f.startswith('libminimal_lexical') and f.endswith('.rlib')]
        for lb in libs:
            rc, out, err = sh('nm -u %s/%s 2>/dev/null | grep -E "__rust_alloc|__rust_realloc|__rg_alloc|__rust_alloc_zeroed|alloc..alloc|alloc..raw_vec" | head -5' % (d, lb))
            if out.strip():
                res.violation('the compiled minimal_lexical library of a non-alloc configuration references the allocator',
                              {'cfg': cfg, 'config': CFG_DESC[cfg], 'symbols': out.strip().split('\n'), 'replay_cmd': 'nm -u %s/%s' % (d, lb)})
    inv = inventory_check('alloc')
    res.suite_stats['alloc_inventory'] = inv['summary']
    if inv['diff']:
        corr.append({'case': 'inventory of allocation-capable constructs in /repo/src differs from the one the model was written against', 'diff': inv['diff'][:20]})
    finish_verdict(res, broken, corr, 'allocation inventory')


# ====================================================================== C16
SHAPES = ['slice', 'chain', 'filter', 'deque', 'cursor', 'revrev', 'poisonff', 'poisonaa', 'after', 'threads']


def check_c16(res, tier, rng):
    cfgs = ['s', 'sc', 'sa', 'nca']
    broken = prepare(res, 'C16', cfgs)
    if 'harness' in broken:
        finish_verdict(res, broken, [], 'L0'); return
    cases = g_mid(rng, scale(tier, 700, 8000)) + g_rand(rng, scale(tier, 500, 6000)) + g_seam(rng, scale(tier, 200, 2000)) + g_trunc(rng, scale(tier, 200, 2000)) + g_sub(rng, scale(tier, 100, 1000)) + g_zlimb(rng, scale(tier, 150, 1500))
    cases = [c for c in dedupe(cases) if is_valid(c.i, c.f, c.e)]
    lines, base_idx = [], []
    for c in cases:
        for shp in SHAPES:
            if shp == 'threads' and rng.below(6):
                continue
            lines.append('PFI %s %s %s %s %d' % (c.fmt, shp, c.i or '-', c.f or '-', c.e))
            base_idx.append(c)
    impl, _ = run_matrix(lines, cfgs, ALL_MODES, model=False)
    res.evaluations += len(lines) * len(cfgs) * 2
    ref = {}
    nviol = 0
    for cfg in cfgs:
        for m in ALL_MODES:
            outs = impl[(cfg, m)]
            for k, l in enumerate(lines):
                c = base_idx[k]
                shp = l.split()[2]
                if shp == 'slice':
                    ref[(cfg, m, c.key())] = outs[k]
            for k, l in enumerate(lines):
                c = base_idx[k]
                shp = l.split()[2]
                want = ref[(cfg, m, c.key())]
                if outs[k] != want:
                    nviol += 1
                    if nviol <= 20:
                        res.violation('result depends on how the bytes are supplied (%s gives %s, slice iterators give %s)' % (shp, outs[k], want),
                                      {'case': l[:3000], 'cfg': cfg, 'build': m, 'config': CFG_DESC[cfg], 'shape': shp, 'observed': outs[k], 'expected': want})
    # call histories: inputs that share their digit bytes and are hard at two decimal scales, parsed
    # back to back in one process in every order, on one thread and across threads; every answer must
    # be the one the input gets on its own (= the oracle's)
    groups = g_rescale(rng, scale(tier, 40, 400))
    hist = []
    for A, B, C in groups:
        for seq in ((A, B), (B, A), (A, C), (C, A), (B, C, A), (A, A, B)):
            hist.extend(seq)
    hlines = []
    for k, c in enumerate(hist):
        shp = 'threads' if (k // 7) % 3 == 2 else 'slice'
        hlines.append('PFI %s %s %s %s %d' % (c.fmt, shp, c.i or '-', c.f or '-', c.e))
    himpl, _ = run_matrix(hlines, cfgs, ALL_MODES, model=False)
    res.evaluations += len(hlines) * len(cfgs) * 2
    nh = 0
    for (cfg, m), outs in himpl.items():
        for k, c in enumerate(hist):
            want = 'V %016x' % rn_decimal(c.fmt, c.i, c.f, c.e)
            if outs[k] != want:
                alone = one_impl(cfg, m, c.line())
                nh += 1
                if nh <= 10:
                    prev = hist[k - 1].line() if k else '(first call)'
                    if alone == want:
                        res.violation('result depends on the calls made before: after `%s` the input gives %s, on its own it gives %s' % (prev[:160], outs[k], alone),
                                      {'case': c.line()[:3000], 'history': [h.line()[:3000] for h in hist[max(0, k - 2):k + 1]], 'cfg': cfg, 'build': m, 'config': CFG_DESC[cfg],
                                       'observed': outs[k], 'expected': want, 'family': c.fam})
                    else:
                        res.violation('wrong value on a double-scale hard case: got %s expected %s' % (outs[k], want),
                                      {'case': c.line()[:3000], 'cfg': cfg, 'build': m, 'config': CFG_DESC[cfg], 'observed': outs[k], 'expected': want, 'family': c.fam})
    res.suite_stats['history_groups'] = len(groups)
    res.suite_stats['history_calls'] = len(hlines)
    # the sequential reference itself is tied to the model / oracle
    pf = [c.line() for c in cases]
    run = l0_run(res, cases, cfgs, ALL_MODES, MODEL_PLAN_LIGHT if 'model' not in broken else [], model_budget=scale(tier, 300, 2000), rng=rng)
    corr = model_mismatches(run)
    res.suite_stats['shapes'] = SHAPES
    # global mutable state: the model of parse_float is a function of its arguments; the code must not
    # have grown state that outlives a call (statics with interior mutability, atomics, thread-locals)
    inv = inventory_check('state')
    res.suite_stats['state_inventory'] = inv['summary']
    if inv['diff']:
        corr.append({'case': 'inventory of global / interior-mutable state in /repo/src differs from the one the model was written against (the model of parse_float is stateless)', 'diff': inv['diff'][:20]})
    finish_verdict(res, broken, corr, 'L0 iterator shapes / histories / threads + state inventory')
