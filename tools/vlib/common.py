"""Shared machinery of the checks: building, running implementation and model, evidence,
known findings, violation reporting."""
import os, sys, json, subprocess, time, hashlib, re, threading
from concurrent.futures import ThreadPoolExecutor

VERIF = '/verif'
CACHE = VERIF + '/.cache'
COQ = VERIF + '/coq'
REPLAYS = VERIF + '/replays'
CFGS = ['s', 'sc', 'sa', 'sca', 'n', 'nc', 'na', 'nca']
CFG_DESC = {'s': 'default(std)', 'sc': 'std+compact', 'sa': 'std+alloc', 'sca': 'std+compact+alloc',
            'n': 'no_std', 'nc': 'no_std+compact', 'na': 'no_std+alloc', 'nca': 'no_std+compact+alloc'}
MODES = ['release', 'checked']
ALLOWED_AXIOMS = {
    'Classical_Prop.classic', 'ClassicalDedekindReals.sig_forall_dec',
    'ClassicalDedekindReals.sig_not_dec', 'FunctionalExtensionality.functional_extensionality_dep',
}
FORBIDDEN_RE = re.compile(r'\b(Admitted|admit|Axiom|Axioms|Parameter|Parameters|Conjecture|Conjectures|'
                          r'Unset\s+Guard|bypass_check|type-in-type|impredicative-set|Admit\s+Obligations)\b')

T0 = time.time()


def log(*a):
    print('[%6.1fs]' % (time.time() - T0), *a, file=sys.stderr, flush=True)


def sh(cmd, timeout=3600, cwd=None, env=None):
    # the registered checks always work on /repo and /verif: environment variables that would redirect
    # the translator, cargo or rustc elsewhere are not inherited
    e = {k: v for k, v in os.environ.items()
         if not (k.startswith('RS2COQ_') or k in ('RUSTFLAGS', 'CARGO_ENCODED_RUSTFLAGS', 'RUSTC_WRAPPER', 'RUSTC_WORKSPACE_WRAPPER',
                                                  'RUSTC', 'CARGO_BUILD_RUSTFLAGS', 'CARGO_BUILD_TARGET', 'CARGO_TARGET_DIR',
                                                  'CARGO_BUILD_RUSTC', 'CARGO_BUILD_RUSTC_WRAPPER', 'RUSTDOCFLAGS', 'COQPATH', 'OCAMLPATH'))}
    e['CARGO_NET_OFFLINE'] = 'true'
    if env:
        e.update(env)
    p = subprocess.run(cmd, shell=True, capture_output=True, text=True, timeout=timeout, cwd=cwd, env=e)
    return p.returncode, p.stdout, p.stderr


class PrepareError(Exception):
    def __init__(self, stage, detail):
        self.stage, self.detail = stage, detail
        Exception.__init__(self, '%s: %s' % (stage, detail[-2000:]))


def impl_exe(cfg, mode):
    sub = 'release' if mode == 'release' else 'checked'
    return '%s/target/%s-%s/%s/run' % (CACHE, cfg, mode, sub)


_prepared = {}


def build_harness(cfgs=None):
    """Rebuild harness binaries from /repo's current working tree (cargo decides what to rebuild)."""
    cfgs = cfgs or CFGS
    key = ('harness', tuple(cfgs))
    if key in _prepared:
        return
    rc, out, err = sh('%s/tools/build_harness.sh %s' % (VERIF, ' '.join(cfgs)), timeout=1800)
    if rc != 0:
        raise PrepareError('cargo-build', out + err)
    _prepared[key] = True


def gen_coq():
    if 'gen' in _prepared:
        return _prepared['gen']
    rc, out, err = sh('python3 %s/tools/gen_coq.py' % VERIF, timeout=300)
    if rc != 0:
        raise PrepareError('gen-coq', out + err)
    _prepared['gen'] = out.strip()
    return _prepared['gen']


SRC_TIED = ('C01', 'C02', 'C06', 'C08', 'C10', 'C11', 'C12', 'C13', 'C17', 'C18', 'C19')     # property files that contain source-translation equivalences


def gen_src():
    """Regenerate coq/gen/Src.v from /repo/src with the rs2coq translator (fail closed)."""
    if 'src' in _prepared:
        return _prepared['src']
    rc, out, err = sh('%s/tools/rs2coq/run.sh' % VERIF, timeout=1200)
    if rc != 0:
        raise PrepareError('rs2coq', 'the Rust-to-Gallina translator could not translate /repo/src (exit %d): %s' % (rc, (out + err)[-1500:]))
    lines = [l for l in (out + err).strip().split('\n') if l.startswith('rs2coq')]
    _prepared['src'] = ' | '.join(lines[:2] + ['%d output files up to date' % sum(1 for l in lines if l.endswith('is up to date'))] + [l for l in lines[2:] if not l.endswith('is up to date')])[-900:]
    return _prepared['src']


def coq_make(targets, timeout=3000):
    """make the given .vo targets (full .vo build, each coqc under the Makefile's own rules)."""
    if not os.path.exists(COQ + '/Makefile') or os.path.getmtime(COQ + '/Makefile') < os.path.getmtime(COQ + '/_CoqProject'):
        rc, out, err = sh('coq_makefile -f _CoqProject -o Makefile', cwd=COQ, timeout=120)
        if rc != 0:
            raise PrepareError('coq_makefile', out + err)
    rc, out, err = sh('timeout %d make -j16 %s' % (timeout, ' '.join(targets)), cwd=COQ, timeout=timeout + 60)
    return rc, out + err


def build_model():
    if 'model' in _prepared:
        return
    rc, out = coq_make(['extract/ExtractDeps.vo'])
    if rc != 0:
        raise PrepareError('coq-model', out)
    rc, out, err = sh('%s/tools/build_model.sh' % VERIF, timeout=1800)
    if rc != 0:
        raise PrepareError('extraction', out + err)
    _prepared['model'] = True


def grep_forbidden():
    """No Admitted/admit/Axiom/Parameter/... anywhere in the development (comments excluded)."""
    bad = []
    for root, dirs, files in os.walk(COQ):
        dirs[:] = [d for d in dirs if not d.startswith('scratch_')]    # agents' scratch directories are not part of the development
        for fn in files:
            if not fn.endswith('.v'):
                continue
            p = os.path.join(root, fn)
            txt = open(p).read()
            # strip comments (nested)
            res, depth, i = [], 0, 0
            while i < len(txt):
                if txt.startswith('(*', i):
                    depth += 1; i += 2
                elif txt.startswith('*)', i) and depth > 0:
                    depth -= 1; i += 2
                else:
                    if depth == 0:
                        res.append(txt[i])
                    i += 1
            code = ''.join(res)
            # strip string literals
            code = re.sub(r'"[^"]*"', '""', code)
            for m in FORBIDDEN_RE.finditer(code):
                bad.append('%s: %s' % (p, m.group(0)))
    return bad


def check_theorems(prop):
    """Build props/<prop>.vo and collect what it proves.
    Returns dict(ok, log, theorems=[names], axioms=set, bad_axioms=set)."""
    target = 'props/%s.vo' % prop
    t = time.time()
    rc, out = coq_make([target])
    res = {'ok': rc == 0, 'log': out[-6000:], 'theorems': [], 'axioms': set(), 'bad_axioms': set(), 'closed': 0,
           'make_s': time.time() - t}
    src = open('%s/props/%s.v' % (COQ, prop)).read()
    res['theorems'] = re.findall(r'^\s*(?:Theorem|Corollary)\s+(\w+)', src, re.M)
    res['checks'] = len(re.findall(r'^\s*Check\s+\w+\s*:', src, re.M))
    if rc != 0:
        return res
    # re-run the leaf file to capture Print Assumptions output
    rc2, o2, e2 = sh('timeout 900 coqc -Q . ML -w -notation-overridden props/%s.v' % prop, cwd=COQ, timeout=960)
    if rc2 != 0:
        res['ok'] = False
        res['log'] = (o2 + e2)[-6000:]
        return res
    res['assumptions_output'] = o2
    for blk in re.split(r'(?=Closed under the global context|Axioms:)', o2):
        if blk.startswith('Closed under'):
            res['closed'] += 1
        elif blk.startswith('Axioms:'):
            for m in re.finditer(r'^([A-Za-z_][\w.]*)\s*:', blk[len('Axioms:'):], re.M):
                res['axioms'].add(m.group(1))
    res['bad_axioms'] = {a for a in res['axioms'] if a not in ALLOWED_AXIOMS}
    bad = grep_forbidden()
    if bad:
        res['ok'] = False
        res['log'] = 'forbidden constructs: ' + '; '.join(bad[:10])
    if res['bad_axioms']:
        res['ok'] = False
        res['log'] = 'axioms outside the allow-list: ' + ', '.join(sorted(res['bad_axioms']))
    return res


# ------------------------------------------------------------------ running cases
def _run_proc(cmd, lines, timeout):
    data = ('\n'.join(lines) + '\n').encode()
    p = subprocess.run(cmd, input=data, capture_output=True, timeout=timeout, shell=True, executable='/bin/bash')
    out = p.stdout.decode(errors='replace').split('\n')
    if out and out[-1] == '':
        out.pop()
    return p.returncode, out


def run_impl(cfg, mode, lines, timeout=1800):
    """Run the real code.  A process that dies (abort, segfault, stack overflow) is detected by
    the line count: the case at which it died gets 'CRASH <rc>' and the rest is re-run."""
    exe = impl_exe(cfg, mode)
    res = []
    todo = list(lines)
    guard = 0
    while todo:
        rc, out = _run_proc(exe, todo, timeout)
        res.extend(out[:len(todo)])
        if len(out) >= len(todo):
            break
        # died at case index len(out)
        res.append('CRASH %d' % rc)
        todo = todo[len(out) + 1:]
        guard += 1
        if guard > 50:
            res.extend(['CRASH-SKIPPED'] * len(todo))
            break
    return res


def run_model(cfg, mode, lines, timeout=1800):
    exe = '%s/ocaml/modelrun' % CACHE
    rc, out = _run_proc('ulimit -s unlimited 2>/dev/null || ulimit -s 4000000 2>/dev/null; %s %s %s' % (exe, cfg, mode), lines, timeout)
    if len(out) < len(lines):
        out = out + ['MODEL-CRASH %d' % rc] * (len(lines) - len(out))
    return out


def run_raw(mode, lines, timeout=1800):
    """the extracted cell-level vector model (rawrun), sharded 16-way"""
    exe = '%s/ocaml/rawrun' % CACHE
    nsh = 16
    chunks = [lines[k::nsh] for k in range(nsh)]

    def one(ch):
        if not ch:
            return []
        rc, out = _run_proc('ulimit -s unlimited 2>/dev/null || ulimit -s 4000000 2>/dev/null; %s %s' % (exe, mode), ch, timeout)
        if len(out) < len(ch):
            out = out + ['MODEL-CRASH %d' % rc] * (len(ch) - len(out))
        return out
    with ThreadPoolExecutor(max_workers=16) as ex:
        parts = list(ex.map(one, chunks))
    res = [None] * len(lines)
    for k, part in enumerate(parts):
        res[k::nsh] = part
    return res


def run_matrix(lines, cfgs, modes, model=True, shards=1):
    """Run lines on impl (and model) for every cfg x mode, in parallel.
    Returns (impl[(cfg,mode)] -> list, model[(cfg,mode)] -> list)."""
    jobs = []
    impl, mod = {}, {}
    nsh = max(1, shards)
    chunks = [lines[i::nsh] for i in range(nsh)] if nsh > 1 else [lines]

    def merge(parts):
        if nsh == 1:
            return parts[0]
        out = [None] * len(lines)
        for k, part in enumerate(parts):
            out[k::nsh] = part
        return out
    with ThreadPoolExecutor(max_workers=16) as ex:
        futs = {}
        for c in cfgs:
            for m in modes:
                futs[('i', c, m)] = [ex.submit(run_impl, c, m, ch) for ch in chunks]
                if model:
                    futs[('m', c, m)] = [ex.submit(run_model, c, m, ch) for ch in chunks]
        for (k, c, m), fl in futs.items():
            parts = [f.result() for f in fl]
            (impl if k == 'i' else mod)[(c, m)] = merge(parts)
    return impl, mod


# ------------------------------------------------------------------ known findings
def load_known():
    """KNOWN_FINDINGS: lines `known: property=<ids> key=<key> :: text` and `fixed: ...`.
    Only `known:` lines suppress; the key identifies the specific failing class."""
    path = VERIF + '/KNOWN_FINDINGS'
    known = []
    if os.path.exists(path):
        for l in open(path):
            l = l.strip()
            if l.startswith('known:'):
                m = re.match(r'known:\s*property=(\S+)\s+key=(\S+)\s*::\s*(.*)', l)
                if m:
                    known.append({'props': m.group(1).split(','), 'key': m.group(2), 'text': m.group(3)})
    return known


# ------------------------------------------------------------------ result of a check
class Result:
    def __init__(self, prop, tier, seed):
        self.prop, self.tier, self.seed = prop, tier, seed
        self.violations = []       # list of dict(replay)
        self.known_hits = []
        self.coverage = {}
        self.assumptions = []
        self.samples = []
        self.evaluations = 0
        self.nontrivial = set()
        self.notes = []
        self.level = 'other'
        self.theorem = None
        self.known = load_known()
        self.t0 = time.time()
        self.suite_stats = {}

    def add_sample(self, s, limit=8):
        if len(self.samples) < limit:
            if isinstance(s, str) and len(s) > 400:
                s = s[:200] + '...[%d chars]...' % len(s) + s[-100:]
            self.samples.append(s)

    def violation(self, what, replay, key=None, no_input=False):
        """Record a violation unless it matches a listed known finding."""
        for k in self.known:
            if self.prop in k['props'] and key is not None and key == k['key']:
                if key not in [h['key'] for h in self.known_hits]:
                    self.known_hits.append({'key': key, 'text': k['text'], 'example': replay})
                return False
        self.violations.append({'what': what, 'replay': replay, 'no_input': no_input})
        return True

    def finish(self):
        os.makedirs(VERIF + '/evidence', exist_ok=True)
        os.makedirs(REPLAYS, exist_ok=True)
        for h in self.known_hits:
            print('KNOWN-FINDING: property=%s %s' % (self.prop, h['text']))
        rc = 0
        # write at most 5 replay files (smallest first)
        for n, v in enumerate(self.violations[:5]):
            path = '%s/%s_%s_%d.json' % (REPLAYS, self.prop, self.tier, n)
            with open(path, 'w') as f:
                json.dump({'property': self.prop, 'what': v['what'], 'replay': v['replay'], 'seed': self.seed}, f, indent=1, default=str)
            line = 'VIOLATION property=%s replay=%s' % (self.prop, path)
            if v['no_input']:
                line += ' no-failing-input-found'
            print(line)
            rc = 1
        cov = dict(self.coverage)
        cov.setdefault('evaluations', int(self.evaluations))
        cov.setdefault('distinct_nontrivial', len(self.nontrivial))
        cov.setdefault('samples', self.samples or ['(no cases)'])
        cov['suites'] = self.suite_stats
        if self.theorem is not None:
            th = self.theorem
            cov['theorems'] = th.get('theorems', [])
            cov['theorems_checked'] = bool(th.get('ok'))
            cov['axioms'] = sorted(th.get('axioms', []))
            cov['closed_under_global_context'] = th.get('closed', 0)
            if self.level == 'proof':
                cov['obligations'] = len(th.get('theorems', []))
                cov['discharged'] = len(th.get('theorems', [])) if th.get('ok') else 0
                cov['checker_cmd'] = 'cd /verif/coq && make props/%s.vo && coqc -Q . ML props/%s.v  (Coq 8.16.1 kernel; Print Assumptions parsed against the allow-list)' % (self.prop, self.prop)
                cov['trusted_base'] = ['Coq 8.16.1 kernel + vm_compute'] + sorted(th.get('axioms', [])) + \
                    ['data translator (harness/dump + tools/gen_coq.py)', 'correspondence check (harness/run vs extracted model)']
        if self.level == 'other':
            cov.setdefault('explanation', ' '.join(self.notes) or 'see level_note in MANIFEST.json')
        ev = {
            'property_id': self.prop, 'tier': self.tier, 'seed': int(self.seed), 'level': self.level,
            'coverage': cov, 'assumptions': self.assumptions, 'wall_s': round(time.time() - self.t0, 2),
            'violations': len(self.violations),
            'known_findings_hit': [h['key'] for h in self.known_hits], 'notes': self.notes,
        }
        with open('%s/evidence/%s.json' % (VERIF, self.prop), 'w') as f:
            json.dump(ev, f, indent=1, default=str)
        log('%s: %d violations, %d known-finding classes hit, %d evaluations, %.1fs' % (
            self.prop, len(self.violations), len(self.known_hits), self.evaluations, time.time() - self.t0))
        return rc


class Rng:
    """xorshift64*: every random choice of a run derives from VERIF_SEED."""

    def __init__(self, seed):
        self.s = (seed * 0x9E3779B97F4A7C15 + 0x1234567) & 0xFFFFFFFFFFFFFFFF or 1

    def next(self):
        x = self.s
        x ^= (x >> 12); x ^= (x << 25) & 0xFFFFFFFFFFFFFFFF; x ^= (x >> 27)
        self.s = x
        return (x * 0x2545F4914F6CDD1D) & 0xFFFFFFFFFFFFFFFF

    def below(self, n):
        return self.next() % n if n > 0 else 0

    def range(self, a, b):
        return a + self.below(b - a + 1)

    def choice(self, l):
        return l[self.below(len(l))]

    def bits(self, n):
        v = 0
        for _ in range((n + 63) // 64):
            v = (v << 64) | self.next()
        return v & ((1 << n) - 1)

    def digits(self, n, first_nonzero=False):
        if n == 0:
            return ''
        parts = []
        left = n
        while left > 0:
            k = min(18, left)
            parts.append(str(self.next() % (10 ** k)).rjust(k, '0'))
            left -= k
        s = ''.join(parts)
        if first_nonzero and s[0] == '0':
            s = str(1 + self.below(9)) + s[1:]
        return s
