#!/bin/bash
# Build the dump/run binaries against /repo's current working tree, for every configuration
# and both build modes.  Usage: build_harness.sh [cfg ...]   (default: all 8 configs)
# Config names: letters  s = std, c = compact, a = alloc ;  "n" alone = no features.
set -u
cd /verif/harness
export CARGO_NET_OFFLINE=true
[ -f Cargo.lock ] || cp /repo/Cargo.lock Cargo.lock 2>/dev/null || true
CFGS=${@:-"s sc sa sca n nc na nca"}
LOG=/verif/.cache/build_logs; mkdir -p $LOG
pids=()
for cfg in $CFGS; do
  feats=""
  case $cfg in *s*) feats="$feats std";; esac
  case $cfg in *c*) feats="$feats compact";; esac
  case $cfg in *a*) feats="$feats alloc";; esac
  for mode in release checked; do
    ( CARGO_TARGET_DIR=/verif/.cache/target/$cfg-$mode cargo build --offline --profile $mode \
        --features "$feats" --bins >$LOG/$cfg-$mode.log 2>&1 || { echo "BUILD-FAILED $cfg-$mode"; tail -30 $LOG/$cfg-$mode.log; exit 1; } ) &
    pids+=($!)
  done
done
rc=0
for p in "${pids[@]}"; do wait $p || rc=1; done
exit $rc
