#!/bin/bash
# Extract the Coq model to OCaml and build the model runners.  Needs coq/ built (make).
#   modelrun : list-level model of the whole crate + oracle (extract/Extract.v, ocaml/driver.ml)
#   rawrun   : cell-level model of the fixed-capacity vector (extract/ExtractRaw.v, ocaml/rawdriver.ml)
set -eu
OUT=/verif/.cache/ocaml
mkdir -p $OUT
cd $OUT
# re-extract only when a model/gen/spec .vo is newer than the binaries
if [ -x modelrun ] && [ -x rawrun ] && [ -z "$(find /verif/coq/model /verif/coq/gen /verif/coq/spec /verif/coq/base /verif/coq/extract /verif/ocaml -newer modelrun \( -name '*.vo' -o -name '*.ml' -o -name 'Extract*.v' \) 2>/dev/null | head -1)" ] \
   && [ -z "$(find /verif/coq/model /verif/coq/gen /verif/coq/base /verif/coq/extract /verif/ocaml -newer rawrun \( -name '*.vo' -o -name '*.ml' -o -name 'Extract*.v' \) 2>/dev/null | head -1)" ]; then
  exit 0
fi
rm -f model.ml model.mli rawmodel.ml rawmodel.mli
timeout 600 coqc -Q /verif/coq ML /verif/coq/extract/Extract.v > extract.log 2>&1 || { cat extract.log; exit 1; }
timeout 600 coqc -Q /verif/coq ML /verif/coq/extract/ExtractRaw.v > extract_raw.log 2>&1 || { cat extract_raw.log; exit 1; }
cp /verif/ocaml/driver.ml driver.ml
cp /verif/ocaml/rawdriver.ml rawdriver.ml
( timeout 900 ocamlfind ocamlopt -O2 -package zarith -linkpkg -w -a rawmodel.mli rawmodel.ml rawdriver.ml -o rawrun > ocaml_raw.log 2>&1 \
 || timeout 900 ocamlfind ocamlopt -package zarith -linkpkg -w -a rawmodel.mli rawmodel.ml rawdriver.ml -o rawrun > ocaml_raw.log 2>&1 \
 || { cat ocaml_raw.log; exit 1; } ) &
P1=$!
timeout 900 ocamlfind ocamlopt -O2 -package zarith -linkpkg -w -a model.mli model.ml driver.ml -o modelrun > ocaml.log 2>&1 \
 || timeout 900 ocamlfind ocamlopt -package zarith -linkpkg -w -a model.mli model.ml driver.ml -o modelrun > ocaml.log 2>&1 \
 || { cat ocaml.log; exit 1; }
wait $P1
