#!/bin/bash
# Extract the Coq model to OCaml and build the model runner.  Needs coq/ built (make).
set -eu
OUT=/verif/.cache/ocaml
mkdir -p $OUT
cd $OUT
# re-extract only when a model/gen/spec .vo is newer than the binary
if [ -x modelrun ] && [ -z "$(find /verif/coq/model /verif/coq/gen /verif/coq/spec /verif/coq/base /verif/coq/extract /verif/ocaml -newer modelrun \( -name '*.vo' -o -name '*.ml' -o -name 'Extract.v' \) 2>/dev/null | head -1)" ]; then
  exit 0
fi
rm -f model.ml model.mli
timeout 600 coqc -Q /verif/coq ML /verif/coq/extract/Extract.v > extract.log 2>&1 || { cat extract.log; exit 1; }
cp /verif/ocaml/driver.ml driver.ml
timeout 900 ocamlfind ocamlopt -O2 -package zarith -linkpkg -w -a model.mli model.ml driver.ml -o modelrun > ocaml.log 2>&1 \
 || timeout 900 ocamlfind ocamlopt -package zarith -linkpkg -w -a model.mli model.ml driver.ml -o modelrun > ocaml.log 2>&1 \
 || { cat ocaml.log; exit 1; }
