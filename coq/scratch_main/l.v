From Coq Require Import ZArith QArith List Bool Lia.
From ML Require Import base.RustSem model.Fmt model.Num model.Number model.Parse model.Lemire model.Top
  spec.Decimal spec.Round spec.RoundFacts spec.RneZ spec.RneBridge gen.Consts gen.Tables gen.BTables gen.PowDump
  proofs.ParseFacts proofs.FastPathFacts proofs.EndToEnd proofs.EndToEnd2 proofs.LemireFacts0 proofs.LemireFacts5.
Open Scope Z_scope.
Goal forall z, 10 ^ 18 <= z -> z < 10 ^ 19 -> 0 < 10 ^ 18 -> 10 ^ 19 < 2 ^ 64 -> 0 < z /\ z + 1 < 2 ^ 64.
Proof. intros z Hl Hh H18 H19. split. Fail lia. Set Printing All. Show.
Abort.
