From Coq Require Import ZArith QArith Bool List.
From ML Require Import base.RustSem model.Fmt spec.Round spec.RneZ gen.Consts.
Import ListNotations.
Open Scope Z_scope.
Definition dec (f:format) (bits:Z) : Z*Z :=
  if bits <? 2^MANTISSA_SIZE f then (bits, femin f) else
  (bits mod 2^MANTISSA_SIZE f + 2^MANTISSA_SIZE f, bits / 2^MANTISSA_SIZE f - 1 + femin f).
Definition chk (f:format) (n d : Z) : bool :=
  let bits := RN f (n # Z.to_pos d) in
  if n =? 0 then bits =? 0 else
  if 2^emax f * d <=? n then bits =? inf_bits f else
  let '(M,E) := if bits =? inf_bits f then (2^prec f, emax f - prec f) else dec f bits in
  let N := sc_num n E in let D := sc_den d E in
  (femin f <=? E) && (N <? 2^prec f * D) && ((E =? femin f) || (2^(prec f -1) * D <=? N)) &&
  (2 * Z.abs (N - M*D) <=? D) && (negb (2 * Z.abs (N - M*D) =? D) || Z.even M) && (bits =? encode f M E).
Eval vm_compute in map (fun '(n,d) => chk F64 n d) [(1,3);(0,5);(2^1024-2^970,1);(2^1024-2^970-1,1);(1,2^1075);(3,2^1075);(1,2^1076);(2^53+1,1);(2^53+3,1);(5,2^1076);(2^1024,1);(2^1023*3,2);(1, 2^1074); (2^1024-2^971,1); (123456789012345678901234567890,7)].
Eval vm_compute in map (fun '(n,d) => chk F32 n d) [(1,3);(0,5);(2^128-2^103,1);(2^128-2^103-1,1);(1,2^150);(3,2^150);(2^24+1,1);(2^24+3,1)].
