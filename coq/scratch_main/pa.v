From ML Require Import proofs.EndToEnd6.
Print Assumptions parse_float_correct.
Check parse_float_correct.
