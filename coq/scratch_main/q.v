From Coq Require Import ZArith QArith List Bool Lia.
From ML Require Import base.RustSem spec.Decimal spec.RneZ.
Open Scope Z_scope.
Lemma dec_frac_Q : forall w q, 0 <= w ->
  (inject_Z w * pow10Q q == dec_num w q # Z.to_pos (dec_den q))%Q.
Proof.
  intros w q Hw. unfold dec_num, dec_den, pow10Q.
  destruct q as [|p|p].
  - change (0 <=? 0) with true. cbv iota. rewrite Z.pow_0_r, Z.mul_1_r. unfold Qeq, inject_Z. cbn [Qnum Qden Qmult]. cbn [Z.to_pos]. lia.
  - change (0 <=? Z.pos p) with true. cbv iota. unfold Qeq, inject_Z, Qmult. cbn [Qnum Qden Z.to_pos]. rewrite Pos.mul_1_l. lia.
  - change (0 <=? Z.neg p) with false. cbv iota. change (- Z.neg p) with (Z.pos p).
    unfold Qeq, inject_Z, Qmult. cbn [Qnum Qden]. rewrite Pos.mul_1_l. lia.
Qed.
