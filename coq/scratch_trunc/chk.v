From ML Require Import proofs.TruncFacts.
Check trunc_value_in_cell. Check sticky_in_cell. Check trunc_all_zero_value. Check trunc_N0_range.
