(** Extraction of the executable model and of the oracle.  [ExtrOcamlBasic] only: bool, option,
    unit, list, prod, sumbool, sumor map to OCaml's; Z, positive, N, nat, comparison and
    everything else stay the extracted inductive types.  No [Extract Constant]. *)
From Coq Require Import Extraction ExtrOcamlBasic ZArith QArith List.
From ML Require Import base.RustSem model.Fmt model.Mask model.Num model.Rounding model.FloatOps
  model.Number model.Parse model.Lemire model.Bellerophon model.Vec model.Bigint model.Slow
  model.Top model.FrontEnd spec.Decimal spec.Round
  gen.Consts gen.Tables gen.BTables gen.PowDump.
Extraction Language OCaml.
Extraction "model.ml"
  (* data *)
  F32 F64 LIMITS TABLES BTABLES CFG_s CFG_sc CFG_sa CFG_sca CFG_n CFG_nc CFG_na CFG_nca
  release_build checked_build
  (* top level and stages *)
  parse_float moderate_path parse_number try_fast_path is_fast_path int_pow_fast_path pow_fast_path
  compute_float compute_error compute_error_scaled compute_product_approx power lemire
  bellerophon bnormalize bmul error_is_accurate get_small get_large
  slow positive_digit_comp negative_digit_comp parse_mantissa scientific_exponent float_b float_bh
  round round_nearest_tie_even round_down cb_nearest_even lower_n_mask lower_n_halfway nth_bit
  extended_to_float is_denormal float_exponent float_mantissa from_bits f_from_u64 f_mul f_div f_neg
  (* vectors and big integers *)
  vnew try_push vpop try_extend try_from try_resize vclone vset_list
  vcompare normalize_list is_normalized scalar_add scalar_mul small_add small_add_from small_mul small_add_failed small_mul_failed
  large_add large_add_from long_mul large_mul pow5 bigint_pow shl shl_bits shl_limbs
  leading_zeros bit_length hi64 nonzero u64_to_hi64_1 u64_to_hi64_2 from_u64
  (* front end *)
  fe_simple fe_fuzz
  (* oracle *)
  RN RN_sf dec_value digits_to_Z valid_inputb sf_of_bits bits_of_sf
  (* helpers for the driver *)
  Z.add Z.mul Z.sub Z.div Z.modulo Z.pow Z.ltb Z.eqb Z.of_nat Z.to_nat u64_checked_mul u64_checked_add.
