(** Extraction of the cell-level vector model (model/RawVec.v) for the C13 correspondence:
    [ExtrOcamlBasic] only, no [Extract Constant]. *)
From Coq Require Import Extraction ExtrOcamlBasic ZArith List.
From ML Require Import base.RustSem model.Fmt model.Vec model.Bigint model.RawVec gen.Consts.
Extraction Language OCaml.
Extraction "rawmodel.ml" LIMITS release_build checked_build raw_new raw_step spec_step hi64 is_normalized.
