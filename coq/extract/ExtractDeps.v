(** Everything the extraction needs, as one make target. *)
From ML Require Import base.RustSem model.Fmt model.Mask model.Num model.Rounding model.FloatOps
  model.Number model.Parse model.Lemire model.Bellerophon model.Vec model.Bigint model.Slow
  model.Top model.FrontEnd spec.Decimal spec.Round
  gen.Consts gen.Tables gen.BTables gen.PowDump.
