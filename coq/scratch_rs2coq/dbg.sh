#!/bin/bash
# usage: dbg.sh file.v  -- compile with coqc; on failure, show goals at the failing sentence by replaying in coqtop
f=$1
timeout ${2:-600} coqc -Q /verif/coq ML -w -notation-overridden $f 2>&1 | grep -v conda
