From Coq Require Import ZArith List Bool Lia Znumtheory.
From Coq Require Import ZifyBool.
Open Scope Z_scope.
Arguments Z.pow : simpl never.
Local Opaque Z.pow.

Fixpoint first (fuel : nat) (a m l r : Z) : option Z :=
  match fuel with
  | O => Some 0
  | S n =>
    let a' := a mod m in
    if l =? 0 then Some 0
    else if a' =? 0 then None
    else let c := (l + a' - 1) / a' in
      if a' * c <=? r then Some c
      else match first n (m mod a') a' (a' * c - r) (a' * c - l) with
           | None => None
           | Some y => Some ((m * y + l + a' - 1) / a')
           end
  end.

Definition below (o : option Z) (x : Z) : Prop :=
  match o with None => False | Some c => c <= x end.

Lemma ceil_div_spec l a : 0 < a -> let c := (l + a - 1) / a in a * (c - 1) < l <= a * c.
Proof.
  intros Ha c. unfold c.
  pose proof (Z.div_mod (l + a - 1) a ltac:(lia)) as E.
  pose proof (Z.mod_pos_bound (l + a - 1) a Ha) as B.
  set (d := (l + a - 1) / a) in *. set (rr := (l + a - 1) mod a) in *. lia.
Qed.

Theorem first_sound fuel : forall a m l r x, 0 < m -> 0 <= l <= r -> r < m -> 0 <= x ->
  l <= (a * x) mod m <= r -> below (first fuel a m l r) x.
Proof.
  induction fuel as [|n IH]; intros a m l r x Hm Hlr Hrm Hx Hsol.
  - cbn [first below]. exact Hx.
  - cbn [first]. cbv zeta.
    destruct (l =? 0) eqn:El; [cbn [below]; exact Hx|].
    assert (Hl : 0 < l) by lia.
    pose proof (Z.mod_pos_bound a m Hm) as Ba.
    set (a' := a mod m) in *.
    assert (Emod : (a * x) mod m = (a' * x) mod m).
    { unfold a'. rewrite Z.mul_mod_idemp_l by lia. reflexivity. }
    rewrite Emod in Hsol.
    destruct (a' =? 0) eqn:Ea.
    { cbn [below]. assert (a' = 0) by lia. rewrite H in Hsol. rewrite Z.mul_0_l, Z.mod_0_l in Hsol by lia. lia. }
    assert (Ha : 0 < a') by lia.
    pose proof (ceil_div_spec l a' Ha) as Hc. cbv zeta in Hc.
    set (c := (l + a' - 1) / a') in *.
    pose proof (Z.div_mod (a' * x) m ltac:(lia)) as E.
    pose proof (Z.mod_pos_bound (a' * x) m Hm) as Bv.
    set (y := (a' * x) / m) in *. set (v := (a' * x) mod m) in *.
    assert (Hy : 0 <= y) by (unfold y; apply Z.div_pos; nia).
    destruct (a' * c <=? r) eqn:Ec.
    { cbn [below].
      destruct (Z_le_gt_dec c x) as [|Hlt]; [assumption|exfalso].
      assert (a' * x <= a' * (c - 1)) by (apply Z.mul_le_mono_nonneg_l; lia).
      assert (0 <= a' * x) by nia.
      assert (v = a' * x) by (unfold v; apply Z.mod_small; lia).
      lia. }
    assert (Hrc : r < a' * c) by lia.
    (* recursive condition *)
    assert (Erec : ((m mod a') * y) mod a' = a' * c - v).
    { rewrite Z.mul_mod_idemp_l by lia. symmetry.
      apply (Z.mod_unique_pos _ _ (x - c)); [lia|]. lia. }
    assert (Hrec : below (first n (m mod a') a' (a' * c - r) (a' * c - l)) y).
    { apply IH; try lia. }
    destruct (first n (m mod a') a' (a' * c - r) (a' * c - l)) as [y0|]; cbn [below] in *; [|exact Hrec].
    assert (m * y0 <= m * y) by (apply Z.mul_le_mono_nonneg_l; lia).
    assert ((m * y0 + l + a' - 1) / a' < x + 1); [|lia].
    apply Z.div_lt_upper_bound; lia.
Qed.
