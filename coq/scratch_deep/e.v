From Coq Require Import ZArith List Bool Lia.
From ML Require Import base.RustSem model.Fmt model.Num model.Number model.Lemire gen.Consts gen.Tables proofs.LemireFacts0.
From ML Require Import scratch_deep.p1.
Import ListNotations. Open Scope Z_scope.
Eval vm_compute in (map (fun q => (q, match first 300 (Thi q) (2^64) (2^64-1) (2^64-1) with Some c => if 2^63 <=? c then Some (c, compute_float TABLES F64 checked_build q c) else None | None => None end)) (zrange (-60) 30)).
