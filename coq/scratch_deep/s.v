From Coq Require Import ZArith List Bool Lia.
From ML Require Import base.RustSem model.Fmt model.Num model.Number model.Lemire gen.Consts gen.Tables proofs.LemireFacts0.
Import ListNotations. Open Scope Z_scope.
Definition D f q := pw q + EXPONENT_BIAS f.
Fixpoint first (fuel : nat) (a m l r : Z) : option Z :=
  match fuel with
  | O => Some 0
  | S n =>
    let a := a mod m in
    if l =? 0 then Some 0
    else if a =? 0 then None
    else let c := (l + a - 1) / a in
      if a * c <=? r then Some c
      else match first n (m mod a) a (a*c - r) (a*c - l) with
           | None => None
           | Some y => Some ((m*y + l + a - 1) / a)
           end
  end.
(* k mask bits *)
Definition cand (k q lz : Z) : option Z :=
  let s := 64 - lz in let m := 2 ^ (64 + k + s) in
  first 600 (T128 q) m (m - 2 ^ s) (m - 1).
Definition bad (k q lz : Z) : bool :=
  match cand k q lz with None => false | Some c => c <? 2 ^ (64 - lz) end.
Definition lzs (d : Z) := zrange (Z.max 0 (d + 1)) (64 - Z.max 0 (d + 1)).
Definition allbad f k (qs : list Z) :=
  flat_map (fun q => flat_map (fun lz => if bad k q lz then [(q, lz, cand k q lz)] else []) (lzs (D f q))) qs.
Time Eval vm_compute in allbad F64 0 (zrange (-342) 19).
Time Eval vm_compute in allbad F64 9 (zrange (-342) 19).
Time Eval vm_compute in allbad F32 0 (zrange (-65) 20).
Time Eval vm_compute in allbad F32 38 (zrange (-65) 20).
(* unrefined, lz = 0 *)
Eval vm_compute in (let q := -65 in first 600 (Thi q) (2^64) (2^64-1) (2^64-1), 2^63).
