From Coq Require Import ZArith List Bool Lia.
From ML Require Import base.RustSem model.Fmt model.Num model.Number model.Lemire gen.Consts gen.Tables proofs.LemireFacts0.
Import ListNotations. Open Scope Z_scope.
Definition D f q := pw q + EXPONENT_BIAS f.
Eval vm_compute in (SMALLEST_POWER_OF_TEN F64, LARGEST_POWER_OF_TEN F64, EXPONENT_BIAS F64, MANTISSA_SIZE F64, INVALID_FP F64).
Eval vm_compute in (SMALLEST_POWER_OF_TEN F32, LARGEST_POWER_OF_TEN F32, EXPONENT_BIAS F32, MANTISSA_SIZE F32, INVALID_FP F32).
Eval vm_compute in (filter (fun p => snd p <? 63) (map (fun q => (q, D F64 q)) (zrange (-342) 651))).
Eval vm_compute in (filter (fun p => snd p <? 63) (map (fun q => (q, D F32 q)) (zrange (-65) 104))).
Print build.
