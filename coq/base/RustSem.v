(** * RustSem: machine integers, outcomes and build modes.

    Conventions (DESIGN.md 3.2): values are [Z] with explicit ranges; an operation that Rust
    performs with `+ - * << >>` on a fixed-width type is modelled by its exact result when that
    fits, and otherwise by [Panic] in builds with overflow checks and by the wrapped value in
    builds without.  [debug_assert!] fires only in builds with debug assertions.  An *unchecked*
    operation whose side condition fails returns [UB]. *)
From Coq Require Import ZArith List Bool Lia.
Import ListNotations.
Open Scope Z_scope.

Inductive panic_kind := PkOverflow | PkAssert | PkUnwrap | PkIndex | PkFuel | PkNoDump.
Inductive ub_kind := UbIndex | UbWrite | UbUninit | UbSetLen.

Inductive outcome (A : Type) : Type :=
| Ok (a : A)
| Panic (k : panic_kind)
| UB (k : ub_kind).
Arguments Ok {A} a.
Arguments Panic {A} k.
Arguments UB {A} k.

Definition bind {A B} (x : outcome A) (f : A -> outcome B) : outcome B :=
  match x with
  | Ok a => f a
  | Panic k => Panic k
  | UB k => UB k
  end.

Declare Scope rust_scope.
Delimit Scope rust_scope with rust.
Notation "x <- e ;; f" := (bind e (fun x => f))
  (at level 61, e at next level, right associativity) : rust_scope.
Notation "' pat <- e ;; f" := (bind e (fun x => match x with pat => f end))
  (at level 61, pat pattern, e at next level, right associativity) : rust_scope.
Notation "e ;;; f" := (bind e (fun _ => f))
  (at level 61, right associativity) : rust_scope.
Open Scope rust_scope.

Definition is_ok {A} (x : outcome A) : bool := match x with Ok _ => true | _ => false end.
Definition is_ub {A} (x : outcome A) : bool := match x with UB _ => true | _ => false end.

(** Build mode: [ovf] = `-C overflow-checks`, [dbg] = `-C debug-assertions`. *)
Record build := mkBuild { ovf : bool; dbg : bool }.
Definition release_build := mkBuild false false.
Definition checked_build := mkBuild true true.

(** ** Ranges and wrapping *)
Definition in_u (n x : Z) : bool := (0 <=? x) && (x <? 2 ^ n).
Definition in_s (n x : Z) : bool := (- 2 ^ (n - 1) <=? x) && (x <? 2 ^ (n - 1)).
Definition wrapu (n x : Z) : Z := x mod 2 ^ n.
Definition wraps (n x : Z) : Z := (x + 2 ^ (n - 1)) mod 2 ^ n - 2 ^ (n - 1).

(** result of an unsigned / signed arithmetic operator whose exact value is [r] *)
Definition uop (b : build) (n r : Z) : outcome Z :=
  if in_u n r then Ok r else if ovf b then Panic PkOverflow else Ok (wrapu n r).
Definition sop (b : build) (n r : Z) : outcome Z :=
  if in_s n r then Ok r else if ovf b then Panic PkOverflow else Ok (wraps n r).

(** shifts on an [n]-bit unsigned value; the amount [k] is any integer (it is the value of an
    i32/u32/usize/u64 expression); out-of-range amounts panic with overflow checks and are
    masked without *)
Definition shl_u (b : build) (n x k : Z) : outcome Z :=
  if (0 <=? k) && (k <? n) then Ok (wrapu n (x * 2 ^ k))
  else if ovf b then Panic PkOverflow else Ok (wrapu n (x * 2 ^ (k mod n))).
Definition shr_u (b : build) (n x k : Z) : outcome Z :=
  if (0 <=? k) && (k <? n) then Ok (x / 2 ^ k)
  else if ovf b then Panic PkOverflow else Ok (x / 2 ^ (k mod n)).
(** arithmetic shift right on a signed value *)
Definition shr_s (b : build) (n x k : Z) : outcome Z :=
  if (0 <=? k) && (k <? n) then Ok (x / 2 ^ k)
  else if ovf b then Panic PkOverflow else Ok (x / 2 ^ (k mod n)).

Definition debug_assert (b : build) (c : bool) : outcome unit :=
  if dbg b && negb c then Panic PkAssert else Ok tt.

(** ** Named instances *)
Definition u64_add b x y := uop b 64 (x + y).
Definition u64_sub b x y := uop b 64 (x - y).
Definition u64_mul b x y := uop b 64 (x * y).
Definition u64_shl b x k := shl_u b 64 x k.
Definition u64_shr b x k := shr_u b 64 x k.
Definition u32_add b x y := uop b 32 (x + y).
Definition u32_shl b x k := shl_u b 32 x k.
Definition u8_sub b x y := uop b 8 (x - y).
Definition i32_add b x y := sop b 32 (x + y).
Definition i32_sub b x y := sop b 32 (x - y).
Definition i32_mul b x y := sop b 32 (x * y).
Definition i32_neg b x := sop b 32 (- x).
Definition i64_mul b x y := sop b 64 (x * y).
Definition i64_sub b x y := sop b 64 (x - y).
Definition i64_add b x y := sop b 64 (x + y).
Definition usize_add b x y := uop b 64 (x + y).
Definition usize_sub b x y := uop b 64 (x - y).

Definition i32_min := - 2 ^ 31.
Definition i32_max := 2 ^ 31 - 1.
Definition u64_max := 2 ^ 64 - 1.

Definition i32_saturating_add (x y : Z) : Z := Z.max i32_min (Z.min i32_max (x + y)).
Definition i32_saturating_sub (x y : Z) : Z := Z.max i32_min (Z.min i32_max (x - y)).
Definition u64_wrapping_add (x y : Z) : Z := wrapu 64 (x + y).
Definition u64_wrapping_sub (x y : Z) : Z := wrapu 64 (x - y).
Definition u64_wrapping_mul (x y : Z) : Z := wrapu 64 (x * y).
Definition i32_wrapping_mul (x y : Z) : Z := wraps 32 (x * y).
Definition usize_wrapping_sub (x y : Z) : Z := wrapu 64 (x - y).
Definition usize_saturating_sub (x y : Z) : Z := Z.max 0 (x - y).
Definition u64_checked_mul (x y : Z) : option Z := if x * y <? 2 ^ 64 then Some (x * y) else None.
Definition u64_checked_add (x y : Z) : option Z := if x + y <? 2 ^ 64 then Some (x + y) else None.
Definition u64_overflowing_mul (x y : Z) : Z * bool := (wrapu 64 (x * y), 2 ^ 64 <=? x * y).
Definition u64_overflowing_add (x y : Z) : Z * bool := (wrapu 64 (x + y), 2 ^ 64 <=? x + y).
Definition i32_checked_mul (x y : Z) : option Z := if in_s 32 (x * y) then Some (x * y) else None.
Definition i32_checked_add (x y : Z) : option Z := if in_s 32 (x + y) then Some (x + y) else None.
Definition i32_checked_sub (x y : Z) : option Z := if in_s 32 (x - y) then Some (x - y) else None.

(** casts (`as`) never panic *)
Definition as_u64 (x : Z) := wrapu 64 x.
Definition as_u32 (x : Z) := wrapu 32 x.
Definition as_u16 (x : Z) := wrapu 16 x.
Definition as_u8 (x : Z) := wrapu 8 x.
Definition as_i32 (x : Z) := wraps 32 x.
Definition as_i64 (x : Z) := wraps 64 x.
Definition as_usize (x : Z) := wrapu 64 x.

(** bit length and leading zeros *)
Definition bitlen (x : Z) : Z := if x <=? 0 then 0 else Z.log2 x + 1.
Definition lz64 (x : Z) : Z := 64 - bitlen x.

(** bit operations on non-negative values *)
Definition u64_not (x : Z) : Z := 2 ^ 64 - 1 - x.

(** [unwrap] on an Option *)
Definition unwrap {A} (o : option A) : outcome A :=
  match o with Some a => Ok a | None => Panic PkUnwrap end.

(** table access: checked indexing panics, unchecked indexing is UB, out of range *)
Definition index_checked (l : list Z) (i : Z) : outcome Z :=
  if (0 <=? i) && (i <? Z.of_nat (length l)) then Ok (nth (Z.to_nat i) l 0) else Panic PkIndex.
Definition index_unchecked (l : list Z) (i : Z) : outcome Z :=
  if (0 <=? i) && (i <? Z.of_nat (length l)) then Ok (nth (Z.to_nat i) l 0) else UB UbIndex.
Definition index_checked2 (l : list (Z * Z)) (i : Z) : outcome (Z * Z) :=
  if (0 <=? i) && (i <? Z.of_nat (length l)) then Ok (nth (Z.to_nat i) l (0, 0)) else Panic PkIndex.

Definition zlen {A} (l : list A) : Z := Z.of_nat (length l).
