(** * EndToEnd: what is proved of [parse_float] as a whole, by composing the stage theorems.
    [parse_float_fast_correct]: for every valid input that the first stage folds into a Number on
    which the fast path applies (at most 19 significant digits, significand <= 2^prec, exponent in
    the fast / disguised-fast range), in every shipped configuration and both build modes,
    parse_float returns exactly the correctly rounded value RN (dec_value ...).  No premise beyond
    the input domain. *)
From Coq Require Import ZArith QArith List Bool Lia.
From ML Require Import base.RustSem model.Fmt model.Num model.Number model.Parse model.Top
  spec.Decimal spec.Round spec.RoundFacts gen.Consts gen.Tables gen.BTables gen.PowDump
  proofs.ParseFacts proofs.FastPathFacts.
Import ListNotations.
Open Scope Z_scope.

Lemma dec_value_nonneg : forall i f e, valid_inputb i f e = true -> (0 <= dec_value i f e)%Q.
Proof.
  intros i f e V. destruct (valid_input_inv _ _ _ V) as (Hi & Hf & _).
  unfold dec_value. apply Qmult_le_0_compat.
  - change 0%Q with (inject_Z 0). rewrite <- Zle_Qle.
    assert (H : forallb digitb (i ++ f) = true) by (rewrite forallb_app, Hi, Hf; reflexivity).
    pose proof (digits_bound (i ++ f) H). lia.
  - apply Qlt_le_weak. apply ParseFacts.pow10Q_pos.
Qed.

Theorem parse_float_fast_correct : forall c f b BT L i fr e,
  In c ALL_CONFIGS -> f = F32 \/ f = F64 ->
  valid_inputb i fr e = true ->
  fast_path_applies f (parse_spec i fr e) = true ->
  parse_float c TABLES BT L f b i fr e = Ok (RN f (dec_value i fr e)).
Proof.
  intros c f b BT L i fr e Hc Hf V Hfast.
  pose proof (fast_ok_shipped c f Hc Hf) as Hok.
  assert (Hs : sfmt_ok f = true) by (destruct Hf; subst; [exact sfmt_ok_F32|exact sfmt_ok_F64]).
  unfold parse_float. rewrite (parse_number_exact b i fr e V). cbn [bind].
  destruct (parse_number_spec b i fr e V) as (n & Hn & Hm & He & _).
  assert (Hnn : n = parse_spec i fr e) by (rewrite (parse_number_exact b i fr e V) in Hn; congruence). subst n. clear Hn.
  rewrite (try_fast_path_eq c TABLES f b Hok (parse_spec i fr e)) by (unfold i32_min, i32_max in He; lia).
  rewrite Hfast. cbn [bind]. f_equal.
  (* the Number denotes the exact value *)
  unfold fast_path_applies in Hfast. apply andb_prop in Hfast. destruct Hfast as [Hif _].
  assert (Hb : MIN_EXPONENT_FAST_PATH f <= nexp (parse_spec i fr e) <= MAX_EXPONENT_DISGUISED_FAST_PATH f
               /\ many (parse_spec i fr e) = false).
  { unfold is_fast_path in Hif.
    apply andb_prop in Hif. destruct Hif as [Hif Hmn].
    apply andb_prop in Hif. destruct Hif as [Hif _].
    apply andb_prop in Hif. destruct Hif as [Hlo Hhi].
    apply Z.leb_le in Hlo. apply Z.leb_le in Hhi. split; [lia|].
    destruct (many (parse_spec i fr e)); [discriminate|reflexivity]. }
  destruct Hb as [Hb Hmany].
  assert (Hlim : i32_min < MIN_EXPONENT_FAST_PATH f /\ MAX_EXPONENT_DISGUISED_FAST_PATH f < i32_max)
    by (destruct Hf; subst f; vm_compute; split; reflexivity).
  destruct (parse_number_value_bracket b i fr e (parse_spec i fr e) V (parse_number_exact b i fr e V)) as [Hex _].
  destruct (Hex Hmany) as [Hval Hexp].
  assert (HX : nexp (parse_spec i fr e) = e - zlen fr).
  { destruct (clamp_i32_cases (e - zlen fr)) as [[_ Hc1]|[[_ Hc1]|[_ Hc1]]]; rewrite Hc1 in Hexp.
    - exfalso. lia.
    - exact Hexp.
    - exfalso. lia. }
  rewrite HX. symmetry. apply (RN_Qeq f Hs); [apply dec_value_nonneg; exact V|exact Hval].
Qed.

(** non-vacuity: "123.456e5" (f64) and "16777216e-10" (f32) satisfy the hypotheses *)
Example fast_ex1 : valid_inputb [49;50;51] [52;53;54] 5 = true /\
  fast_path_applies F64 (parse_spec [49;50;51] [52;53;54] 5) = true.
Proof. vm_compute. split; reflexivity. Qed.
Example fast_ex2 : valid_inputb [49;54;55;55;55;50;49;54] [] (-10) = true /\
  fast_path_applies F32 (parse_spec [49;54;55;55;55;50;49;54] [] (-10)) = true.
Proof. vm_compute. split; reflexivity. Qed.

(** ** Corollaries for the fast-path class, in the shape of the other end-to-end properties *)

(** the inputs the fast path decides *)
Definition fast_class (f : format) (i fr : list Z) (e : Z) : Prop :=
  valid_inputb i fr e = true /\ fast_path_applies f (parse_spec i fr e) = true.

(** C04 (this class): never a panic, in either build mode *)
Corollary fast_class_no_panic : forall c f b BT L i fr e,
  In c ALL_CONFIGS -> f = F32 \/ f = F64 -> fast_class f i fr e ->
  exists bits, parse_float c TABLES BT L f b i fr e = Ok bits.
Proof. intros c f b BT L i fr e Hc Hf [V A]. eexists. apply parse_float_fast_correct; assumption. Qed.

(** C05 (this class): configuration and build mode do not matter *)
Corollary fast_class_config_independent : forall c1 c2 f b1 b2 BT1 BT2 L1 L2 i fr e,
  In c1 ALL_CONFIGS -> In c2 ALL_CONFIGS -> f = F32 \/ f = F64 -> fast_class f i fr e ->
  parse_float c1 TABLES BT1 L1 f b1 i fr e = parse_float c2 TABLES BT2 L2 f b2 i fr e.
Proof.
  intros c1 c2 f b1 b2 BT1 BT2 L1 L2 i fr e H1 H2 Hf [V A].
  rewrite (parse_float_fast_correct c1 f b1 BT1 L1 i fr e H1 Hf V A).
  rewrite (parse_float_fast_correct c2 f b2 BT2 L2 i fr e H2 Hf V A). reflexivity.
Qed.

(** C09 (this class): monotone in the decimal value *)
Corollary fast_class_monotone : forall c f b BT L i1 f1 e1 i2 f2 e2 r1 r2,
  In c ALL_CONFIGS -> f = F32 \/ f = F64 -> fast_class f i1 f1 e1 -> fast_class f i2 f2 e2 ->
  (dec_value i1 f1 e1 <= dec_value i2 f2 e2)%Q ->
  parse_float c TABLES BT L f b i1 f1 e1 = Ok r1 -> parse_float c TABLES BT L f b i2 f2 e2 = Ok r2 ->
  r1 <= r2.
Proof.
  intros c f b BT L i1 f1 e1 i2 f2 e2 r1 r2 Hc Hf [V1 A1] [V2 A2] Hle P1 P2.
  rewrite (parse_float_fast_correct c f b BT L i1 f1 e1 Hc Hf V1 A1) in P1.
  rewrite (parse_float_fast_correct c f b BT L i2 f2 e2 Hc Hf V2 A2) in P2.
  injection P1 as <-. injection P2 as <-.
  assert (Hs : sfmt_ok f = true) by (destruct Hf; subst; [exact sfmt_ok_F32|exact sfmt_ok_F64]).
  apply (RN_monotone f Hs); [apply dec_value_nonneg; exact V1|exact Hle].
Qed.

(** C10 (this class): equal values, identical bits *)
Corollary fast_class_value_invariant : forall c f b BT L i1 f1 e1 i2 f2 e2,
  In c ALL_CONFIGS -> f = F32 \/ f = F64 -> fast_class f i1 f1 e1 -> fast_class f i2 f2 e2 ->
  (dec_value i1 f1 e1 == dec_value i2 f2 e2)%Q ->
  parse_float c TABLES BT L f b i1 f1 e1 = parse_float c TABLES BT L f b i2 f2 e2.
Proof.
  intros c f b BT L i1 f1 e1 i2 f2 e2 Hc Hf [V1 A1] [V2 A2] Heq.
  rewrite (parse_float_fast_correct c f b BT L i1 f1 e1 Hc Hf V1 A1).
  rewrite (parse_float_fast_correct c f b BT L i2 f2 e2 Hc Hf V2 A2). f_equal.
  assert (Hs : sfmt_ok f = true) by (destruct Hf; subst; [exact sfmt_ok_F32|exact sfmt_ok_F64]).
  apply (RN_Qeq f Hs); [apply dec_value_nonneg; exact V1|exact Heq].
Qed.

(** C03 (this class): a rendering whose value is exactly the float x parses back to x *)
Corollary fast_class_roundtrip_exact : forall c f b BT L i fr e x,
  In c ALL_CONFIGS -> f = F32 \/ f = F64 -> fast_class f i fr e ->
  0 <= x < RoundFacts.inf_bits f -> (dec_value i fr e == value_Q f x)%Q ->
  parse_float c TABLES BT L f b i fr e = Ok x.
Proof.
  intros c f b BT L i fr e x Hc Hf [V A] Hx Heq.
  rewrite (parse_float_fast_correct c f b BT L i fr e Hc Hf V A). f_equal.
  assert (Hs : sfmt_ok f = true) by (destruct Hf; subst; [exact sfmt_ok_F32|exact sfmt_ok_F64]).
  rewrite (RN_Qeq f Hs _ _ (dec_value_nonneg _ _ _ V) Heq). apply (RN_fixpoint f Hs); exact Hx.
Qed.
