(** * BellFacts1: the meaning of [error_is_accurate] at the level of integers (Stage B).

    [error_is_accurate errors fp = true] says that the low [s] bits of the 64-bit significand
    (the bits [round] will cut) are at least [errors] away from the halfway pattern [2^(s-1)];
    hence every significand in the band around it lies strictly inside the same rounding cell,
    and [round] returns the same fields for all of them ([accurate_band]), including across a
    binade boundary (the two "corner" cases, where the neighbour has to be re-normalised). *)
From Coq Require Import ZArith List Bool Lia Znumtheory.
From Coq Require Import ZifyBool.
From ML Require Import base.RustSem model.Fmt model.Mask model.Num model.Number model.Rounding
  model.Bellerophon gen.Consts proofs.RoundingFactsZ.
Ltac Zify.zify_post_hook ::= Z.div_mod_to_equations.
Open Scope Z_scope.
Local Arguments Z.pow : simpl never.

(** the number of bits [round] cuts from a 64-bit significand with biased exponent [e] *)
Definition bshift (f : format) (e : Z) : Z :=
  if e <=? - (63 - MANTISSA_SIZE f) then 1 - e else 63 - MANTISSA_SIZE f.

(** ** rounding cells of [rnd_ne] *)
Lemma rnd_ne_cell s R y : 1 <= s ->
  (2 * R - 1) * 2 ^ (s - 1) < y < (2 * R + 1) * 2 ^ (s - 1) -> rnd_ne y s = R.
Proof.
  intros Hs Hy. unfold rnd_ne. cbv zeta.
  pose proof (pow2_pred s Hs) as HP. pose proof (pow2_pos (s - 1) ltac:(lia)) as Hh.
  set (h := 2 ^ (s - 1)) in *. rewrite HP.
  pose proof (Z.div_mod y (2 * h) ltac:(lia)) as Ey.
  pose proof (Z.mod_pos_bound y (2 * h) ltac:(lia)) as Br.
  set (q := y / (2 * h)) in *. set (r := y mod (2 * h)) in *. clearbody q r.
  destruct ((2 * r >? 2 * h) || ((2 * r =? 2 * h) && Z.odd q)) eqn:E.
  - assert (Hr : h <= r) by lia.
    assert (R <= q + 1) by nia. assert (q + 1 <= R) by nia. lia.
  - assert (Hr : r <= h) by lia.
    assert (R <= q) by nia. assert (q <= R) by nia. lia.
Qed.

(** the closed cell of the result *)
Lemma rnd_ne_closed_cell s M : 1 <= s ->
  let R := rnd_ne M s in
  (2 * R - 1) * 2 ^ (s - 1) <= M <= (2 * R + 1) * 2 ^ (s - 1).
Proof.
  intros Hs. unfold rnd_ne. cbv zeta.
  pose proof (pow2_pred s Hs) as HP. pose proof (pow2_pos (s - 1) ltac:(lia)) as Hh.
  set (h := 2 ^ (s - 1)) in *. rewrite HP.
  pose proof (Z.div_mod M (2 * h) ltac:(lia)) as Ey.
  pose proof (Z.mod_pos_bound M (2 * h) ltac:(lia)) as Br.
  set (q := M / (2 * h)) in *. set (r := M mod (2 * h)) in *. clearbody q r.
  destruct ((2 * r >? 2 * h) || ((2 * r =? 2 * h) && Z.odd q)) eqn:E.
  - assert (Hr : h <= r) by lia. nia.
  - assert (Hr : r <= h) by lia. nia.
Qed.

Lemma rnd_ne_double y s : 0 <= s -> rnd_ne (2 * y) (s + 1) = rnd_ne y s.
Proof.
  intros Hs. unfold rnd_ne. cbv zeta. rewrite pow2_succ by lia.
  pose proof (pow2_pos s Hs) as HP. set (P := 2 ^ s) in *.
  rewrite Z.div_mul_cancel_l by lia. rewrite Z.mul_mod_distr_l by lia.
  set (q := y / P). set (r := y mod P).
  replace (2 * (2 * r) >? 2 * P) with (2 * r >? P) by lia.
  replace (2 * (2 * r) =? 2 * P) with (2 * r =? P) by lia. reflexivity.
Qed.

(** a significand within half a cell of a power of two rounds to that power *)
Lemma rnd_ne_near_pow y k t : 1 <= t <= k ->
  2 ^ k - 2 ^ (t - 1) < y < 2 ^ k + 2 ^ (t - 1) -> rnd_ne y t = 2 ^ (k - t).
Proof.
  intros Ht Hy. apply rnd_ne_cell; [lia|].
  assert (E : 2 ^ k = 2 * 2 ^ (k - t) * 2 ^ (t - 1)).
  { rewrite <- Z.mul_assoc, <- pow2_split by lia. rewrite <- pow2_succ by lia. f_equal. lia. }
  pose proof (pow2_pos (t - 1) ltac:(lia)). lia.
Qed.

(** ** [error_is_accurate] *)
Definition acc (f : format) (errors M e : Z) : bool :=
  let s := bshift f e in
  if 64 <? s then M + errors <? 2 ^ 64
  else negb ((2 ^ (s - 1) <? M mod 2 ^ s + errors) && (M mod 2 ^ s <? 2 ^ (s - 1) + errors)).

Theorem error_is_accurate_ok f b errors M e :
  rfmt_ok f = true -> 0 <= M < 2 ^ 64 -> 0 <= errors < 2 ^ 32 -> - 64 <= e <= 2 ^ 30 ->
  error_is_accurate f b errors (mkExt M e) = Ok (acc f errors M e).
Proof.
  intros Hf HM Herr He.
  destruct (rfmt_ok_props f Hf) as [Pms _ _ _ _ _ _ _ _ _ _].
  assert (H30 : 2 ^ 30 = 1073741824) by reflexivity.
  assert (H31 : 2 ^ 31 = 2147483648) by reflexivity.
  assert (H32 : 2 ^ 32 = 4294967296) by reflexivity.
  assert (H63 : 2 ^ 63 = 9223372036854775808) by reflexivity.
  assert (H64 : 2 ^ 64 = 18446744073709551616) by reflexivity.
  unfold error_is_accurate, acc, bshift. cbn [mant exp].
  rewrite debug_assert_true by lia. cbn [bind].
  set (ms := MANTISSA_SIZE f) in *.
  replace (64 - ms - 1) with (63 - ms) by lia.
  set (s := if e <=? - (63 - ms) then 1 - e else 63 - ms).
  assert (Hs : 2 <= s <= 65) by (unfold s; destruct (e <=? - (63 - ms)) eqn:E; lia).
  assert (Hext : (if e <=? - (63 - ms) then i32_sub b 1 e else Ok (63 - ms)) = Ok s).
  { unfold s. destruct (e <=? - (63 - ms)) eqn:E; [|reflexivity].
    unfold i32_sub. apply sop32_ok. lia. }
  rewrite Hext. cbn [bind]. clearbody s.
  destruct (64 <? s) eqn:E64.
  - unfold u64_overflowing_add. cbn [snd]. f_equal. lia.
  - rewrite as_u64_small by lia.
    rewrite lower_n_mask_ok by lia. cbn [bind].
    rewrite lower_n_halfway_ok by lia. cbn [bind].
    replace (s =? 0) with false by lia.
    rewrite land_mask by lia.
    pose proof (pow2_pos s ltac:(lia)) as HP.
    pose proof (pow2_le (s - 1) 63 ltac:(lia)) as Hh.
    pose proof (pow2_pos (s - 1) ltac:(lia)) as Hh0.
    pose proof (Z.mod_pos_bound M (2 ^ s) HP) as Bx.
    set (extra := M mod 2 ^ s) in *. set (h := 2 ^ (s - 1)) in *. clearbody extra h.
    unfold u64_wrapping_add, wrapu, u64_max. rewrite (Z.mod_small (h + errors)) by lia.
    f_equal. f_equal. f_equal. lia.
Qed.

(** the band: with [R] the rounded significand, both ends are strictly inside the cell of [R] *)
Lemma acc_cell f errors dlo M e :
  1 <= bshift f e <= 64 -> 0 <= M -> 1 <= dlo < errors ->
  acc f errors M e = true ->
  let s := bshift f e in let R := rnd_ne M s in
  (2 * R - 1) * 2 ^ (s - 1) < M - dlo /\ M + errors <= (2 * R + 1) * 2 ^ (s - 1).
Proof.
  intros Hs HM Hd Hacc. cbv zeta. unfold acc in Hacc. cbv zeta in Hacc.
  set (s := bshift f e) in *. replace (64 <? s) with false in Hacc by lia.
  unfold rnd_ne. cbv zeta.
  pose proof (pow2_pred s ltac:(lia)) as HP. pose proof (pow2_pos (s - 1) ltac:(lia)) as Hh.
  set (h := 2 ^ (s - 1)) in *. rewrite HP in *.
  pose proof (Z.div_mod M (2 * h) ltac:(lia)) as Ey.
  pose proof (Z.mod_pos_bound M (2 * h) ltac:(lia)) as Br.
  set (q := M / (2 * h)) in *. set (r := M mod (2 * h)) in *. clearbody q r h.
  assert (Hcase : r + errors <= h \/ h + errors <= r) by lia. clear Hacc.
  destruct Hcase as [Hc|Hc].
  - replace ((2 * r >? 2 * h) || ((2 * r =? 2 * h) && Z.odd q)) with false by lia. nia.
  - replace ((2 * r >? 2 * h) || ((2 * r =? 2 * h) && Z.odd q)) with true by lia. nia.
Qed.

(** ** the fields returned by [round], packed, as a function of significand and exponent *)
Definition res (f : format) (m e : Z) : Z := pack_fields f (round_spec f (rnd_ne m) e).

Lemma round_spec_ext f g g' e : g (bshift f e) = g' (bshift f e) -> round_spec f g e = round_spec f g' e.
Proof.
  unfold round_spec, bshift. cbv zeta. intros H.
  destruct (e <=? - (63 - MANTISSA_SIZE f)); rewrite H; reflexivity.
Qed.

Lemma res_same f m1 m2 e : rnd_ne m1 (bshift f e) = rnd_ne m2 (bshift f e) -> res f m1 e = res f m2 e.
Proof. intros H. unfold res. f_equal. apply round_spec_ext. exact H. Qed.

(** upper corner: the band reaches [2^64]; its end is re-normalised with exponent [e + 1] *)
Lemma res_upper_corner f M e hi2 :
  rfmt_ok f = true -> - 63 <= e -> bshift f e <= 64 ->
  rnd_ne M (bshift f e) * 2 ^ bshift f e = 2 ^ 64 ->
  2 ^ 63 <= hi2 -> 2 * hi2 < 2 ^ 64 + 2 ^ (bshift f e - 1) ->
  res f hi2 (e + 1) = res f M e.
Proof.
  intros Hf He Hs HR Hlo Hhi.
  destruct (rfmt_ok_props f Hf) as [Pms Pew _ _ _ _ Pinf _ _ _ _].
  assert (Hinf : 3 <= INFINITE_POWER f).
  { rewrite Pinf. pose proof (pow2_le 2 (ewidth f) ltac:(lia)) as H. change (2 ^ 2) with 4 in H. lia. }
  unfold res, round_spec, bshift in *. cbv zeta.
  set (ms := MANTISSA_SIZE f) in *. set (sh := 63 - ms) in *.
  pose proof (pow2_pos ms ltac:(lia)) as Hpms.
  destruct (e <=? - sh) eqn:E1.
  - (* [M] is rounded at the subnormal shift [s = 1 - e] *)
    set (s := 1 - e) in *.
    assert (HRv : rnd_ne M s = 2 ^ (64 - s)).
    { pose proof (pow2_pos s ltac:(lia)) as HP.
      assert (E64 : 2 ^ 64 = 2 ^ (64 - s) * 2 ^ s) by (rewrite <- pow2_split by lia; f_equal; lia).
      rewrite E64 in HR. apply Z.mul_cancel_r in HR; lia. }
    assert (Hhi2 : 2 ^ 63 - 2 ^ (s - 2) < hi2 < 2 ^ 63 + 2 ^ (s - 2)).
    { pose proof (pow2_pos (s - 2) ltac:(lia)) as Hq.
      pose proof (pow2_pred (s - 1) ltac:(lia)) as Hh. replace (s - 1 - 1) with (s - 2) in Hh by lia.
      change (2 ^ 64) with (2 * 2 ^ 63) in Hhi. lia. }
    destruct (e + 1 <=? - sh) eqn:E2.
    + replace (1 - (e + 1)) with (s - 1) by lia.
      rewrite (rnd_ne_near_pow hi2 63 (s - 1)) by (replace (s - 1 - 1) with (s - 2) by lia; lia).
      rewrite HRv. replace (63 - (s - 1)) with (64 - s) by lia. reflexivity.
    + assert (Es : s = sh + 1) by lia.
      rewrite (rnd_ne_near_pow hi2 63 sh) by (replace (sh - 1) with (s - 2) by lia; lia).
      rewrite HRv. replace (63 - sh) with ms by lia. replace (64 - s) with ms by lia.
      pose proof (pow2_succ ms ltac:(lia)) as Hsucc.
      replace (2 ^ ms =? 2 ^ (ms + 1)) with false by lia. cbv iota.
      replace (2 ^ ms <=? 2 ^ ms) with true by lia.
      replace (INFINITE_POWER f <=? e + 1 + sh) with false by lia.
      unfold pack_fields. cbn [mant exp]. fold ms.
      replace (2 ^ ms - 2 ^ ms) with 0 by lia. replace (e + 1 + sh) with 1 by lia.
      rewrite Z.mul_1_l, Z.lor_0_l, Z.lor_diag. reflexivity.
  - (* normal shift on both sides *)
    replace (e + 1 <=? - sh) with false by lia.
    assert (HRv : rnd_ne M sh = 2 ^ (ms + 1)).
    { pose proof (pow2_pos sh ltac:(lia)) as HP.
      assert (E64 : 2 ^ 64 = 2 ^ (ms + 1) * 2 ^ sh) by (rewrite <- pow2_split by lia; f_equal; lia).
      rewrite E64 in HR. apply Z.mul_cancel_r in HR; lia. }
    assert (Hhi2 : 2 ^ 63 - 2 ^ (sh - 1) < hi2 < 2 ^ 63 + 2 ^ (sh - 1)).
    { pose proof (pow2_pos (sh - 1) ltac:(lia)) as Hq.
      change (2 ^ 64) with (2 * 2 ^ 63) in Hhi. lia. }
    rewrite (rnd_ne_near_pow hi2 63 sh) by lia. rewrite HRv.
    replace (63 - sh) with ms by lia.
    pose proof (pow2_succ ms ltac:(lia)) as Hsucc.
    replace (2 ^ ms =? 2 ^ (ms + 1)) with false by lia.
    replace (2 ^ (ms + 1) =? 2 ^ (ms + 1)) with true by lia. cbv iota.
    replace (e + 1 + sh) with (e + sh + 1) by lia. reflexivity.
Qed.

(** lower corner: the band reaches below [2^63]; its end is re-normalised with exponent [e - 1].
    Here the cell below the binade boundary is half as wide, whence the quarter-cell condition. *)
Lemma res_lower_corner f M e lo :
  rfmt_ok f = true -> - 62 <= e -> bshift f e <= 63 ->
  rnd_ne M (bshift f e) * 2 ^ bshift f e = 2 ^ 63 ->
  lo < 2 ^ 63 -> 4 * (2 ^ 63 - lo) < 2 ^ (63 - MANTISSA_SIZE f) ->
  res f (2 * lo) (e - 1) = res f M e.
Proof.
  intros Hf He Hs HR Hlo Hq.
  destruct (rfmt_ok_props f Hf) as [Pms Pew _ _ _ _ Pinf _ _ _ _].
  assert (Hinf : 3 <= INFINITE_POWER f).
  { rewrite Pinf. pose proof (pow2_le 2 (ewidth f) ltac:(lia)) as H. change (2 ^ 2) with 4 in H. lia. }
  unfold res, round_spec, bshift in *. cbv zeta.
  set (ms := MANTISSA_SIZE f) in *. set (sh := 63 - ms) in *.
  pose proof (pow2_pos ms ltac:(lia)) as Hpms.
  pose proof (pow2_succ ms ltac:(lia)) as Hsucc.
  pose proof (pow2_pred sh ltac:(lia)) as Hsh1. pose proof (pow2_pred (sh - 1) ltac:(lia)) as Hsh2.
  replace (sh - 1 - 1) with (sh - 2) in Hsh2 by lia.
  pose proof (pow2_pos (sh - 2) ltac:(lia)) as Hsh0.
  destruct (e <=? - sh) eqn:E1.
  - (* subnormal shift on both sides: the same cut *)
    replace (e - 1 <=? - sh) with true by lia.
    replace (1 - (e - 1)) with ((1 - e) + 1) by lia. rewrite rnd_ne_double by lia.
    set (s := 1 - e) in *.
    assert (HRv : rnd_ne M s = 2 ^ (63 - s)).
    { pose proof (pow2_pos s ltac:(lia)) as HP.
      assert (E63 : 2 ^ 63 = 2 ^ (63 - s) * 2 ^ s) by (rewrite <- pow2_split by lia; f_equal; lia).
      rewrite E63 in HR. apply Z.mul_cancel_r in HR; lia. }
    rewrite HRv.
    rewrite (rnd_ne_near_pow lo 63 s); [reflexivity|lia|].
    pose proof (pow2_le (sh - 1) (s - 1) ltac:(lia)). lia.
  - assert (HRv : rnd_ne M sh = 2 ^ ms).
    { pose proof (pow2_pos sh ltac:(lia)) as HP.
      assert (E63 : 2 ^ 63 = 2 ^ ms * 2 ^ sh) by (rewrite <- pow2_split by lia; f_equal; lia).
      rewrite E63 in HR. apply Z.mul_cancel_r in HR; lia. }
    rewrite HRv.
    replace (2 ^ ms =? 2 ^ (ms + 1)) with false by lia. cbv iota.
    destruct (e - 1 <=? - sh) eqn:E2.
    + (* the neighbour is rounded at the first subnormal shift *)
      replace (1 - (e - 1)) with (sh + 1) by lia. rewrite rnd_ne_double by lia.
      rewrite (rnd_ne_near_pow lo 63 sh) by lia.
      replace (63 - sh) with ms by lia.
      replace (2 ^ ms <=? 2 ^ ms) with true by lia.
      replace (INFINITE_POWER f <=? e + sh) with false by lia.
      unfold pack_fields. cbn [mant exp]. fold ms.
      replace (2 ^ ms - 2 ^ ms) with 0 by lia. replace (e + sh) with 1 by lia.
      rewrite Z.mul_1_l, Z.lor_0_l, Z.lor_diag. reflexivity.
    + rewrite (rnd_ne_near_pow (2 * lo) 64 sh) by (change (2 ^ 64) with (2 * 2 ^ 63); lia).
      replace (64 - sh) with (ms + 1) by lia.
      replace (2 ^ (ms + 1) =? 2 ^ (ms + 1)) with true by lia. cbv iota.
      replace (e - 1 + sh + 1) with (e + sh) by lia. reflexivity.
Qed.

(** ** the band theorem: all four ways an end of the band can sit *)
Theorem accurate_band f errors dlo M e :
  rfmt_ok f = true -> 2 ^ 63 <= M < 2 ^ 64 -> - 63 <= e ->
  1 <= dlo < errors -> 4 * dlo < 2 ^ (63 - MANTISSA_SIZE f) ->
  acc f errors M e = true ->
  let lo := M - dlo in let hi := M + errors - 2 in
  (2 ^ 63 <= lo -> res f lo e = res f M e) /\
  (lo < 2 ^ 63 -> - 62 <= e /\ 2 ^ 62 <= lo /\ res f (2 * lo) (e - 1) = res f M e) /\
  (hi < 2 ^ 64 -> res f hi e = res f M e) /\
  (2 ^ 64 <= hi -> 2 ^ 63 <= (hi + 1) / 2 < 2 ^ 64 /\ res f ((hi + 1) / 2) (e + 1) = res f M e).
Proof.
  intros Hf HM He Hd Hq Hacc. cbv zeta.
  destruct (rfmt_ok_props f Hf) as [Pms _ _ _ _ _ _ _ _ _ _].
  assert (Hs : 2 <= bshift f e <= 64).
  { unfold bshift. destruct (e <=? - (63 - MANTISSA_SIZE f)) eqn:E; lia. }
  assert (Hssh : 63 - MANTISSA_SIZE f <= bshift f e).
  { unfold bshift. destruct (e <=? - (63 - MANTISSA_SIZE f)) eqn:E; lia. }
  assert (He62 : bshift f e <> 64 -> - 62 <= e).
  { unfold bshift. destruct (e <=? - (63 - MANTISSA_SIZE f)) eqn:E; lia. }
  pose proof (acc_cell f errors dlo M e ltac:(lia) ltac:(lia) Hd Hacc) as Hcell. cbv zeta in Hcell.
  set (s := bshift f e) in *. set (R := rnd_ne M s) in *.
  pose proof (pow2_pred s ltac:(lia)) as HP. pose proof (pow2_pos (s - 1) ltac:(lia)) as Hh.
  pose proof (pow2_le (63 - MANTISSA_SIZE f) s ltac:(lia)) as Hshs.
  destruct Hcell as [Hc1 Hc2].
  assert (H6364 : 2 ^ 64 = 2 * 2 ^ 63) by reflexivity.
  assert (H6263 : 2 ^ 63 = 2 * 2 ^ 62) by reflexivity.
  assert (P62 : 0 < 2 ^ 62) by (vm_compute; reflexivity).
  repeat split.
  - intros Hlo. apply res_same. fold s. apply rnd_ne_cell; lia.
  - (* s = 64 would make the cell of R contain 2^63 as its upper tie point *)
    destruct (Z.eq_dec s 64) as [E64|NE64]; [|exact (He62 NE64)].
    exfalso. rewrite E64 in *. change (2 ^ (64 - 1)) with (2 ^ 63) in *.
    assert (R <= 0) by nia. assert (1 <= R) by nia. lia.
  - pose proof (pow2_le (63 - MANTISSA_SIZE f) 62 ltac:(lia)). lia.
  - destruct (Z.eq_dec s 64) as [E64|NE64].
    { exfalso. rewrite E64 in *. change (2 ^ (64 - 1)) with (2 ^ 63) in *.
      assert (R <= 0) by nia. assert (1 <= R) by nia. lia. }
    specialize (He62 NE64).
    apply res_lower_corner; try assumption; fold s; try lia.
    fold R.
    assert (E63 : 2 ^ 63 = 2 ^ (63 - s) * 2 ^ s) by (rewrite <- pow2_split by lia; f_equal; lia).
    pose proof (pow2_pos (63 - s) ltac:(lia)) as Hp.
    rewrite E63, HP in *. set (h := 2 ^ (s - 1)) in *. set (c := 2 ^ (63 - s)) in *.
    assert (R <= c) by nia. assert (c <= R) by nia. replace R with c by lia. reflexivity.
  - intros Hhi. apply res_same. fold s. apply rnd_ne_cell; lia.
  - apply Z.div_le_lower_bound; lia.
  - apply Z.div_lt_upper_bound; [lia|].
    assert (E64 : 2 ^ 64 = 2 ^ (64 - s) * 2 ^ s) by (rewrite <- pow2_split by lia; f_equal; lia).
    pose proof (pow2_pos (64 - s) ltac:(lia)) as Hp.
    rewrite HP in E64. set (h := 2 ^ (s - 1)) in *. set (c := 2 ^ (64 - s)) in *.
    assert (R <= c) by nia. nia.
  - assert (E64 : 2 ^ 64 = 2 ^ (64 - s) * 2 ^ s) by (rewrite <- pow2_split by lia; f_equal; lia).
    pose proof (pow2_pos (64 - s) ltac:(lia)) as Hp.
    assert (G1 : rnd_ne M (bshift f e) * 2 ^ bshift f e = 2 ^ 64).
    { fold s. fold R. rewrite E64, HP in *. set (h := 2 ^ (s - 1)) in *. set (c := 2 ^ (64 - s)) in *.
      assert (R <= c) by nia. assert (c <= R) by nia. replace R with c by lia. reflexivity. }
    assert (G2 : 2 ^ 63 <= (M + errors - 2 + 1) / 2) by (apply Z.div_le_lower_bound; lia).
    assert (G3 : 2 * ((M + errors - 2 + 1) / 2) < 2 ^ 64 + 2 ^ (bshift f e - 1)).
    { fold s. pose proof (Z.mul_div_le (M + errors - 2 + 1) 2 ltac:(lia)) as Hdiv.
      set (d := (M + errors - 2 + 1) / 2) in *. clearbody d.
      rewrite E64, HP in *. set (h := 2 ^ (s - 1)) in *. set (c := 2 ^ (64 - s)) in *.
      assert (R <= c) by nia. nia. }
    apply res_upper_corner; try assumption. fold s. lia.
Qed.

Example acc_ex : acc F64 18 (2 ^ 63 + 1000) 100 = true /\ acc F64 36 (2 ^ 63 + 1000) 100 = false.
Proof. vm_compute. split; reflexivity. Qed.

Print Assumptions error_is_accurate_ok.
Print Assumptions accurate_band.
