(** * SlowFacts3: composing the big-integer slow path (model/Slow.v, src/slow.rs), part 1
    (integers only).

    1. [slow_branch]: under the side conditions of SlowFacts1b, [slow] is [parse_mantissa] followed
       by [positive_digit_comp] or [negative_digit_comp] according to the sign of
       [exponent = nexp n + d - cnt]; [slow_negative_eq] / [slow_negative_parse] are the analogues
       of [slow_positive_correct] / [slow_positive_parse] for the negative branch.
    2. [estimate_magnitude], [slow_capacity_gen], [slow_capacity]: the CAPACITY ARGUMENT.  The two
       size hypotheses of [negative_digit_comp_correct] follow from
         - [N < 10^(MAX_DIGITS f + 1)] (what [parse_mantissa] returns),
         - the lower half of the estimate premise ([bbits <= w], [w] the correctly rounded
           pattern of [N * 10^exponent]),
         - the explicit bound [- K <= exponent] ([K = MAX_DIGITS f + 400] for the instances),
       and three closed inequalities ([cap_ok f K], checked by [vm_compute] for F32 and F64).
       [pm_out_lt]: the big integer returned by [parse_mantissa] has at most [cnt] digits, so in
       the positive branch [N * 10^exponent < 10^(X + D)].
    The link to [RN] / [dec_value] and the main theorem [slow_correct] are in SlowFacts3b.v. *)
From Coq Require Import ZArith List Bool Lia Znumtheory.
From Coq Require Import ZifyBool.
From ML Require Import base.RustSem model.Fmt model.Mask model.Num model.Number model.Rounding
  model.Vec model.Bigint model.Slow spec.Decimal spec.RneZ gen.Consts gen.Tables gen.PowDump.
From ML Require Import proofs.TableFacts proofs.ParseFacts proofs.LimbVal proofs.BigintFacts1
  proofs.BigintFacts2 proofs.RoundingFactsZ proofs.RoundingFactsRne proofs.NumFacts
  proofs.SlowFacts1 proofs.SlowFacts1b proofs.SlowFacts2 proofs.SlowFacts2b proofs.SlowFacts2c
  proofs.SlowFacts2d.
Import ListNotations.
Open Scope Z_scope.

Local Opaque Z.pow.
Arguments Z.pow : simpl never.

(** ** 1. [slow] is [parse_mantissa] followed by one of the two digit comparisons *)

Theorem slow_branch c T L f b n fp i fr d :
  slow_side c T L f = true ->
  2 ^ 63 <= mant fp < 2 ^ 64 ->
  ndigits_is (nmant n) d -> nmant n < 2 ^ 64 -> - 2 ^ 30 <= nexp n < 2 ^ 31 - 64 ->
  forallb digitb i = true -> forallb digitb fr = true ->
  (forall ch r, i = ch :: r -> ch <> 48) -> strip0 (i ++ fr) <> [] ->
  exists v cnt,
    parse_mantissa c T L b i fr (MAX_DIGITS f) = Ok (v, cnt) /\
    (lval (vl v), cnt) = pm_out (MAX_DIGITS f) [] (strip0 (i ++ fr)) /\
    vgood c L v /\ 0 < lval (vl v) < 10 ^ (MAX_DIGITS f + 1) /\ 0 <= cnt <= MAX_DIGITS f + 1 /\
    let exponent := nexp n + d - cnt in
    - 2 ^ 31 < exponent < 2 ^ 31 /\
    slow c T L f b n fp i fr =
      if 0 <=? exponent then positive_digit_comp c T L f b v exponent
      else negative_digit_comp c T L f b v fp exponent.
Proof.
  intros Hside Hfp Hd Hm He Hi Hfr Hlead Hne.
  unfold slow_side in Hside. apply andb_prop in Hside. destruct Hside as [Hside Hcap].
  apply andb_prop in Hside. destruct Hside as [Hside Hmax2].
  apply andb_prop in Hside. destruct Hside as [Hside Hmax].
  apply andb_prop in Hside. destruct Hside as [Hpdc Hpm].
  apply Z.leb_le in Hcap. apply Z.ltb_lt in Hmax. apply Z.ltb_lt in Hmax2.
  assert (H230 : 2 ^ 30 + 2 ^ 30 = 2 ^ 31) by reflexivity.
  assert (H64 : 64 < 2 ^ 30) by (vm_compute; reflexivity).
  destruct (parse_mantissa_spec c T L b (MAX_DIGITS f) i fr Hpm Hcap Hmax Hi Hfr Hlead)
    as (v & cnt & E & G & _ & _ & Hpos & Hrange & Hcnt).
  destruct (parse_mantissa_closed c T L b (MAX_DIGITS f) Hpm Hcap Hmax i fr Hi Hfr Hlead)
    as (v' & cnt' & E' & V' & _).
  rewrite E in E'. injection E' as <- <-.
  specialize (Hpos Hne).
  exists v, cnt. split; [exact E|]. split; [exact V'|]. split; [exact G|].
  split; [lia|]. split; [exact Hcnt|]. cbv zeta.
  pose proof (ndigits_is_u64 _ _ Hd Hm) as Hd20. pose proof Hd as [Hd1 _].
  split; [lia|].
  unfold slow. rewrite land_bit63 by exact Hfp.
  unfold debug_assert. cbn [negb]. rewrite andb_false_r. cbn [bind].
  rewrite (scientific_exponent_spec b n d Hd Hm) by lia. cbn [bind].
  rewrite E. cbn [bind].
  unfold i32_add, i32_sub. rewrite SlowFacts1.sop32_ok by lia. cbn [bind].
  rewrite wraps32_small by lia. rewrite SlowFacts1.sop32_ok by lia. cbn [bind].
  replace (nexp n + d - 1 + 1 - cnt) with (nexp n + d - cnt) by lia.
  reflexivity.
Qed.

(** the negative branch: the analogue of [slow_positive_correct] *)
Theorem slow_negative_eq c T L f b n fp i fr d :
  slow_side c T L f = true ->
  2 ^ 63 <= mant fp < 2 ^ 64 ->
  ndigits_is (nmant n) d -> nmant n < 2 ^ 64 -> - 2 ^ 30 <= nexp n < 2 ^ 31 - 64 ->
  forallb digitb i = true -> forallb digitb fr = true ->
  (forall ch r, i = ch :: r -> ch <> 48) -> strip0 (i ++ fr) <> [] ->
  exists v cnt,
    parse_mantissa c T L b i fr (MAX_DIGITS f) = Ok (v, cnt) /\
    (lval (vl v), cnt) = pm_out (MAX_DIGITS f) [] (strip0 (i ++ fr)) /\
    vgood c L v /\ 0 < lval (vl v) < 10 ^ (MAX_DIGITS f + 1) /\ 0 <= cnt <= MAX_DIGITS f + 1 /\
    let exponent := nexp n + d - cnt in
    (exponent < 0 ->
     - 2 ^ 31 < exponent /\
     slow c T L f b n fp i fr = negative_digit_comp c T L f b v fp exponent).
Proof.
  intros Hside Hfp Hd Hm He Hi Hfr Hlead Hne.
  destruct (slow_branch c T L f b n fp i fr d Hside Hfp Hd Hm He Hi Hfr Hlead Hne)
    as (v & cnt & E & V & G & Hpos & Hcnt & Hr & Hs).
  exists v, cnt. repeat (split; [assumption|]). cbv zeta in *. intros Hneg.
  split; [lia|]. rewrite Hs. replace (0 <=? nexp n + d - cnt) with false by lia. reflexivity.
Qed.

(** [slow] on the output of [parse_number] ([parse_spec]): both branches, with
    [exponent = X + D - cnt] (the exponent of the last digit kept) *)
Theorem slow_parse_branch c T L f b fp i fr e :
  slow_side c T L f = true ->
  2 ^ 63 <= mant fp < 2 ^ 64 ->
  forallb digitb i = true -> forallb digitb fr = true ->
  (forall ch r, i = ch :: r -> ch <> 48) ->
  let s := strip0 (i ++ fr) in
  let D := zlen s in
  let X := e - zlen fr in
  s <> [] -> - 2 ^ 29 <= X <= 2 ^ 29 -> zlen i + zlen fr <= 2 ^ 29 ->
  exists v cnt,
    parse_mantissa c T L b i fr (MAX_DIGITS f) = Ok (v, cnt) /\
    (lval (vl v), cnt) = pm_out (MAX_DIGITS f) [] s /\ vgood c L v /\
    0 < lval (vl v) < 10 ^ (MAX_DIGITS f + 1) /\ 0 <= cnt <= MAX_DIGITS f + 1 /\
    let exponent := X + D - cnt in
    - 2 ^ 30 <= exponent <= 2 ^ 30 /\
    slow c T L f b (parse_spec i fr e) fp i fr =
      if 0 <=? exponent then positive_digit_comp c T L f b v exponent
      else negative_digit_comp c T L f b v fp exponent.
Proof.
  intros Hside Hfp Hi Hfr Hlead s D X Hne HX Hlen.
  assert (Hsd : forallb digitb s = true).
  { apply strip0_digits. rewrite forallb_app, Hi, Hfr. reflexivity. }
  assert (Hshead : forall ch r, s = ch :: r -> ch <> 48) by (intros ch r; apply strip0_head).
  destruct (first19_ndigits s Hsd Hne Hshead) as [Hnd Hm64].
  assert (HD : 0 <= D <= zlen i + zlen fr).
  { unfold D. split; [apply zlen_nonneg|]. unfold s. pose proof (strip0_len (i ++ fr)) as H.
    rewrite ParseFacts.zlen_app in H. exact H. }
  assert (H229 : 2 ^ 29 + 2 ^ 29 = 2 ^ 30) by reflexivity.
  assert (H230 : 2 ^ 30 + 2 ^ 30 = 2 ^ 31) by reflexivity.
  assert (H64 : 64 < 2 ^ 29) by (vm_compute; reflexivity).
  assert (Hnexp : nexp (parse_spec i fr e) = X + Z.max 0 (D - 19)).
  { unfold parse_spec. cbn [nexp]. fold s D X. apply clamp_i32_id. unfold i32_min, i32_max. lia. }
  assert (Hnm : nmant (parse_spec i fr e) = digits_to_Z (firstn 19 s)) by reflexivity.
  assert (Hmax2 : MAX_DIGITS f < 2 ^ 30).
  { unfold slow_side in Hside. repeat (apply andb_prop in Hside; destruct Hside as [Hside ?]). lia. }
  destruct (slow_branch c T L f b (parse_spec i fr e) fp i fr (Z.min D 19) Hside Hfp)
    as (v & cnt & E & V & G & Hpos & Hcnt & Hr & Hmain); try assumption.
  - rewrite Hnexp. lia.
  - exists v, cnt. repeat (split; [assumption|]).
    cbv zeta in Hmain, Hr |- *. rewrite Hnexp in Hmain, Hr.
    replace (X + Z.max 0 (D - 19) + Z.min D 19 - cnt) with (X + D - cnt) in Hmain, Hr by lia.
    split; [|exact Hmain].
    (* cnt <= D as well: the count never exceeds the number of significant digits *)
    assert (cnt <= D).
    { fold s in V. destruct (Z_le_gt_dec D (MAX_DIGITS f)) as [Hle|Hgt].
      - rewrite pm_out_short in V by exact Hle. injection V as _ V2. fold D in V2. lia.
      - lia. }
    lia.
Qed.

Theorem slow_negative_parse c T L f b fp i fr e :
  slow_side c T L f = true ->
  2 ^ 63 <= mant fp < 2 ^ 64 ->
  forallb digitb i = true -> forallb digitb fr = true ->
  (forall ch r, i = ch :: r -> ch <> 48) ->
  let s := strip0 (i ++ fr) in
  let D := zlen s in
  let X := e - zlen fr in
  s <> [] -> - 2 ^ 29 <= X <= 2 ^ 29 -> zlen i + zlen fr <= 2 ^ 29 ->
  exists v cnt,
    parse_mantissa c T L b i fr (MAX_DIGITS f) = Ok (v, cnt) /\
    (lval (vl v), cnt) = pm_out (MAX_DIGITS f) [] s /\ vgood c L v /\
    0 < lval (vl v) < 10 ^ (MAX_DIGITS f + 1) /\ 0 <= cnt <= MAX_DIGITS f + 1 /\
    let exponent := X + D - cnt in
    (exponent < 0 ->
     - 2 ^ 30 <= exponent /\
     slow c T L f b (parse_spec i fr e) fp i fr = negative_digit_comp c T L f b v fp exponent).
Proof.
  intros Hside Hfp Hi Hfr Hlead s D X Hne HX Hlen.
  destruct (slow_parse_branch c T L f b fp i fr e Hside Hfp Hi Hfr Hlead Hne HX Hlen)
    as (v & cnt & E & V & G & Hpos & Hcnt & Hr & Hs).
  exists v, cnt. repeat (split; [assumption|]). cbv zeta in *. fold s D X in Hr, Hs |- *.
  intros Hneg. split; [lia|]. rewrite Hs. replace (0 <=? X + D - cnt) with false by lia. reflexivity.
Qed.

(** the big integer has at most [cnt] digits *)
Lemma pm_out_lt maxd s :
  0 < maxd -> forallb digitb s = true ->
  0 <= fst (pm_out maxd [] s) < 10 ^ snd (pm_out maxd [] s) /\ 0 <= snd (pm_out maxd [] s).
Proof.
  intros Hm Hs. pose proof (zlen_nonneg s) as Hs0.
  destruct (Z_le_gt_dec (zlen s) maxd) as [Hle|Hgt].
  - rewrite pm_out_short by exact Hle. cbn [fst snd]. split; [apply digits_bound; exact Hs|exact Hs0].
  - rewrite pm_out_long by lia.
    set (k := Z.to_nat maxd).
    assert (Hfd : forallb digitb (firstn k s) = true).
    { rewrite <- (firstn_skipn k s) in Hs. apply forallb_app_l in Hs. exact Hs. }
    pose proof (digits_bound _ Hfd) as Hfb. rewrite ParseFacts.zlen_firstn in Hfb.
    replace (Z.min (Z.of_nat k) (zlen s)) with maxd in Hfb by lia.
    destruct (all0 (skipn k s)); cbn [fst snd].
    + split; [exact Hfb|lia].
    + rewrite p10_add by lia. change (10 ^ 1) with 10. lia.
Qed.

(** ** 2. The capacity argument for the negative branch *)

Section Cap.
Variable f : format.
Hypothesis OK : fmt_ok f = true.

Local Notation ms := (MANTISSA_SIZE f).

Lemma bias_femin : EXPONENT_BIAS f = 1 - femin f.
Proof. destruct (fmt_ok_facts f OK). unfold femin, prec. lia. Qed.

Lemma max_exponent_emax : MAX_EXPONENT f = emax f - ms.
Proof.
  destruct (fmt_ok_facts f OK). pose proof (emax_double f OK).
  rewrite ff_maxexp, ff_infpow, ff_bias. lia.
Qed.

(** The lower half of the estimate premise bounds the estimate's exponent by the magnitude of
    the value: if the pattern [x] (a normal number of exponent [Eb >= femin + 2]) is at most the
    correctly rounded pattern of [n/d], then [2^(ms + Eb - 1) <= n/d].  Stated with the common
    scale [2^(-femin)]. *)
Lemma estimate_magnitude x n d w :
  0 <= x < 2 ^ (fbits f - 1) -> 0 < n -> 0 < d ->
  rne_bits f n d w -> x <= w ->
  femin f + 2 <= dec_exp f x ->
  2 ^ ms * 2 ^ (dec_exp f x - 1 - femin f) * d <= n * 2 ^ (- femin f).
Proof.
  intros Hx Hn Hd Hr Hxw HEb.
  destruct (fmt_ok_facts f OK) as [ff_bits ff_ms_pos ff_ew_pos ff_ew_small ff_width ff_mmask ff_hidden
    ff_emask ff_smask ff_bias ff_denexp ff_carry ff_infpow ff_maxexp ff_minexp ff_maxfast ff_invalid].
  destruct (pow2_prec_ms f OK) as (P1 & P2 & P3).
  pose proof (femin_nonpos f OK) as HF.
  pose proof bias_femin as HB. pose proof max_exponent_emax as HME.
  pose proof (denormal_exponent_femin f OK) as HDE.
  pose proof (nonneg_pattern_split f OK x Hx) as Px.
  pose proof (frac_field_range f OK x) as HFr. pose proof (exp_field_range f OK x) as HEf.
  pose proof (dec_exp_range f OK x) as HEr.
  set (Eb := dec_exp f x) in *.
  (* the biased exponent of x *)
  assert (Hfield : exp_field f x = Eb + 1 - femin f).
  { unfold Eb, dec_exp in *. destruct (exp_field f x =? 0) eqn:E0; lia. }
  assert (Hxlow : (Eb + 1 - femin f) * 2 ^ ms <= x) by (rewrite <- Hfield; lia).
  assert (Hp0 : 0 < 2 ^ (Eb - 1 - femin f)) by (apply NumFacts.pow2_pos; lia).
  assert (Hpf : 0 < 2 ^ (- femin f)) by (apply NumFacts.pow2_pos; lia).
  assert (Hemax : 0 < emax f).
  { unfold emax. apply NumFacts.pow2_pos. lia. }
  destruct Hr as [[Hz _]|[(_ & Hov & Hw)|(_ & Hfin & M & E & Hc & Hne & Hw)]]; [lia| |].
  - (* overflow *)
    assert (Hle : 2 ^ ms * 2 ^ (Eb - 1 - femin f) <= 2 ^ emax f * 2 ^ (- femin f)).
    { rewrite <- !NumFacts.pow2_split by lia. apply NumFacts.pow2_le. lia. }
    apply Z.le_trans with (2 ^ emax f * 2 ^ (- femin f) * d).
    + apply Z.mul_le_mono_nonneg_r; lia.
    + replace (2 ^ emax f * 2 ^ (- femin f) * d) with ((2 ^ emax f * d) * 2 ^ (- femin f)) by ring.
      apply Z.mul_le_mono_nonneg_r; lia.
  - (* finite result (M, E) *)
    destruct (canon_exp_norm f OK n d E Hd Hc) as (HE & HW & Hc1 & Hc2).
    destruct (nearest_even_norm f OK n d M E Hd HE Hne) as ((Hlo & Hhi) & _).
    set (n' := n * 2 ^ (- femin f)) in *. set (W := 2 ^ (E - femin f) * d) in *.
    assert (HM : M <= 2 * 2 ^ ms).
    { destruct (Z_lt_le_dec (2 * 2 ^ ms) M) as [Hbig|]; [exfalso|assumption].
      assert ((4 * 2 ^ ms + 1) * W <= (2 * M - 1) * W) by (apply Z.mul_le_mono_nonneg_r; lia). lia. }
    rewrite encode_offset in Hw.
    assert (HEE : Eb - 1 <= E).
    { destruct (M <? 2 ^ ms) eqn:EM.
      - exfalso. assert (3 * 2 ^ ms <= (Eb + 1 - femin f) * 2 ^ ms)
          by (apply Z.mul_le_mono_nonneg_r; lia). lia.
      - assert (Hwle : w <= (E - femin f + 2) * 2 ^ ms) by lia.
        destruct (Z_le_gt_dec (Eb - 1) E) as [|Hgt]; [assumption|exfalso].
        assert ((E - femin f + 3) * 2 ^ ms <= (Eb + 1 - femin f) * 2 ^ ms)
          by (apply Z.mul_le_mono_nonneg_r; lia). lia. }
    destruct Hc2 as [Hz|Hc2]; [lia|].
    assert (Hmono : 2 ^ (Eb - 1 - femin f) <= 2 ^ (E - femin f)) by (apply NumFacts.pow2_le; lia).
    apply Z.le_trans with (2 ^ ms * W); [|exact Hc2].
    unfold W. rewrite <- Z.mul_assoc. apply Z.mul_le_mono_nonneg_l; [lia|].
    apply Z.mul_le_mono_nonneg_r; lia.
Qed.

(** the closed inequalities (62 limbs of 64 bits); [K] bounds [- exponent] *)
Definition cap_ok (K : Z) : bool :=
  (0 <=? K) &&
  (10 ^ (MAX_DIGITS f + 1) * 2 ^ (- femin f) <=? B64 ^ 62) &&
  (4 * 2 ^ ms * 5 ^ K * 2 ^ Z.max 0 (femin f + K) <=? B64 ^ 62) &&
  (4 * 10 ^ (MAX_DIGITS f + 1) <=? B64 ^ 62).

Lemma mul_lt_le a A b' B : 0 <= a < A -> 0 < b' <= B -> a * b' < A * B.
Proof.
  intros Ha Hb. apply Z.lt_le_trans with (A * b').
  - apply Z.mul_lt_mono_pos_r; lia.
  - apply Z.mul_le_mono_nonneg_l; lia.
Qed.

Lemma mul3_lt_le a A b' B c' C :
  0 <= a < A -> 0 < b' <= B -> 0 < c' <= C -> a * b' * c' < A * B * C.
Proof.
  intros Ha Hb Hc. apply mul_lt_le; [|exact Hc].
  split; [apply Z.mul_nonneg_nonneg; lia|apply mul_lt_le; assumption].
Qed.

Theorem slow_capacity_gen K x N k w :
  cap_ok K = true ->
  0 <= x < 2 ^ (fbits f - 1) ->
  0 < N < 10 ^ (MAX_DIGITS f + 1) -> 0 < k <= K ->
  rne_bits f N (10 ^ k) w -> x <= w ->
  let Mb := dec_mant f x in
  let Eb := dec_exp f x in
  let beta := Eb - 1 + k in
  N * 2 ^ Z.max 0 (- beta) < B64 ^ 62 /\
  (2 * Mb + 1) * 5 ^ k * 2 ^ Z.max 0 beta < B64 ^ 62.
Proof.
  intros Hcap Hx HN Hk Hr Hxw Mb Eb beta.
  unfold cap_ok in Hcap. apply andb_prop in Hcap. destruct Hcap as [Hcap C3].
  apply andb_prop in Hcap. destruct Hcap as [Hcap C2].
  apply andb_prop in Hcap. destruct Hcap as [C0 C1].
  apply Z.leb_le in C0, C1, C2, C3.
  destruct (pow2_prec_ms f OK) as (P1 & P2 & P3).
  pose proof (femin_nonpos f OK) as HF.
  pose proof (denormal_exponent_femin f OK) as HDE.
  pose proof (dec_exp_range f OK x) as HEr. fold Eb in HEr. rewrite HDE in HEr.
  pose proof (dec_mant_range f OK x) as HMr. fold Mb in HMr.
  assert (H5k : 0 < 5 ^ k) by (apply Z.pow_pos_nonneg; lia).
  assert (H5K : 5 ^ k <= 5 ^ K) by (apply Z.pow_le_mono_r; lia).
  assert (H10 : 10 ^ k = 5 ^ k * 2 ^ k) by (change 10 with (5 * 2); apply Z.pow_mul_l).
  assert (Hpf : 0 < 2 ^ (- femin f)) by (apply NumFacts.pow2_pos; lia).
  split.
  - (* the real digits: shifted by at most - femin *)
    assert (H1 : 0 < 2 ^ Z.max 0 (- beta) <= 2 ^ (- femin f)).
    { split; [apply NumFacts.pow2_pos; lia|apply NumFacts.pow2_le; unfold beta; lia]. }
    pose proof (mul_lt_le N (10 ^ (MAX_DIGITS f + 1)) _ _ ltac:(lia) H1). lia.
  - destruct (Z_le_gt_dec beta 0) as [Hb|Hb]; [|destruct (Z_le_gt_dec Eb (femin f + 1)) as [He|He]].
    + (* no shift of the theoretical digits *)
      replace (Z.max 0 beta) with 0 by lia.
      assert (H2 : 0 < 2 ^ 0 <= 2 ^ Z.max 0 (femin f + K))
        by (split; [reflexivity|apply NumFacts.pow2_le; lia]).
      pose proof (mul3_lt_le (2 * Mb + 1) (4 * 2 ^ ms) (5 ^ k) (5 ^ K) (2 ^ 0) _
                    ltac:(lia) ltac:(lia) H2). lia.
    + (* subnormal estimate (or the first normal binade): bounded through K *)
      assert (H2 : 0 < 2 ^ Z.max 0 beta <= 2 ^ Z.max 0 (femin f + K)).
      { split; [apply NumFacts.pow2_pos; lia|apply NumFacts.pow2_le; unfold beta; lia]. }
      pose proof (mul3_lt_le (2 * Mb + 1) (4 * 2 ^ ms) (5 ^ k) (5 ^ K) _ _
                    ltac:(lia) ltac:(lia) H2). lia.
    + (* normal estimate: its magnitude is bounded by that of the value *)
      replace (Z.max 0 beta) with beta by lia.
      assert (H10k : 0 < 10 ^ k) by (apply Z.pow_pos_nonneg; lia).
      pose proof (estimate_magnitude x N (10 ^ k) w Hx ltac:(lia) H10k Hr Hxw ltac:(fold Eb; lia)) as HM.
      fold Eb in HM.
      set (g := 2 ^ (Eb - 1 - femin f)) in *.
      assert (Hg : 0 < g) by (apply NumFacts.pow2_pos; lia).
      assert (Hsplit : 2 ^ beta * 2 ^ (- femin f) = 2 ^ k * g).
      { unfold g. rewrite <- !NumFacts.pow2_split by lia. f_equal. unfold beta. lia. }
      (* T * 2^(-femin) < 4 N * 2^(-femin) *)
      assert (HT : (2 * Mb + 1) * 5 ^ k * 2 ^ beta * 2 ^ (- femin f) < 4 * N * 2 ^ (- femin f)).
      { replace ((2 * Mb + 1) * 5 ^ k * 2 ^ beta * 2 ^ (- femin f))
          with ((2 * Mb + 1) * 5 ^ k * (2 ^ beta * 2 ^ (- femin f))) by ring.
        rewrite Hsplit.
        replace ((2 * Mb + 1) * 5 ^ k * (2 ^ k * g)) with ((2 * Mb + 1) * (5 ^ k * 2 ^ k * g)) by ring.
        rewrite <- H10.
        assert (0 < 10 ^ k * g) by (apply Z.mul_pos_pos; lia).
        assert ((2 * Mb + 1) * (10 ^ k * g) < (4 * 2 ^ ms) * (10 ^ k * g))
          by (apply Z.mul_lt_mono_pos_r; lia).
        replace (4 * 2 ^ ms * (10 ^ k * g)) with (4 * (2 ^ ms * g * 10 ^ k)) in H0 by ring. lia. }
      assert ((2 * Mb + 1) * 5 ^ k * 2 ^ beta < 4 * N).
      { apply (Z.mul_lt_mono_pos_r (2 ^ (- femin f))); [exact Hpf|exact HT]. }
      lia.
Qed.

End Cap.

Definition slow_K (f : format) : Z := MAX_DIGITS f + 400.

Lemma cap_ok_F64 : cap_ok F64 (slow_K F64) = true.
Proof. vm_compute. reflexivity. Qed.
Lemma cap_ok_F32 : cap_ok F32 (slow_K F32) = true.
Proof. vm_compute. reflexivity. Qed.

(** the truncated estimate is a sign-clear pattern (for [exp fp <= -64] it is +0.0, SlowFacts2d) *)
Lemma rd_bits_range f fp :
  fmt_ok f = true -> rfmt_ok f = true ->
  2 ^ 63 <= mant fp < 2 ^ 64 -> exp fp <= 2 ^ 30 ->
  0 <= rd_bits f fp < 2 ^ (fbits f - 1).
Proof.
  intros OK Hf Hm He. destruct (Z_le_gt_dec (- 63) (exp fp)) as [Hhi|Hlo].
  - destruct (rd_model f Hf checked_build fp Hm ltac:(lia)) as (_ & _ & Hrange). exact Hrange.
  - destruct fp as [m e]. cbn [mant exp] in *.
    assert (2 ^ 63 < 2 ^ 64) by (vm_compute; reflexivity).
    rewrite (rd_bits_low f Hf m e ltac:(lia) ltac:(lia)).
    destruct (fmt_ok_facts f OK). split; [lia|]. apply NumFacts.pow2_pos. lia.
Qed.

(** *** [slow_capacity]: the size hypotheses of [negative_digit_comp_correct] (and of
    [negative_digit_comp_correct_64]); no lower bound on [exp fp] is needed here *)
Theorem slow_capacity f fp exponent N w :
  fmt_ok f = true -> rfmt_ok f = true -> cap_ok f (slow_K f) = true ->
  2 ^ 63 <= mant fp < 2 ^ 64 -> exp fp <= 2 ^ 30 ->
  0 < N < 10 ^ (MAX_DIGITS f + 1) ->
  - slow_K f <= exponent < 0 ->                      (* exponent_lo *)
  rne_bits f N (10 ^ (- exponent)) w ->
  rd_bits f fp <= w ->                               (* lower half of the estimate premise *)
  let bbits := rd_bits f fp in
  let Mb := dec_mant f bbits in
  let Eb := dec_exp f bbits in
  let beta := Eb - 1 - exponent in
  N * 2 ^ Z.max 0 (- beta) < B64 ^ 62 /\
  (2 * Mb + 1) * 5 ^ (- exponent) * 2 ^ Z.max 0 beta < B64 ^ 62.
Proof.
  intros OK Hf Hcap Hm He HN Hex Hr Hw bbits Mb Eb beta.
  pose proof (rd_bits_range f fp OK Hf Hm He) as Hrange.
  pose proof (slow_capacity_gen f OK (slow_K f) bbits N (- exponent) w Hcap Hrange HN ltac:(lia) Hr Hw)
    as H. cbv zeta in H. fold Mb Eb in H.
  replace (Eb - 1 + - exponent) with beta in H by (unfold beta; lia). exact H.
Qed.

(** the closed inequalities, in bits: the comparison of the slow path needs at most
    max (2558 + 1074, 2 + 52 + 2715 + 95, 2 + 2558) = 3632 of the 3968 bits for binary64 *)
Example cap_bits_F64 :
  10 ^ (MAX_DIGITS F64 + 1) * 2 ^ (- femin F64) < 2 ^ 3632 /\
  4 * 2 ^ MANTISSA_SIZE F64 * 5 ^ slow_K F64 * 2 ^ Z.max 0 (femin F64 + slow_K F64) < 2 ^ 2864 /\
  4 * 10 ^ (MAX_DIGITS F64 + 1) < 2 ^ 2560 /\ B64 ^ 62 = 2 ^ 3968 /\
  slow_K F64 = 1169 /\ slow_K F32 = 514.
Proof. vm_compute. repeat split; reflexivity. Qed.

(** how far [K] could be pushed for binary64: the second inequality holds up to K = 1501 and
    fails at 1502 (the crate itself needs K = 769 + 1 + 342 - 1 = 1111) *)
Example cap_limit_F64 : cap_ok F64 1501 = true /\ cap_ok F64 1502 = false.
Proof. vm_compute. split; reflexivity. Qed.

(** the hypotheses of [slow_capacity] on the classic halfway case 1 + 2^-53 *)
Example slow_capacity_inst :
  let bbits := rd_bits F64 ex_fp in
  let beta := dec_exp F64 bbits - 1 - (-53) in
  ex_N * 2 ^ Z.max 0 (- beta) < B64 ^ 62 /\
  (2 * dec_mant F64 bbits + 1) * 5 ^ (- (-53)) * 2 ^ Z.max 0 beta < B64 ^ 62.
Proof.
  destruct negative_digit_comp_correct_hyps as
    (H1 & H2 & H3 & H4 & H5 & H6 & H7 & H8 & H9 & H10 & H11 & H12 & H13 & H14 & H15 & H16 & H17).
  apply (slow_capacity F64 ex_fp (-53) ex_N 0x3ff0000000000000 F64_ok rfmt_ok_F64 cap_ok_F64);
    try assumption; try (vm_compute; split; congruence); try lia.
Qed.

Print Assumptions slow_branch.
Print Assumptions slow_negative_eq.
Print Assumptions slow_parse_branch.
Print Assumptions slow_negative_parse.
Print Assumptions estimate_magnitude.
Print Assumptions slow_capacity_gen.
Print Assumptions slow_capacity.
